------------------------------- MODULE OdeGen -------------------------------
(***************************************************************************)
(* Generator for C04: a model is a disjoint union of 1..MaxBlocks blocks   *)
(* of the closed-form families of Ode.tla (each block on its own species), *)
(* built by actions with random members (-simulate), followed by a time    *)
(* grid starting at 0 (uniform or not).  TLC checks the certificate of     *)
(* every block in every reachable state and emits each finished model      *)
(* with the exact rows of the solution at the grid times.                  *)
(***************************************************************************)
EXTENDS Ode, Json

CONSTANTS MaxBlocks

VARIABLES blocks, cand, grid, pc
vars == <<blocks, cand, grid, pc>>

Blk(fam, ns, x0, rx, var, k, c) == [fam |-> fam, ns |-> ns, x0 |-> x0, rx |-> rx, var |-> var, k |-> k, c |-> c]
NoBlock == Blk("none", 0, << >>, << >>, "", Zero, Zero)
Rnd(S, dummy) == RandomElement(S)        \* (a parameter keeps TLC from caching the "constant")
KG == {R(1, 2), I(1), R(3, 2), I(2), I(3)}
X0G == {I(0), I(1), I(2), I(3), I(5), R(1, 2), R(5, 2)}
SeqsOver(S, n) == UNION {[1..len -> S] : len \in 0..n}
\* split a product list into an immediate and a delayed part
Split(ps, d) == LET cut == Rnd(0..Len(ps), d) IN <<SubSeq(ps, 1, cut), SubSeq(ps, cut + 1, Len(ps))>>

\* ---------------------------------------------------------------- F1
\* species 1 is a constant catalyst / regulator, species 2..ns are produced (or, through a delayed
\* reactant, consumed) at rates that depend on t only
F1Rx(ns, e0, d) ==
    LET kind == Rnd({"zero", "cat", "hillp", "hilln", "kt", "kt2"}, d)
        k == Rnd(KG, d)
        sp == Split(Rnd(SeqsOver(2..ns, 2) \ {<< >>}, d), d)
        dre == IF Rnd(1..5, d) = 1 THEN <<Rnd(2..ns, d)>> ELSE << >>
        KK == Rnd({I(1), I(2), R(1, 2)}, d)
        nn == Rnd({I(1), I(2)}, d)
        hlaw(ty) == [type |-> ty, re |-> << >>, k |-> k, K |-> KK, n |-> nn, s1 |-> 1, d |-> 1]
        hill(ty) == MkRxP(<< >>, sp[1], dre, sp[2], ty, k, KK, nn, 1, NoTree, <<RL!Det(hlaw(ty), <<e0>>)>>) IN
    CASE kind = "zero" -> MkRxP(<< >>, sp[1], dre, sp[2], "massaction", k, One, One, 1, NoTree, <<k>>)
      [] kind = "cat" -> MkRxP(<<1>>, <<1>> \o sp[1], dre, sp[2], "massaction", k, One, One, 1, NoTree, <<RMul(k, e0)>>)
      [] kind = "hillp" -> hill("hillpositive")
      [] kind = "hilln" -> hill("hillnegative")
      [] kind = "kt" -> MkRxP(<< >>, sp[1], dre, sp[2], "general", k, One, One, 1, EBin("mul", ENum(k), ET), <<Zero, k>>)
      [] kind = "kt2" -> MkRxP(<< >>, sp[1], dre, sp[2], "general", k, One, One, 1,
                               EBin("mul", ENum(k), EBin("pow", ET, ENum(I(2)))), <<Zero, Zero, k>>)
GenF1(d) ==
    LET ns == Rnd(2..3, d)
        e0 == Rnd({I(1), I(2), R(1, 2), I(4)}, d)
        nr == Rnd(1..3, d)
        x0 == [i \in 1..ns |-> IF i = 1 THEN e0 ELSE Rnd(X0G, <<d, i>>)] IN
    Blk("F1", ns, x0, [r \in 1..nr |-> F1Rx(ns, e0, <<d, r>>)], "", Zero, Zero)

\* ---------------------------------------------------------------- F2
RECURSIVE F2From(_, _, _)
F2From(i, ns, d) ==      \* reactions leaving species i, i+1, ..., ns
    IF i > ns THEN << >>
    ELSE LET no == IF i = 1 THEN Rnd(1..2, d) ELSE Rnd(0..2, <<d, i>>)
             one(r) == LET ps == IF i = ns THEN << >> ELSE Rnd(SeqsOver((i + 1)..ns, 2), <<d, i, r>>)
                           sp == Split(ps, <<d, i, r>>)
                           cat == ps # << >> /\ Rnd(1..4, <<d, r>>) = 1      \* catalytic: src stays
                       IN MkRx(<<i>>, (IF cat THEN <<i>> ELSE << >>) \o sp[1], << >>, sp[2], "massaction",
                               Rnd(KG, <<d, i, r>>), One, One, 1, NoTree)
         IN [r \in 1..no |-> one(r)] \o F2From(i + 1, ns, d)
GenF2(d) ==
    LET ns == Rnd(2..4, d) IN
    Blk("F2", ns, [i \in 1..ns |-> Rnd(X0G, <<d, i>>)], F2From(1, ns, d), "", Zero, Zero)

\* ---------------------------------------------------------------- F3
GenF3(d) ==
    LET var == Rnd({"2A->0", "2A->B", "A+B->C"}, d)
        k == Rnd({R(1, 2), I(1), I(2), R(1, 4)}, d)
        a0 == Rnd({I(1), I(2), I(3), R(1, 2), I(5)}, d)
        o0 == Rnd({I(0), I(1), R(3, 2)}, d)
        del == Rnd(BOOLEAN, d) IN
    CASE var = "2A->0" -> Blk("F3", 1, <<a0>>, <<MkRx(<<1, 1>>, << >>, << >>, << >>, "massaction", k, One, One, 1, NoTree)>>, var, Zero, Zero)
      [] var = "2A->B" -> Blk("F3", 2, <<a0, o0>>,
                              <<MkRx(<<1, 1>>, IF del THEN << >> ELSE <<2>>, << >>, IF del THEN <<2>> ELSE << >>, "massaction", k, One, One, 1, NoTree)>>,
                              var, Zero, Zero)
      [] var = "A+B->C" -> Blk("F3", 3, <<a0, a0, o0>>,
                               <<MkRx(<<1, 2>>, IF del THEN << >> ELSE <<3>>, << >>, IF del THEN <<3>> ELSE << >>, "massaction", k, One, One, 1, NoTree)>>,
                               var, Zero, Zero)

\* ---------------------------------------------------------------- F4
GenF4(d) ==
    LET ns == Rnd(1..2, d)
        k == Rnd(KG, d)
        c == Rnd({R(1, 2), I(1), I(2)}, d)
        sp == Split(Rnd(SeqsOver(1..ns, 2) \ {<< >>}, d), d)
        tree == EBin("mul", ENum(k), EUn("exp", EUn("neg", EBin("mul", ENum(c), ET)))) IN
    Blk("F4", ns, [i \in 1..ns |-> Rnd(X0G, <<d, i>>)], <<MkRx(<< >>, sp[1], << >>, sp[2], "general", k, One, One, 1, tree)>>,
        "", k, c)

\* ---------------------------------------------------------------- F5
GenF5(d) ==
    LET ns == Rnd(2..3, d)
        g == Rnd({I(2), I(3)}, d)
        grow == MkRx(<<1>>, <<1, 1>>, << >>, << >>, "massaction", g, One, One, 1, NoTree) IN
    Blk("F5", ns, [i \in 1..ns |-> IF i = 1 THEN Rnd({I(1), I(2), R(3, 2), R(1, 2)}, <<d, i>>) ELSE Rnd(X0G, <<d, i>>)],
        <<grow>> \o F2From(1, ns, d), "", Zero, Zero)

\* ---------------------------------------------------------------- grids (start at 0; end <= 4 except the long-gap grids)
Uniform(dt, n) == [i \in 1..n |-> RMul(I(i - 1), dt)]
Grids == {Uniform(R(1, 4), 9), Uniform(R(1, 2), 9), Uniform(I(1), 5), Uniform(R(1, 2), 5), Uniform(R(1, 4), 17),
          <<I(0), R(1, 4), R(1, 2), R(3, 2), I(2), R(7, 2)>>, <<I(0), I(1), R(5, 4), R(3, 2), I(4)>>,
          <<I(0), R(1, 10), R(1, 2), I(1), I(3)>>, <<I(0), I(2), R(5, 2), I(3), R(13, 4), R(7, 2), I(4)>>}
\* a long gap between two requested times: a growing solution (F5) needs more than the integrator's first step budget there
LongGrids == {<<I(0), R(1, 2), I(1), I(2), I(60), I(61), I(62)>>, <<I(0), I(1), I(50), R(101, 2), I(64)>>}
HasGrowth(bs) == \E n \in 1..Len(bs) : bs[n].fam = "F5"
\* a first gap that is tiny compared with a later one (a log-spaced grid): the step size that suits the first interval
\* must not be imposed on the later ones.  (Not with F1 / F3: their polynomials at t = 1/20000 leave TLC's integers.)
TinyGrids == {<<I(0), R(1, 20000), R(1, 2), I(1), I(40)>>}
HasPoly(bs) == \E n \in 1..Len(bs) : bs[n].fam \in {"F1", "F3"}
IsUniform(g) == \A i \in 2..(Len(g) - 1) : RSub(g[i + 1], g[i]) = RSub(g[2], g[1])

Init == blocks = << >> /\ cand = NoBlock /\ grid = <<Zero>> /\ pc = "build"
\* a block is first DRAWN into the state (TLC keeps function constructors as lazy closures: a random value read
\* twice before it is part of a state would be drawn twice), then accepted if it is a member of its family
\* (e.g. pairwise distinct exit rates) or dropped
Member(b) == IF b.fam = "F2" THEN IsFeedForward(b) ELSE IF b.fam = "F5" THEN IsGrowing(b) ELSE TRUE
Draw == /\ pc = "build" /\ cand = NoBlock /\ Len(blocks) < MaxBlocks
        /\ \E fam \in {Rnd({"F1", "F2", "F3", "F4", "F2", "F1", "F5"}, blocks)} :
              cand' = (CASE fam = "F1" -> GenF1(blocks) [] fam = "F2" -> GenF2(blocks)
                         [] fam = "F3" -> GenF3(blocks) [] fam = "F4" -> GenF4(blocks) [] fam = "F5" -> GenF5(blocks))
        /\ UNCHANGED <<blocks, grid, pc>>
Accept == /\ pc = "build" /\ cand # NoBlock
          /\ IF Member(cand) THEN blocks' = Append(blocks, cand) ELSE blocks' = blocks
          /\ cand' = NoBlock /\ UNCHANGED <<grid, pc>>
Finish == /\ pc = "build" /\ Len(blocks) >= 1 /\ cand = NoBlock
          /\ IF Len(blocks) = MaxBlocks THEN TRUE ELSE Rnd(1..2, blocks) = 1
          /\ \E g \in {Rnd(IF ~HasPoly(blocks) /\ Rnd(1..5, blocks) = 1 THEN TinyGrids
                          ELSE IF HasGrowth(blocks) THEN LongGrids ELSE Grids \cup {<<I(0), I(1), I(50), R(101, 2), I(64)>>}, blocks)} : grid' = g
          /\ pc' = "done" /\ UNCHANGED <<blocks, cand>>
Next == Draw \/ Accept \/ Finish
Spec == Init /\ [][Next]_vars

\* ---------------------------------------------------------------- what TLC checks (M)
Certificates == \A n \in 1..Len(blocks) : Cert(blocks[n])
GridOk == grid[1] = Zero /\ \A i \in 1..(Len(grid) - 1) : RLt(grid[i], grid[i + 1])

\* ---------------------------------------------------------------- emission (G)
EncRx(rx) == [re |-> rx.re, pr |-> rx.pr, dre |-> rx.dre, dpr |-> rx.dpr, kind |-> rx.kind, k |-> rx.k, K |-> rx.K, n |-> rx.n,
              s1 |-> rx.s1, e |-> Enc(rx.e)]
Emit == pc = "done" =>
    PrintT(ToJson([blocks |-> [n \in 1..Len(blocks) |->
                                  [fam |-> blocks[n].fam, var |-> blocks[n].var, ns |-> blocks[n].ns, x0 |-> blocks[n].x0,
                                   rx |-> [r \in 1..Len(blocks[n].rx) |-> EncRx(blocks[n].rx[r])]]],
                   times |-> grid, uniform |-> IsUniform(grid),
                   rows |-> [i \in 1..Len(grid) |-> [n \in 1..Len(blocks) |->
                                LET st == StateAt(blocks[n], grid[i]) IN [s \in 1..blocks[n].ns |-> SVSeq(st[s])]]]]))
=============================================================================
