----------------------------- MODULE PriorProbe -----------------------------
(* Probe machine for C16: build a vector of 1..MaxLen (prior, value, positive-flag) components one *)
(* action at a time, then evaluate.  TLC checks the density identities on every single-prior       *)
(* point and emits every vector with its expected outcome (Rejected or the exact log-density).     *)
EXTENDS Priors, TLC, Json

CONSTANTS MaxLen, Mode   \* Mode "single": all single components exhaustively; "vector": random vectors (-simulate)

VARIABLES vec, pc
vars == <<vec, pc>>

\* ---- grids: every number is {2,3,5,7}-smooth so that logarithms are canonical
PriorsOf(fam) ==
    CASE fam = "uniform"      -> {[fam |-> fam, p1 |-> a, p2 |-> b] : <<a, b>> \in {<<I(0), I(2)>>, <<I(1), I(4)>>, <<R(-3, 2), R(1, 2)>>, <<R(1, 2), R(5, 4)>>}}
      [] fam = "gaussian"     -> {[fam |-> fam, p1 |-> m, p2 |-> s] : m \in {I(0), I(2), R(-3, 2)}, s \in {I(1), R(1, 2), I(3)}}
      [] fam = "exponential"  -> {[fam |-> fam, p1 |-> l, p2 |-> One] : l \in {I(1), I(2), R(1, 2), R(5, 2)}}
      [] fam = "gamma"        -> {[fam |-> fam, p1 |-> I(al), p2 |-> b] : al \in 1..5, b \in {I(1), I(2), R(1, 2)}}
      [] fam = "beta"         -> {[fam |-> fam, p1 |-> I(a), p2 |-> I(b)] : a \in 1..4, b \in 1..4}
      [] fam = "log-uniform"  -> {[fam |-> fam, p1 |-> a, p2 |-> b] : <<a, b>> \in {<<I(1), I(8)>>, <<R(1, 2), I(4)>>, <<R(1, 10), I(10)>>}}
      [] fam = "log-gaussian" -> {[fam |-> fam, p1 |-> m, p2 |-> s] : m \in {I(0), I(1), R(-1, 2)}, s \in {I(1), R(1, 2), I(2)}}
AllPriors == UNION {PriorsOf(fam) : fam \in Families}

\* values: inside, near and on each boundary, outside, negative
XGrid == {I(0), I(1), I(2), I(3), I(4), I(5), I(8), I(10), R(1, 2), R(1, 4), R(3, 4), R(3, 2), R(5, 4), R(9, 8), R(7, 8),
          R(1, 100), R(99, 100), R(1, 1000), R(1, 10), R(81, 10), R(126, 125), R(1001, 1000), R(21, 2), R(10001, 1000),
          I(-1), I(-2), I(-3), R(-1, 2), R(-1, 100), R(-3, 2), R(-5, 2), R(-1, 1000)}
Usable(pr, x) == \* keep the evaluation inside double range / away from underflow of the density itself
    CASE pr.fam = "gaussian" -> RLe(RAbs(RDiv(RSub(x, pr.p1), pr.p2)), I(12))
      [] OTHER -> TRUE
Comps == {[pr |-> pr, x |-> x, positive |-> pos] : pr \in AllPriors, x \in XGrid, pos \in BOOLEAN}

Init == vec = << >> /\ pc = "build"

AddComp == /\ pc = "build" /\ Len(vec) < MaxLen
           /\ IF Mode = "single"
              THEN \E c \in Comps : Usable(c.pr, c.x) /\ vec' = Append(vec, c)
              ELSE \E c \in {RandomElement(Comps)} : Usable(c.pr, c.x) /\ vec' = Append(vec, c)
           /\ pc' = pc
Finish == /\ pc = "build" /\ Len(vec) >= 1
          /\ IF Mode = "vector" THEN (IF Len(vec) = MaxLen THEN TRUE ELSE RandomElement(1..3) = 1) ELSE TRUE
          /\ pc' = "done" /\ vec' = vec
Next == AddComp \/ Finish
Spec == Init /\ [][Next]_vars

\* ---- identities pinning the closed forms (evaluated on single components)
LD(pr, x) == LogDensity(pr, x)
Identities == (pc = "done" /\ Len(vec) = 1 /\ InSupport(vec[1].pr, vec[1].x) /\ ~OnBoundary(vec[1].pr, vec[1].x)) =>
    LET pr == vec[1].pr   x == vec[1].x IN
    /\ pr.fam = "exponential" => SSub(LD(pr, RAdd(x, One)), LD(pr, x)) = SConst(RNeg(pr.p1))
    /\ pr.fam = "gamma" =>      \* f_{alpha+1}(x) / f_alpha(x) = beta x / alpha
          SSub(LD([pr EXCEPT !.p1 = RAdd(@, One)], x), LD(pr, x)) = SSub(SAdd(Ln(pr.p2), Ln(x)), Ln(pr.p1))
    /\ pr.fam = "beta" =>       \* f_{a,b}(x) = f_{b,a}(1-x)
          LD(pr, x) = LD([pr EXCEPT !.p1 = pr.p2, !.p2 = pr.p1], RSub(One, x))
    /\ pr.fam = "uniform" =>    \* doubling the interval halves the density
          SSub(LD(pr, x), LD([pr EXCEPT !.p1 = RMul(I(2), @), !.p2 = RMul(I(2), @)], RMul(I(2), x))) = Ln(I(2))
    /\ pr.fam = "log-uniform" => \* x f(x) does not depend on x
          SAdd(LD(pr, x), Ln(x)) = SAdd(LD(pr, pr.p1), Ln(pr.p1))
    /\ pr.fam = "gaussian" =>   \* symmetric about mu, and f(mu)/f(mu+sigma) = e^(1/2)
          /\ LD(pr, x) = LD(pr, RSub(RMul(I(2), pr.p1), x))
          /\ SSub(LD(pr, pr.p1), LD(pr, RAdd(pr.p1, pr.p2))) = SConst(Half)
    /\ pr.fam = "log-gaussian" => \* Y = ln X is gaussian: f_X(x) x = f_Y(ln x); at x = 1: ln f = -ln sigma - 1/2 ln2pi - mu^2/(2 sigma^2)
          LD(pr, One) = SAdd(SAdd(SNeg(Ln(pr.p2)), SScale(R(-1, 2), Ln2Pi)), SConst(RNeg(RDiv(Sq(pr.p1), RMul(I(2), Sq(pr.p2))))))
\* the density of beta with integer shapes integrates to one on the Simpson-exact polynomial degree: not checked here

Outcome == IF AnyRejects(vec) THEN "rejected" ELSE IF AnyOpen(vec) THEN "open" ELSE "value"
Emit == pc = "done" => PrintT(ToJson([vec |-> vec, outcome |-> Outcome, rej |-> [i \in 1..Len(vec) |-> Rejects(vec[i])],
                                       \* one exact log-density per component; the vector's log-prior is their sum
                                       \* (added by the harness in exact fractions: a common denominator of four
                                       \* components does not fit TLC's 32-bit integers, and TLC refuses to wrap)
                                       lp |-> IF Outcome = "value" THEN [i \in 1..Len(vec) |-> SVSeq(LogDensity(vec[i].pr, vec[i].x))] ELSE << >>]))
=============================================================================
