-------------------------------- MODULE Rat --------------------------------
(***************************************************************************)
(* Exact rational arithmetic for TLC.  A rational is a normalised pair     *)
(* <<n, d>> with d > 0 and gcd(|n|, d) = 1, so equality of rationals is    *)
(* equality of tuples.  TLC integers are 32-bit and TLC raises an error on *)
(* overflow (it never wraps), so a value that does not fit stops the run   *)
(* instead of corrupting an expected value; all grids are chosen to fit.   *)
(***************************************************************************)
EXTENDS Integers, Sequences

RECURSIVE GCD(_, _)
GCD(a, b) == IF b = 0 THEN a ELSE GCD(b, a % b)
AbsI(x) == IF x < 0 THEN -x ELSE x

Norm(n, d) == IF n = 0 THEN <<0, 1>>
              ELSE LET s == IF d < 0 THEN -1 ELSE 1
                       g == GCD(AbsI(n), AbsI(d))
                   IN <<(s * n) \div g, (s * d) \div g>>

R(n, d) == Norm(n, d)
I(n) == <<n, 1>>
Zero == <<0, 1>>
One == <<1, 1>>

IsRat(a) == /\ a \in Seq(Int) /\ Len(a) = 2 /\ a[2] > 0 /\ a = Norm(a[1], a[2])

RAdd(a, b) == Norm(a[1] * b[2] + b[1] * a[2], a[2] * b[2])
RSub(a, b) == Norm(a[1] * b[2] - b[1] * a[2], a[2] * b[2])
RMul(a, b) == Norm(a[1] * b[1], a[2] * b[2])
RNeg(a) == <<-a[1], a[2]>>
RInv(a) == Norm(a[2], a[1])                \* a # 0
RDiv(a, b) == Norm(a[1] * b[2], a[2] * b[1])   \* b # 0
RLt(a, b) == a[1] * b[2] < b[1] * a[2]
RLe(a, b) == a[1] * b[2] <= b[1] * a[2]
RMax(a, b) == IF RLt(a, b) THEN b ELSE a
RMin(a, b) == IF RLt(b, a) THEN b ELSE a
RAbs(a) == <<AbsI(a[1]), a[2]>>
RSign(a) == IF a[1] > 0 THEN 1 ELSE IF a[1] < 0 THEN -1 ELSE 0
IsInt(a) == a[2] = 1
RFloor(a) == a[1] \div a[2]               \* \div is floor division

RECURSIVE RPowN(_, _)
RPowN(a, k) == IF k = 0 THEN One ELSE RMul(a, RPowN(a, k - 1))   \* k \in Nat
RPow(a, k) == IF k >= 0 THEN RPowN(a, k) ELSE RInv(RPowN(a, -k))  \* integer exponent; a # 0 if k < 0

\* exact q-th roots of perfect powers, by table search (q \in 1..3 is all the grids need)
RootCands == {R(n, d) : n \in 0..9, d \in 1..9}
HasRoot(a, q) == q = 1 \/ \E r \in RootCands : RPowN(r, q) = a
Root(a, q) == IF q = 1 THEN a ELSE CHOOSE r \in RootCands : RPowN(r, q) = a
\* a^(p/q) for a >= 0 with an exact root
HasPowQ(a, e) == (e[2] = 1 /\ (e[1] >= 0 \/ a # Zero)) \/ (e[2] > 1 /\ HasRoot(a, e[2]) /\ (e[1] >= 0 \/ a # Zero))
RPowQ(a, e) == RPow(Root(a, e[2]), e[1])

\* sums / products over sequences of rationals
RECURSIVE RSumSeq(_)
RSumSeq(s) == IF s = << >> THEN Zero ELSE RAdd(Head(s), RSumSeq(Tail(s)))
RECURSIVE RProdSeq(_)
RProdSeq(s) == IF s = << >> THEN One ELSE RMul(Head(s), RProdSeq(Tail(s)))
=============================================================================
