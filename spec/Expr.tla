-------------------------------- MODULE Expr --------------------------------
(***************************************************************************)
(* Expression ASTs of bioscrape's general propensities, rule right-hand    *)
(* sides and growth laws (C02), their mathematical meaning over EXACT      *)
(* values, a symbolic derivative and Taylor jets (C18).                    *)
(*                                                                         *)
(* A node is a record [k, a, q, i, s] (same shape for every kind, so any   *)
(* two nodes are comparable in TLC):                                       *)
(*   k  kind: "num" (q) | "sp" (i) | "par" (i) | "t" | "vol" |             *)
(*            "neg" "exp" "log" "abs" "step" (one argument) |              *)
(*            "add" "sub" "mul" "div" "pow" "min" "max" (two arguments) |  *)
(*            "unknown" (s = a name that is no species/parameter/built-in) *)
(*            "unsup" (s = function the language does not have: sin,       *)
(*            floor, factorial, lt, ge; a = its arguments)                 *)
(*   a  sequence of argument nodes.                                        *)
(*                                                                         *)
(* VALUES.  A value is [st, v]: st = "ok" and v a SymVal (module SymVal:   *)
(* rational linear combination of the atoms 1, exp(q), ln p), or a status  *)
(*   "rej"    the tree mentions an unknown name / unsupported function     *)
(*            (expected outcome: rejected when the model is built),        *)
(*   "undef"  not finite at the environment (x/0, log(<=0), 0^(<=0),       *)
(*            negative base with a fractional exponent, Heaviside at 0),   *)
(*   "unrep"  finite but outside the exactly representable fragment,       *)
(*   "big"    a number would leave the 32-bit-safe range.                  *)
(* RESTRICTION (the exactly representable fragment): exp and log are       *)
(* applied to rational-valued subtrees (log also to c*exp(q)); values that *)
(* contain transcendental atoms are combined linearly (+, -, scaling by a  *)
(* rational) and, for monomials c*exp(q), by products, quotients and       *)
(* integer powers (exp(a)*exp(b) = exp(a+b)); abs, Heaviside, min, max and *)
(* exponents need rational operands (sign and order are then decided       *)
(* exactly); a fractional exponent needs a POSITIVE perfect-power base     *)
(* (table of Rat; a base that is exactly 0 is left out although 0^(p/q) = 0 *)
(* is finite: the parser splits (c x)^(p/q) into c^(p/q) x^(p/q), which is  *)
(* nan * 0 in floating point when c < 0 and x = 0 - an edge the generators *)
(* do not probe).  Heaviside arguments keep a margin of 1/1000 from 0, min/max *)
(* operands are equal or differ by at least 1/1000.  Everything else is    *)
(* "unrep" and is never emitted by a generator.                            *)
(*                                                                         *)
(* Every stored rational has numerator and denominator <= Bound, so one    *)
(* more +,*,/ on stored numbers cannot overflow TLC's integers; results    *)
(* are re-checked and become "big" instead of aborting TLC.                *)
(***************************************************************************)
EXTENDS SymVal, TLC

\* ------------------------------------------------------------------ trees
Node(k, a, q, i, s) == [k |-> k, a |-> a, q |-> q, i |-> i, s |-> s]
ENum(q) == Node("num", << >>, q, 0, "")
ESp(i) == Node("sp", << >>, Zero, i, "")
EPar(j) == Node("par", << >>, Zero, j, "")
ET == Node("t", << >>, Zero, 0, "")
EVol == Node("vol", << >>, Zero, 0, "")
EUnknown(name) == Node("unknown", << >>, Zero, 0, name)
EUn(k, a) == Node(k, <<a>>, Zero, 0, "")
EBin(k, a, b) == Node(k, <<a, b>>, Zero, 0, "")
EUnsup(f, args) == Node("unsup", args, Zero, 0, f)

UnOps == {"neg", "exp", "log", "abs", "step"}
BinOps == {"add", "sub", "mul", "div", "pow", "min", "max"}
IdentKinds == {"sp", "par", "t", "vol"}
IsLeaf(e) == e.a = << >>

RECURSIVE Depth(_)
Depth(e) == IF e.a = << >> THEN 0
            ELSE 1 + (IF Len(e.a) = 1 THEN Depth(e.a[1])
                      ELSE LET d1 == Depth(e.a[1])  d2 == Depth(e.a[2]) IN IF d1 > d2 THEN d1 ELSE d2)
RECURSIVE Size(_)
Size(e) == IF e.a = << >> THEN 1
           ELSE 1 + Size(e.a[1]) + (IF Len(e.a) > 1 THEN Size(e.a[2]) ELSE 0)
RECURSIVE Mentions(_, _)     \* does the tree contain a leaf of kind k (and index i; i = 0: any)
Mentions(e, ki) ==
    IF e.a = << >> THEN e.k = ki[1] /\ (IF ki[2] = 0 THEN TRUE ELSE e.i = ki[2])
    ELSE IF Mentions(e.a[1], ki) THEN TRUE
    ELSE IF Len(e.a) > 1 THEN Mentions(e.a[2], ki) ELSE FALSE

\* JSON form: only the fields a kind uses
RECURSIVE Enc(_)
Enc(e) == CASE e.k = "num" -> [k |-> "num", q |-> e.q]
            [] e.k \in {"sp", "par"} -> [k |-> e.k, i |-> e.i]
            [] e.k \in {"t", "vol"} -> [k |-> e.k]
            [] e.k = "unknown" -> [k |-> e.k, s |-> e.s]
            [] e.k = "unsup" -> [k |-> e.k, s |-> e.s, a |-> [j \in 1..Len(e.a) |-> Enc(e.a[j])]]
            [] OTHER -> [k |-> e.k, a |-> [j \in 1..Len(e.a) |-> Enc(e.a[j])]]

\* ------------------------------------------------------------------ checked values
Bound == 30000
MaxExpArg == 8           \* |q| of an atom exp(q)
MaxPowExp == 12          \* |k| of an integer exponent
FitsQ(q) == AbsI(q[1]) <= Bound /\ q[2] <= Bound
AtomFits(a) == FitsQ(a[2]) /\ (IF a[1] = "exp" THEN AbsI(a[2][1]) <= MaxExpArg * a[2][2] ELSE TRUE)
FitsS(f) == \A a \in DOMAIN f : FitsQ(f[a]) /\ AtomFits(a)

OkV(f) == [st |-> "ok", v |-> f]
BadV(s) == [st |-> s, v |-> Empty]
Chk(f) == IF FitsS(f) THEN OkV(f) ELSE BadV("big")
QV(q) == OkV(SConst(q))
RankOf(s) == CASE s = "ok" -> 0 [] s = "rej" -> 1 [] s = "unrep" -> 2 [] s = "big" -> 3 [] s = "undef" -> 4
Worse(a, b) == IF RankOf(a.st) >= RankOf(b.st) THEN BadV(a.st) ELSE BadV(b.st)

TheAtom(f) == CHOOSE a \in DOMAIN f : TRUE
ExpMono(f) == Cardinality(DOMAIN f) = 1 /\ TheAtom(f)[1] = "exp"
ExpLike(f) == IsRational(f) \/ ExpMono(f)                 \* c * exp(q), q = 0 for a rational
MonoC(f) == IF f = Empty THEN Zero ELSE f[TheAtom(f)]
MonoQ(f) == IF IsRational(f) THEN Zero ELSE TheAtom(f)[2]
Mono(c, q) == SScale(c, Exp(q))

\* a^k for k >= 0 with a range check after every multiplication; BigQ marks "does not fit"
BigQ == <<0, 0>>
RECURSIVE CPow(_, _)
CPow(a, k) == IF k = 0 THEN One
              ELSE LET p == CPow(a, k - 1) IN
                   IF p = BigQ THEN BigQ
                   ELSE LET r == RMul(p, a) IN IF FitsQ(r) THEN r ELSE BigQ

\* q^r for rationals
VPowQ(q, r) ==
    IF AbsI(r[1]) > MaxPowExp THEN BadV("big")
    ELSE IF r[2] = 1 THEN
        IF q = Zero /\ r[1] <= 0 THEN BadV("undef")
        ELSE LET p == CPow(q, AbsI(r[1])) IN
             IF p = BigQ THEN BadV("big") ELSE QV(IF r[1] >= 0 THEN p ELSE RInv(p))
    ELSE IF q[1] < 0 THEN BadV("undef")
    ELSE IF q = Zero THEN (IF r[1] > 0 THEN BadV("unrep") ELSE BadV("undef"))     \* see the header: 0^(p/q) is not generated
    ELSE IF r[2] > 3 THEN BadV("unrep")
    ELSE IF HasRoot(q, r[2]) THEN
             LET p == CPow(Root(q, r[2]), AbsI(r[1])) IN
             IF p = BigQ THEN BadV("big") ELSE QV(IF r[1] >= 0 THEN p ELSE RInv(p))
    ELSE BadV("unrep")

Margin == R(1, 1000)
FarFromZero(q) == RLe(Margin, RAbs(q))

Ap1(op, a) ==
    IF a.st # "ok" THEN a
    ELSE LET f == a.v IN
    CASE op = "neg" -> OkV(SNeg(f))
      [] op = "exp" -> IF IsRational(f) THEN Chk(Exp(RatOf(f))) ELSE BadV("unrep")
      [] op = "log" ->
            IF IsRational(f) THEN (IF RatOf(f)[1] > 0 THEN Chk(Ln(RatOf(f))) ELSE BadV("undef"))
            ELSE IF ExpMono(f) THEN (IF MonoC(f)[1] > 0 THEN Chk(SAdd(Ln(MonoC(f)), SConst(MonoQ(f)))) ELSE BadV("undef"))
            ELSE BadV("unrep")
      [] op = "abs" -> IF IsRational(f) THEN QV(RAbs(RatOf(f))) ELSE BadV("unrep")
      [] op = "step" ->
            IF IsRational(f)
            THEN (IF RatOf(f) = Zero THEN BadV("undef")
                  ELSE IF FarFromZero(RatOf(f)) THEN QV(IF RatOf(f)[1] > 0 THEN One ELSE Zero) ELSE BadV("unrep"))
            ELSE BadV("unrep")

Ap2(op, a, b) ==
    IF a.st # "ok" \/ b.st # "ok" THEN Worse(a, b)
    ELSE LET f == a.v  g == b.v IN
    CASE op = "add" -> Chk(SAdd(f, g))
      [] op = "sub" -> Chk(SSub(f, g))
      [] op = "mul" ->
            IF IsRational(f) THEN Chk(SScale(RatOf(f), g))
            ELSE IF IsRational(g) THEN Chk(SScale(RatOf(g), f))
            ELSE IF ExpMono(f) /\ ExpMono(g) THEN Chk(Mono(RMul(MonoC(f), MonoC(g)), RAdd(MonoQ(f), MonoQ(g))))
            ELSE BadV("unrep")
      [] op = "div" ->
            IF g = Empty THEN BadV("undef")
            ELSE IF IsRational(g) THEN Chk(SScale(RInv(RatOf(g)), f))
            ELSE IF ExpMono(g) /\ ExpLike(f) THEN Chk(Mono(RDiv(MonoC(f), MonoC(g)), RSub(MonoQ(f), MonoQ(g))))
            ELSE BadV("unrep")
      [] op = "pow" ->
            IF ~IsRational(g) THEN BadV("unrep")
            ELSE IF IsRational(f) THEN VPowQ(RatOf(f), RatOf(g))
            ELSE IF ExpMono(f) /\ RatOf(g)[2] = 1 /\ AbsI(RatOf(g)[1]) <= MaxPowExp THEN
                 LET k == RatOf(g)[1]
                     c == VPowQ(MonoC(f), RatOf(g)) IN
                 IF c.st # "ok" THEN c ELSE Chk(Mono(RatOf(c.v), RMul(I(k), MonoQ(f))))
            ELSE BadV("unrep")
      [] op \in {"min", "max"} ->
            IF IsRational(f) /\ IsRational(g)
            THEN LET x == RatOf(f)  y == RatOf(g) IN
                 IF x = y \/ FarFromZero(RSub(x, y))
                 THEN QV(IF op = "min" THEN RMin(x, y) ELSE RMax(x, y))
                 ELSE BadV("unrep")
            ELSE BadV("unrep")

\* ------------------------------------------------------------------ meaning
\* env = [x (species values), p (parameter values), t, V]; vm = TRUE: 'volume' reads env.V, else 1
RECURSIVE EvalR(_, _, _)
EvalR(e, env, vm) ==
    CASE e.k = "num" -> QV(e.q)
      [] e.k = "sp" -> QV(env.x[e.i])
      [] e.k = "par" -> QV(env.p[e.i])
      [] e.k = "t" -> QV(env.t)
      [] e.k = "vol" -> QV(IF vm THEN env.V ELSE One)
      [] e.k = "unknown" -> BadV("rej")
      [] e.k = "unsup" ->
            IF Len(e.a) = 1 THEN Worse(BadV("rej"), EvalR(e.a[1], env, vm))
            ELSE Worse(BadV("rej"), Worse(EvalR(e.a[1], env, vm), EvalR(e.a[2], env, vm)))
      [] e.k \in UnOps -> Ap1(e.k, EvalR(e.a[1], env, vm))
      [] e.k \in BinOps -> Ap2(e.k, EvalR(e.a[1], env, vm), EvalR(e.a[2], env, vm))

Eval(e, env) == EvalR(e, env, FALSE)
VolEval(e, env) == EvalR(e, env, TRUE)
\* finite (and exactly representable) at the environment in both readings of 'volume'
Defined(e, env) == Eval(e, env).st = "ok" /\ VolEval(e, env).st = "ok"
Rejected(e, env) == Eval(e, env).st = "rej"

\* ------------------------------------------------------------------ symbolic derivative
\* v = <<"sp", i>> | <<"par", j>> | <<"t", 0>>.  Smart constructors fold 0 and 1 so that derivative
\* trees stay small; they never change the value of a defined tree.
IsNum(e, q) == e.k = "num" /\ e.q = q
NumSmall(e) == e.k = "num" /\ AbsI(e.q[1]) <= 1000 /\ e.q[2] <= 1000
MkNeg(a) == IF NumSmall(a) THEN ENum(RNeg(a.q)) ELSE EUn("neg", a)
MkAdd(a, b) == IF IsNum(a, Zero) THEN b ELSE IF IsNum(b, Zero) THEN a
               ELSE IF NumSmall(a) /\ NumSmall(b) THEN ENum(RAdd(a.q, b.q)) ELSE EBin("add", a, b)
MkSub(a, b) == IF IsNum(b, Zero) THEN a ELSE IF IsNum(a, Zero) THEN MkNeg(b)
               ELSE IF NumSmall(a) /\ NumSmall(b) THEN ENum(RSub(a.q, b.q)) ELSE EBin("sub", a, b)
MkMul(a, b) == IF IsNum(a, Zero) \/ IsNum(b, Zero) THEN ENum(Zero)
               ELSE IF IsNum(a, One) THEN b ELSE IF IsNum(b, One) THEN a
               ELSE IF NumSmall(a) /\ NumSmall(b) THEN ENum(RMul(a.q, b.q)) ELSE EBin("mul", a, b)
MkDiv(a, b) == IF IsNum(a, Zero) THEN ENum(Zero) ELSE IF IsNum(b, One) THEN a ELSE EBin("div", a, b)
Two == ENum(I(2))

RECURSIVE D(_, _)
D(e, v) ==
    CASE e.k \in {"num", "vol", "step"} -> ENum(Zero)
      [] e.k \in {"sp", "par"} -> IF v[1] = e.k /\ v[2] = e.i THEN ENum(One) ELSE ENum(Zero)
      [] e.k = "t" -> IF v[1] = "t" THEN ENum(One) ELSE ENum(Zero)
      [] e.k \in {"unknown", "unsup"} -> e
      [] e.k = "neg" -> MkNeg(D(e.a[1], v))
      [] e.k = "add" -> MkAdd(D(e.a[1], v), D(e.a[2], v))
      [] e.k = "sub" -> MkSub(D(e.a[1], v), D(e.a[2], v))
      [] e.k = "mul" -> MkAdd(MkMul(D(e.a[1], v), e.a[2]), MkMul(e.a[1], D(e.a[2], v)))
      [] e.k = "div" ->
            LET a == e.a[1]  b == e.a[2]  da == D(a, v)  db == D(b, v) IN
            IF IsNum(db, Zero) THEN MkDiv(da, b)
            ELSE MkDiv(MkSub(MkMul(da, b), MkMul(a, db)), EBin("pow", b, Two))
      [] e.k = "pow" ->
            LET a == e.a[1]  b == e.a[2]  da == D(a, v)  db == D(b, v) IN
            IF IsNum(b, One) THEN da
            ELSE IF IsNum(db, Zero)
            THEN MkMul(MkMul(b, EBin("pow", a, MkSub(b, ENum(One)))), da)          \* b a^(b-1) a'
            ELSE MkMul(e, MkAdd(MkMul(db, EUn("log", a)), MkDiv(MkMul(b, da), a)))  \* a^b (b' ln a + b a'/a)
      [] e.k = "exp" -> MkMul(e, D(e.a[1], v))
      [] e.k = "log" -> MkDiv(D(e.a[1], v), e.a[1])
      [] e.k = "abs" -> MkMul(MkSub(MkMul(Two, EUn("step", e.a[1])), ENum(One)), D(e.a[1], v))   \* sign(a) a'
      [] e.k = "min" -> MkAdd(MkMul(EUn("step", EBin("sub", e.a[2], e.a[1])), D(e.a[1], v)),
                              MkMul(EUn("step", EBin("sub", e.a[1], e.a[2])), D(e.a[2], v)))
      [] e.k = "max" -> MkAdd(MkMul(EUn("step", EBin("sub", e.a[1], e.a[2])), D(e.a[1], v)),
                              MkMul(EUn("step", EBin("sub", e.a[2], e.a[1])), D(e.a[2], v)))

\* ------------------------------------------------------------------ Taylor jets
\* Jet(e, env, v, N) = <<c_0, ..., c_N>> (values), the Taylor coefficients f^(m)/m! of the tree along the
\* variable v at the environment, by power-series arithmetic (no tree is differentiated): an
\* independent second route to the derivative (c_1 = Eval(D(e, v)) is checked by TLC) and the source
\* of the higher derivatives that bound the truncation error of difference schemes (C18).
ZeroV == OkV(Empty)
RECURSIVE VSumSeq(_)
VSumSeq(s) == IF s = << >> THEN ZeroV ELSE Ap2("add", Head(s), VSumSeq(Tail(s)))
JConst(c, N) == [m \in 1..(N + 1) |-> IF m = 1 THEN c ELSE ZeroV]
JVar(c, N) == [m \in 1..(N + 1) |-> IF m = 1 THEN c ELSE IF m = 2 THEN QV(One) ELSE ZeroV]
JMap2(op, a, b) == [m \in DOMAIN a |-> Ap2(op, a[m], b[m])]
JScale(c, a) == [m \in DOMAIN a |-> Ap2("mul", c, a[m])]
JMul(a, b) == [m \in DOMAIN a |-> VSumSeq([k \in 1..m |-> Ap2("mul", a[k], b[m + 1 - k])])]
RECURSIVE JDivUpTo(_, _, _)
JDivUpTo(a, b, m) ==        \* q_M = (a_M - sum_{k=1..M} b_k q_{M-k}) / b_0
    IF m = 1 THEN <<Ap2("div", a[1], b[1])>>
    ELSE LET q == JDivUpTo(a, b, m - 1)
             s == VSumSeq([k \in 1..(m - 1) |-> Ap2("mul", b[k + 1], q[m - k])])
         IN Append(q, Ap2("div", Ap2("sub", a[m], s), b[1]))
JDiv(a, b) == JDivUpTo(a, b, Len(a))
RECURSIVE JExpUpTo(_, _)
JExpUpTo(u, m) ==           \* e_M = (1/M) sum_{k=1..M} k u_k e_{M-k}
    IF m = 1 THEN <<Ap1("exp", u[1])>>
    ELSE LET e == JExpUpTo(u, m - 1)
             s == VSumSeq([k \in 1..(m - 1) |-> Ap2("mul", QV(I(k)), Ap2("mul", u[k + 1], e[m - k]))])
         IN Append(e, Ap2("mul", QV(R(1, m - 1)), s))
RECURSIVE JLogUpTo(_, _)
JLogUpTo(u, m) ==           \* l_M = (u_M - (1/M) sum_{k=1..M-1} k l_k u_{M-k}) / u_0
    IF m = 1 THEN <<Ap1("log", u[1])>>
    ELSE LET l == JLogUpTo(u, m - 1)
             s == VSumSeq([k \in 1..(m - 2) |-> Ap2("mul", QV(I(k)), Ap2("mul", l[k + 1], u[m - k]))])
         IN Append(l, Ap2("div", Ap2("sub", u[m], Ap2("mul", QV(R(1, m - 1)), s)), u[1]))
RECURSIVE JPowN(_, _)
JPowN(a, k) == IF k = 0 THEN JConst(QV(One), Len(a) - 1) ELSE JMul(a, JPowN(a, k - 1))
RECURSIVE JPowAUpTo(_, _, _)
JPowAUpTo(a, al, m) ==      \* rational exponent al: c_M = (1/(M a_0)) sum_{k=1..M} (k al - (M - k)) a_k c_{M-k}
    IF m = 1 THEN <<Ap2("pow", a[1], QV(al))>>
    ELSE LET c == JPowAUpTo(a, al, m - 1)
             s == VSumSeq([k \in 1..(m - 1) |->
                      Ap2("mul", QV(RSub(RMul(I(k), al), I(m - 1 - k))), Ap2("mul", a[k + 1], c[m - k]))])
         IN Append(c, Ap2("div", s, Ap2("mul", QV(I(m - 1)), a[1])))
JIsConst(b) == \A m \in 2..Len(b) : b[m] = ZeroV
JBad(s, N) == [m \in 1..(N + 1) |-> BadV(s)]

RECURSIVE Jet(_, _, _, _)
Jet(e, env, v, N) ==
    CASE e.k \in {"num", "vol"} -> JConst(Eval(e, env), N)
      [] e.k \in {"sp", "par"} -> IF v[1] = e.k /\ v[2] = e.i THEN JVar(Eval(e, env), N) ELSE JConst(Eval(e, env), N)
      [] e.k = "t" -> IF v[1] = "t" THEN JVar(Eval(e, env), N) ELSE JConst(Eval(e, env), N)
      [] e.k \in {"unknown", "unsup"} -> JBad("rej", N)
      [] e.k = "neg" -> JScale(QV(I(-1)), Jet(e.a[1], env, v, N))
      [] e.k \in {"add", "sub"} -> JMap2(e.k, Jet(e.a[1], env, v, N), Jet(e.a[2], env, v, N))
      [] e.k = "mul" -> JMul(Jet(e.a[1], env, v, N), Jet(e.a[2], env, v, N))
      [] e.k = "div" -> JDiv(Jet(e.a[1], env, v, N), Jet(e.a[2], env, v, N))
      [] e.k = "exp" -> JExpUpTo(Jet(e.a[1], env, v, N), N + 1)
      [] e.k = "log" -> JLogUpTo(Jet(e.a[1], env, v, N), N + 1)
      [] e.k = "pow" ->
            LET a == Jet(e.a[1], env, v, N)  b == Jet(e.a[2], env, v, N) IN
            IF b[1].st # "ok" THEN JBad(b[1].st, N)
            ELSE IF ~(JIsConst(b) /\ IsRational(b[1].v)) THEN JBad("unrep", N)
            ELSE LET r == RatOf(b[1].v) IN
                 IF r[2] = 1 /\ r[1] >= 0 /\ r[1] <= MaxPowExp THEN JPowN(a, r[1])
                 ELSE IF r[2] = 1 /\ r[1] < 0 /\ r[1] >= -MaxPowExp THEN JDiv(JConst(QV(One), N), JPowN(a, -r[1]))
                 ELSE JPowAUpTo(a, r, N + 1)
      [] e.k = "abs" ->
            LET a == Jet(e.a[1], env, v, N)  s == Ap1("step", a[1]) IN      \* needs a_0 away from 0
            IF s.st # "ok" THEN JBad(s.st, N)
            ELSE JScale(QV(IF s.v = Empty THEN I(-1) ELSE One), a)
      [] e.k = "step" -> JConst(Ap1("step", Jet(e.a[1], env, v, N)[1]), N)
      [] e.k \in {"min", "max"} ->
            LET a == Jet(e.a[1], env, v, N)  b == Jet(e.a[2], env, v, N)  m == Ap2(e.k, a[1], b[1]) IN
            IF m.st # "ok" THEN JBad(m.st, N)
            ELSE IF a[1] = b[1] THEN (IF a = b THEN a ELSE JBad("unrep", N))     \* a kink
            ELSE IF m = a[1] THEN a ELSE b

JetOk(j) == \A m \in DOMAIN j : j[m].st = "ok"
=============================================================================
