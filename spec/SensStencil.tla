----------------------------- MODULE SensStencil -----------------------------
(* Stencil algebra of C18 (M): for every monomial x^a y^b of total degree <= 4 (differentiated along *)
(* x), every base point of a rational grid and h in {1/4, 1/10}, each of the four difference schemes *)
(* applied literally to exact shifted evaluations returns the finite Taylor sum                       *)
(*     SUM_m StencilCoef(scheme, m) c_m h^(m-1),      c_m = C(a, m) x^(a-m) y^b,                      *)
(* so Stencil - Analytic is known exactly: 0 for the fourth-order scheme, c_3 h^2 = h^2 f'''/6 for   *)
(* the central one, c_2 h + c_3 h^2 + c_4 h^3 for the forward one (backward: alternating signs).      *)
(* The binomial coefficients are also what Expr!Jet computes for the monomial's tree.                 *)
EXTENDS Sens

VARIABLES mono, pt
vars == <<mono, pt>>

Monos == {<<a, b>> \in (0..4) \X (0..4) : a + b <= 4}
\* base points: (x + 2h)^4 and the sums of the schemes must stay inside the 32-bit range of plain Rat
PtsQuarter == {[x |-> x, y |-> y, h |-> R(1, 4)] : x \in {R(1, 2), I(1), R(3, 2), I(2), I(3)}, y \in {I(1), R(5, 2)}}
PtsTenth == {[x |-> x, y |-> y, h |-> R(1, 10)] : x \in {R(1, 2), I(1), I(2)}, y \in {I(1), R(5, 2)}}

Init == mono \in Monos /\ pt \in (PtsQuarter \cup PtsTenth)
Next == UNCHANGED vars
Spec == Init /\ [][Next]_vars

RECURSIVE Binom(_, _)
Binom(n, k) == IF k = 0 \/ k = n THEN 1 ELSE IF k > n THEN 0 ELSE Binom(n - 1, k - 1) + Binom(n - 1, k)
F(s) == RMul(RPowN(RAdd(pt.x, s), mono[1]), RPowN(pt.y, mono[2]))
Coefs == [m \in 1..(JetOrder + 1) |->
            IF m - 1 > mono[1] THEN Zero
            ELSE RMul(RMul(I(Binom(mono[1], m - 1)), RPowN(pt.x, mono[1] - (m - 1))), RPowN(pt.y, mono[2]))]
StencilAlgebra ==
    \A k \in 1..4 : /\ StencilOf(Schemes[k], F, pt.h) = StencilSeries(Schemes[k], Coefs, pt.h)
                    /\ TruncationIsNextTerm(Schemes[k], Coefs, pt.h)
\* the power-series arithmetic of Expr finds the same coefficients, and c_1 is the symbolic derivative
Tree == EBin("mul", EBin("pow", ESp(1), ENum(I(mono[1]))), EBin("pow", ESp(2), ENum(I(mono[2]))))
Env == [x |-> <<pt.x, pt.y>>, p |-> << >>, t |-> Zero, V |-> One]
JetAgrees == LET j == Jet(Tree, Env, <<"sp", 1>>, JetOrder) IN
             /\ \A m \in 1..(JetOrder + 1) : j[m] = QV(Coefs[m])
             /\ Eval(D(Tree, <<"sp", 1>>), Env) = QV(Coefs[2])
\* consistency and orders: coefficient 1 at m = 1; first non-vanishing error coefficient at m = 5 / 3 / 2 / 2
Orders == /\ \A k \in 1..4 : StencilCoef(Schemes[k], 1) = One
          /\ \A m \in 2..4 : StencilCoef(Schemes[1], m) = Zero
          /\ StencilCoef(Schemes[1], 5) = I(-4)
          /\ StencilCoef(Schemes[2], 2) = Zero /\ StencilCoef(Schemes[2], 3) = One
          /\ StencilCoef(Schemes[3], 2) = One /\ StencilCoef(Schemes[4], 2) = I(-1)
          /\ mono = mono
=============================================================================
