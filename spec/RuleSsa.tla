------------------------------ MODULE RuleSsa ------------------------------
(***************************************************************************)
(* Ssa.tla plus RULES (C09).  Same loop, same inputs; at the top of every  *)
(* iteration the model's rules are applied in declaration order to the     *)
(* current state and parameters, exactly as execute_rule does              *)
(* (types.pyx:1082-1142): a rule with frequency "repeat" always, "time T"  *)
(* iff now = T, "start" iff now = 0, "dt" iff ruleStep; the rates are then *)
(* computed from the rule-updated species and parameters.  ruleStep is 1   *)
(* initially and after every arrival at a time point, 0 after an iteration *)
(* that proposed a reaction before the next time point.                    *)
(*                                                                         *)
(* Rules have affine integer right-hand sides  c0 + SUM c[s] * x[s]:       *)
(*   kind "assign"  target species := rhs   (rendered as an assignment, or *)
(*                  as an "additive" rule when c0 = 0 and c \in {0,1})     *)
(*   kind "param"   rate parameter of reaction tgt := rhs                  *)
(*   kind "ode"     target species += rhs  per rule step (the rate string  *)
(*                  is rhs/dt, so rate * dt is an integer)                 *)
(* Right-hand sides of start / time rules do not read their own target     *)
(* (how often a rule runs at one instant is not part of the claim).        *)
(***************************************************************************)
EXTENDS SsaCore, Json

CONSTANTS MaxRx, MaxSide, MaxRules, NT

VARIABLES rules, ruleStep, kpar, prog, safe, dt, x0, x, now, idx, rows, fired, steps, pc, tau, applied
vars == <<rules, ruleStep, kpar, prog, safe, dt, x0, x, now, idx, rows, fired, steps, pc, tau, applied>>

Pk(S) == {RandomElement(S)}
SeqsUpTo(n) == UNION {[1..k -> Sp] : k \in 0..n}
KG == {I(2), I(1), I(3)}
TauGrid == {R(j, 64) : j \in 1..96}
Tp(i) == RMul(I(i - 1), dt)
MassLaw(re, k) == [type |-> "massaction", re |-> SortNat(re), k |-> k, K |-> One, n |-> One, s1 |-> 1, d |-> 1]
NoDelay == [type |-> "none", p1 |-> Zero, p2 |-> Zero]

Init == /\ rules = << >> /\ ruleStep = TRUE /\ kpar = << >> /\ prog = [decl |-> << >>, rx |-> << >>] /\ safe = FALSE /\ dt = One
        /\ x0 = [s \in Sp |-> 0] /\ x = x0 /\ now = Zero /\ idx = 0 /\ rows = << >> /\ fired = << >> /\ steps = << >>
        /\ pc = "build" /\ tau = One /\ applied = << >>
NewTau == tau' \in Pk(TauGrid)

AddRx == /\ pc = "build" /\ NRx(prog) < MaxRx /\ rules = << >>
         /\ \E re \in Pk(SeqsUpTo(MaxSide)) :
            \E pr \in Pk(SeqsUpTo(IF re = << >> THEN 2 ELSE Len(re))), k \in Pk(KG) :
              prog' = [prog EXCEPT !.rx = Append(@, [re |-> re, pr |-> pr, dre |-> << >>, dpr |-> << >>, law |-> MassLaw(re, k),
                                                     delay |-> NoDelay, named |-> TRUE, unset |-> FALSE])]
         /\ UNCHANGED <<rules, ruleStep, kpar, safe, dt, x0, x, now, idx, rows, fired, steps, pc, tau, applied>>

Coefs == [Sp -> 0..2]
Freqs == {"repeat", "repeat", "start", "dt", "time"}
AddRule == /\ pc = "build" /\ Len(rules) < MaxRules
           /\ \E kind \in Pk({"assign", "assign", "param", "ode", "additive"}), fq \in Pk({"repeat", "start", "dt", "time"}),
                c \in Pk(Coefs), c0 \in Pk(0..2), t \in Pk(Sp), T \in Pk(2..(NT - 1)) :
              LET isparam == kind = "param" /\ NRx(prog) >= 1
                  k2 == IF kind = "param" /\ NRx(prog) = 0 THEN "assign" ELSE kind
                  tgt == IF isparam THEN 1 + (t % NRx(prog)) ELSE t
                  freq == IF k2 = "ode" THEN "dt" ELSE fq
                  \* start / time / repeat rules must not read their own target (idempotent at one instant);
                  \* a dt rule may (a counter)
                  cc == IF isparam \/ freq = "dt" THEN c ELSE [c EXCEPT ![t] = 0]
                  ca == IF k2 = "additive" THEN [s \in Sp |-> IF cc[s] > 0 THEN 1 ELSE 0] ELSE cc
              IN rules' = Append(rules, [kind |-> k2, tgt |-> tgt, c |-> ca, c0 |-> IF k2 = "additive" THEN 0 ELSE c0, freq |-> freq, T |-> T])
           /\ UNCHANGED <<ruleStep, kpar, prog, safe, dt, x0, x, now, idx, rows, fired, steps, pc, tau, applied>>

Start == /\ pc = "build" /\ Len(rules) >= 1
         /\ IF Len(rules) = MaxRules THEN TRUE ELSE RandomElement(1..2) = 1
         /\ \E xx \in Pk([Sp -> 0..4]), d \in Pk({R(1, 2), I(1), R(1, 4)}), sf \in Pk(BOOLEAN) :
              x0' = xx /\ x' = xx /\ dt' = d /\ safe' = sf
         /\ kpar' = [r \in 1..NRx(prog) |-> prog.rx[r].law.k]
         /\ fired' = [r \in 1..NRx(prog) |-> 0] /\ applied' = [j \in 1..Len(rules) |-> 0]
         /\ pc' = "run" /\ NewTau
         /\ UNCHANGED <<rules, ruleStep, prog, now, idx, rows, steps>>

\* ---------------------------------------------------------------- rule application
RECURSIVE DotI(_, _, _)
DotI(c, st, s) == IF s = 0 THEN 0 ELSE c[s] * st[s] + DotI(c, st, s - 1)
Rhs(rl, st) == rl.c0 + DotI(rl.c, st, NS)
Fires(rl, t, rs) == CASE rl.freq = "repeat" -> TRUE
                      [] rl.freq = "start" -> t = Zero
                      [] rl.freq = "time" -> t = Tp(rl.T)
                      [] rl.freq = "dt" -> rs
\* state after applying rules j..end to <<species, params, counts>>
RECURSIVE Apply(_, _, _, _, _)
Apply(j, st, kp, cnt, t) ==
    IF j > Len(rules) THEN <<st, kp, cnt>>
    ELSE LET rl == rules[j] IN
         IF ~Fires(rl, t, ruleStep) THEN Apply(j + 1, st, kp, cnt, t)
         ELSE LET c2 == [cnt EXCEPT ![j] = @ + 1] IN
              CASE rl.kind = "param" -> Apply(j + 1, st, [kp EXCEPT ![rl.tgt] = I(Rhs(rl, st))], c2, t)
                [] rl.kind = "ode"   -> Apply(j + 1, [st EXCEPT ![rl.tgt] = @ + Rhs(rl, st)], kp, c2, t)
                [] OTHER             -> Apply(j + 1, [st EXCEPT ![rl.tgt] = Rhs(rl, st)], kp, c2, t)
Post == Apply(1, x, kpar, applied, now)      \* what the iteration works with
X1 == Post[1]
K1 == Post[2]
ProgK == [prog EXCEPT !.rx = [r \in 1..NRx(prog) |-> [prog.rx[r] EXCEPT !.law.k = K1[r]]]]

A == Props(ProgK, X1, safe, FALSE, One)
L == Lambda(A)
Small == IF NRx(prog) = 0 THEN TRUE ELSE SmallGrid(A, 400)
OkState == \A s \in Sp : X1[s] >= 0 /\ X1[s] <= 60
NextT == Tp(idx + 1)
RECURSIVE Record(_, _, _, _)
Record(rws, i, t, st) == IF i < NT /\ RLe(Tp(i + 1), t) THEN Record(Append(rws, st), i + 1, t, st) ELSE rws
Running == pc = "run" /\ idx < NT /\ (Small = TRUE) /\ (OkState = TRUE)

IterAbsorbed ==
    /\ Running /\ L = Zero
    /\ now' = NextT /\ x' = X1 /\ kpar' = K1 /\ applied' = Post[3] /\ ruleStep' = TRUE
    /\ rows' = Record(rows, idx, NextT, X1) /\ idx' = Len(rows')
    /\ steps' = Append(steps, [a |-> "absorb", e |-> Zero, u |-> Zero, r |-> 0])
    /\ NewTau
    /\ UNCHANGED <<rules, prog, safe, dt, x0, fired, pc>>
IterOvershoot ==
    /\ Running /\ L # Zero /\ RLt(NextT, RAdd(now, tau))
    /\ now' = NextT /\ x' = X1 /\ kpar' = K1 /\ applied' = Post[3] /\ ruleStep' = TRUE
    /\ rows' = Record(rows, idx, NextT, X1) /\ idx' = Len(rows')
    /\ steps' = Append(steps, [a |-> "over", e |-> RMul(tau, L), u |-> Zero, r |-> 0])
    /\ NewTau
    /\ UNCHANGED <<rules, prog, safe, dt, x0, fired, pc>>
IterFire ==
    /\ Running /\ L # Zero /\ RLt(RAdd(now, tau), NextT)
    /\ \E u \in Pk(UGrid(A)) :
         LET r == Select(A, u) IN
         /\ now' = RAdd(now, tau) /\ kpar' = K1 /\ applied' = Post[3] /\ ruleStep' = FALSE
         /\ x' = AddVec(X1, Col(prog, r, TRUE))
         /\ fired' = [fired EXCEPT ![r] = @ + 1]
         /\ steps' = Append(steps, [a |-> "fire", e |-> RMul(tau, L), u |-> u, r |-> r])
    /\ NewTau
    /\ UNCHANGED <<rules, prog, safe, dt, x0, idx, rows, pc>>
TieRedraw == /\ Running /\ L # Zero /\ RAdd(now, tau) = NextT /\ NewTau
             /\ UNCHANGED <<rules, ruleStep, kpar, prog, safe, dt, x0, x, now, idx, rows, fired, steps, pc, applied>>
Abandon == /\ pc = "run" /\ idx < NT /\ ((Small = FALSE) \/ (OkState = FALSE)) /\ pc' = "abandoned"
           /\ UNCHANGED <<rules, ruleStep, kpar, prog, safe, dt, x0, x, now, idx, rows, fired, steps, tau, applied>>
Finish == /\ pc = "run" /\ idx = NT /\ pc' = "done"
          /\ UNCHANGED <<rules, ruleStep, kpar, prog, safe, dt, x0, x, now, idx, rows, fired, steps, tau, applied>>

Next == AddRx \/ AddRule \/ Start \/ IterAbsorbed \/ IterOvershoot \/ IterFire \/ TieRedraw \/ Abandon \/ Finish
Spec == Init /\ [][Next]_vars

\* ---------------------------------------------------------------- properties (C09)
\* (R1) every reported row satisfies every repeated species assignment whose target no later rule overwrites
LaterWrites(j, s) == \E i \in (j + 1)..Len(rules) : rules[i].kind # "param" /\ rules[i].tgt = s
\* and whose inputs no later rule changes
LaterTouchesInputs(j) == \E i \in (j + 1)..Len(rules) : rules[i].kind # "param" /\ rules[j].c[rules[i].tgt] # 0
RowsSatisfyRepeat == \A i \in 1..Len(rows), j \in 1..Len(rules) :
    (rules[j].freq = "repeat" /\ rules[j].kind \in {"assign", "additive"} /\ ~LaterWrites(j, rules[j].tgt) /\ ~LaterTouchesInputs(j))
        => rows[i][rules[j].tgt] = Rhs(rules[j], rows[i])
\* (R3) a dt rule has been applied exactly once per recorded row, plus the one at the initial instant:
\* when row i is recorded the rule has run i times (it runs once more before the clock leaves 0)
DtOncePerStep == pc = "done" => \A j \in 1..Len(rules) : rules[j].freq = "dt" => applied[j] = NT + 0
\* (R2) a time rule has run only from its scheduled grid time on: rows before T show 0 applications - checked
\* through the emitted per-row application counts in the replay; here: it has run at least once iff the clock passed T
TimeRuleSchedule == pc \in {"run", "done"} => \A j \in 1..Len(rules) :
    (rules[j].freq = "time" /\ RLt(now, Tp(rules[j].T))) => applied[j] = 0

Emit == pc = "done" => PrintT(ToJson([prog |-> prog, ns |-> NS, safe |-> safe, dt |-> dt, nt |-> NT, x0 |-> x0, rules |-> rules,
                                       steps |-> steps, rows |-> rows, applied |-> applied, kfinal |-> kpar]))
=============================================================================
