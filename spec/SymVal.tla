------------------------------- MODULE SymVal -------------------------------
(***************************************************************************)
(* Symbolic values: exact linear combinations  SUM coef * atom  with       *)
(* rational coefficients over a small set of transcendental atoms.  Used   *)
(* wherever a log / exp is unavoidable (prior log-densities, C16; costs,   *)
(* C15).  The STRUCTURE of a value is decided in the spec; the harness     *)
(* only maps each atom to a float (one math.log / math.exp per atom).      *)
(*                                                                         *)
(* An atom is a pair <<kind, q>> with q a rational (always a rational, so  *)
(* any two atoms are comparable in TLC):                                   *)
(*   <<"one", 1>>      the constant 1                                      *)
(*   <<"lnp", p>>      ln p for a prime p  - logarithms of {2,3,5,7}-smooth *)
(*                     rationals are decomposed, which makes the           *)
(*                     representation CANONICAL: ln(ab) = ln a + ln b is an *)
(*                     identity of tuples and TLC can check log identities *)
(*   <<"ln", q>>       ln q for a rational that is not smooth (opaque)     *)
(*   <<"ln2pi", 1>>    ln(2 pi)                                            *)
(*   <<"lnln", q>>     ln(ln q)                                            *)
(*   <<"lnsq", q>>     (ln q)^2                                            *)
(*   <<"exp", q>>      e^q                                                 *)
(* A symbolic value is a function from a finite set of atoms to non-zero   *)
(* rationals.                                                              *)
(***************************************************************************)
EXTENDS Rat, FiniteSets, SequencesExt

AOne == <<"one", One>>
Empty == [a \in {} |-> Zero]
Get(f, a) == IF a \in DOMAIN f THEN f[a] ELSE Zero
Prune(f) == LET D == {a \in DOMAIN f : f[a] # Zero} IN [a \in D |-> f[a]]
SV(atom, coef) == IF coef = Zero THEN Empty ELSE [a \in {atom} |-> coef]
SConst(q) == SV(AOne, q)
SAdd(f, g) == Prune([a \in (DOMAIN f \cup DOMAIN g) |-> RAdd(Get(f, a), Get(g, a))])
SScale(c, f) == Prune([a \in DOMAIN f |-> RMul(c, f[a])])
SNeg(f) == SScale(I(-1), f)
SSub(f, g) == SAdd(f, SNeg(g))
IsRational(f) == DOMAIN f \subseteq {AOne}
RatOf(f) == Get(f, AOne)

\* ---- logarithms with prime decomposition
Primes == {2, 3, 5, 7}
RECURSIVE ExpOf(_, _)
ExpOf(p, n) == IF n % p = 0 THEN 1 + ExpOf(p, n \div p) ELSE 0         \* n >= 1
RECURSIVE StripP(_, _)
StripP(p, n) == IF n % p = 0 THEN StripP(p, n \div p) ELSE n
Rough(n) == StripP(7, StripP(5, StripP(3, StripP(2, n))))             \* the non-smooth part of n
Smooth(q) == q[1] > 0 /\ Rough(q[1]) = 1 /\ Rough(q[2]) = 1
\* ln q for q > 0
Ln(q) == IF Smooth(q)
         THEN Prune([a \in {<<"lnp", I(p)>> : p \in Primes} |-> I(ExpOf(a[2][1], q[1]) - ExpOf(a[2][1], q[2]))])
         ELSE IF q = One THEN Empty ELSE SV(<<"ln", q>>, One)
Ln2Pi == SV(<<"ln2pi", One>>, One)
LnLn(q) == SV(<<"lnln", q>>, One)          \* q > 1
LnSq(q) == IF q = One THEN Empty ELSE SV(<<"lnsq", q>>, One)
Exp(q) == IF q = Zero THEN SConst(One) ELSE SV(<<"exp", q>>, One)

\* JSON form: a sequence of [atom, coef] pairs
SVSeq(f) == LET s == SetToSeq(DOMAIN f) IN [i \in 1..Len(s) |-> <<s[i], f[s[i]]>>]
=============================================================================
