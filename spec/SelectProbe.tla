---------------------------- MODULE SelectProbe ----------------------------
(* (P1) of C05 as an exhaustive statement about the selection rule itself: for EVERY propensity      *)
(* vector of the grid (lengths 1..MaxLen, zeros included) the number of grid uniforms that select     *)
(* reaction r, over the number of grid uniforms, is exactly a_r / Lambda; the selected reaction never *)
(* has propensity zero; selection is monotone in u.  The simulators are bound to Select by replay.    *)
EXTENDS SsaCore, TLC

CONSTANTS MaxLen
VARIABLES a, pc
AG == {Zero, R(1, 2), I(1), R(3, 2), I(2), I(3), I(5), I(8), I(12), R(1, 4)}
Init == a \in UNION {[1..n -> AG] : n \in 1..MaxLen} /\ pc = "v"
Next == UNCHANGED <<a, pc>>
Spec == Init /\ [][Next]_<<a, pc>>

P1 == ProportionalSelection(a)
NeverZero == Lambda(a) # Zero => \A u \in UGrid(a) : a[Select(a, u)] # Zero
Monotone == Lambda(a) # Zero => \A u, w \in UGrid(a) : RLt(u, w) => Select(a, u) <= Select(a, w)
\* the mirrored convention (1 - u) is measure preserving too
Mirror == Lambda(a) # Zero => \A r \in 1..Len(a) :
            Cardinality({u \in UGrid(a) : Select(a, RSub(One, u)) = r}) = CountSel(a, r)
=============================================================================
