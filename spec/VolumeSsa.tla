------------------------------ MODULE VolumeSsa ------------------------------
(***************************************************************************)
(* VolumeSSASimulator.volume_simulate (simulator.pyx:1819-1932), input     *)
(* driven like Ssa.tla.  Rates are the volume-scaled stochastic laws       *)
(* (RateLaws.StoVol) at the current volume; every dt the "queue" branch    *)
(* takes a volume step and asks the volume model whether the cell divided. *)
(*   IterVStep   the next volume time is strictly before the proposed time:*)
(*               jump there, record the rows passed (state and volume      *)
(*               BEFORE the step), grow, check division, stop if divided   *)
(*   IterSkip    Lambda = 0: jump to the next time point, record, no step  *)
(*   IterFire    advance, record the rows passed with the pre-state, fire  *)
(* Every iteration with Lambda > 0 consumes one exponential draw.          *)
(*                                                                         *)
(* Volume: V0 * G^n with n the number of growth steps; G = 1 is the        *)
(* constant volume of C11(a); G = 2 is exponential growth with cell-cycle  *)
(* time = dt, so all volumes stay rational and the rates exact.            *)
(* Division models: "time" (StochasticTimeThresholdVolume: the division    *)
(* time t0 + z' m T with z' = 1 + noise * z a scripted normal; divided at  *)
(* the first volume step whose interval (t - dt, t] contains it) and       *)
(* "state" (StateDependentVolume: divided as soon as V > Vdiv).            *)
(*                                                                         *)
(* Design level = one volume step per elapsed dt in both regimes (Lambda   *)
(* zero or not).  The pinned code stepped the volume a second time when    *)
(* Lambda = 0 (DESIGN 8); PROPERTY level (GrowthWithinOneStep) is what an  *)
(* alarm is judged against.                                                *)
(***************************************************************************)
EXTENDS SsaCore, Json

CONSTANTS MaxRx, MaxSide, NT

VARIABLES prog, safe, dt, vd, V0, G, vm, x0, x, now, idx, rows, vols, nq, n, fired, steps, pc, tau, divided
vars == <<prog, safe, dt, vd, V0, G, vm, x0, x, now, idx, rows, vols, nq, n, fired, steps, pc, tau, divided>>

SeqsUpTo(k) == UNION {[1..j -> Sp] : j \in 0..k}
KG == {I(2), R(1, 2), I(1), I(3)}
TauGrid == {R(j, 64) : j \in 1..96}
Pk(S) == {RandomElement(S)}
Tp(i) == RMul(I(i - 1), dt)
MassLaw(re, k) == [type |-> "massaction", re |-> SortNat(re), k |-> k, K |-> One, n |-> One, s1 |-> 1, d |-> 1]
HillLawsG == {[type |-> ty, re |-> << >>, k |-> k, K |-> KK, n |-> nn, s1 |-> s, d |-> dd] :
                ty \in HillTypes, k \in {I(2), I(4)}, KK \in {I(1), I(2)}, nn \in {I(1), I(2)}, s \in Sp, dd \in Sp}
NoDelay == [type |-> "none", p1 |-> Zero, p2 |-> Zero]
Consumes(rx) == \E s \in Sp : Required(rx, s) > 0
NeedsSafe(p) == \E r \in 1..NRx(p) : p.rx[r].law.type # "massaction" /\ Consumes(p.rx[r]) = TRUE

\* vm: the volume model and its scripted inputs
NoVM == [kind |-> "const", noise |-> Zero, rho |-> Zero, sg |-> 1, m |-> 1, avg |-> One]
VMs == {NoVM}
   \cup {[kind |-> "time", noise |-> ns, rho |-> rho, sg |-> sg, m |-> m, avg |-> One] :
            ns \in {Zero, R(1, 8)}, rho \in {R(1, 2), I(1), R(3, 2)}, sg \in {1, -1}, m \in 1..3}
   \cup {[kind |-> "state", noise |-> ns, rho |-> rho, sg |-> sg, m |-> 1, avg |-> a] :
            ns \in {Zero, R(1, 8)}, rho \in {R(1, 2), I(1)}, sg \in {1, -1}, a \in {I(3), I(5), R(21, 2)}}
ZPrime(v) == RAdd(One, RMul(v.noise, RMul(I(v.sg), v.rho)))            \* normal_rv(1, noise) with z = sg * rho
\* the simulator's own time step (interface dt): the volume is stepped every Vdt = dt / vd, i.e. vd times per grid step
\* (vd = 1: the entry point's choice for a uniform grid; vd = 2: a user-set finer step)
Vdt == RDiv(dt, I(vd))
\* time model: time left = ln(Vdiv / V0) / g with Vdiv = 2^m V0 and g = ln 2 / T, T = Vdt: m * Vdt
DivT == RMul(ZPrime(vm), RMul(I(vm.m), Vdt))
DivV == RMul(vm.avg, ZPrime(vm))

Init == /\ prog = [decl |-> << >>, rx |-> << >>] /\ safe = FALSE /\ dt = One /\ vd = 1 /\ V0 = One /\ G = 1 /\ vm = NoVM
        /\ x0 = [s \in Sp |-> 0] /\ x = x0 /\ now = Zero /\ idx = 0 /\ rows = << >> /\ vols = << >> /\ nq = 1 /\ n = 0
        /\ fired = << >> /\ steps = << >> /\ pc = "build" /\ tau = One /\ divided = FALSE
NewTau == tau' \in Pk(TauGrid)

AddRx == /\ pc = "build" /\ NRx(prog) < MaxRx
         /\ \E re \in Pk(SeqsUpTo(MaxSide)) :
            \E pr \in Pk(SeqsUpTo(IF re = << >> THEN 2 ELSE Len(re))), hill \in Pk(1..4) :
            \E law \in Pk(IF hill = 4 THEN HillLawsG ELSE {MassLaw(re, k) : k \in KG}) :
              LET rx == [re |-> re, pr |-> pr, dre |-> << >>, dpr |-> << >>, law |-> law, delay |-> NoDelay,
                         named |-> (Len(pr) % 2 = 1), unset |-> FALSE] IN
              /\ (RxBounded(rx) = TRUE)
              /\ prog' = [prog EXCEPT !.rx = Append(@, rx)]
         /\ UNCHANGED <<safe, dt, vd, V0, G, vm, x0, x, now, idx, rows, vols, nq, n, fired, steps, pc, tau, divided>>

\* also a program without reactions (pure growth) may start
Start == /\ pc = "build"
         /\ IF NRx(prog) = MaxRx THEN TRUE ELSE RandomElement(1..4) = 1
         /\ \E xx \in Pk([Sp -> 0..6]), d \in Pk({R(1, 2), I(1), R(1, 4)}), sf \in Pk(BOOLEAN),
              v0 \in Pk({R(1, 4), R(1, 2), I(1), R(3, 2), I(2), I(4)}), vk \in Pk(1..4) :
            \E v \in (IF vk <= 2 THEN {NoVM} ELSE Pk(VMs \ {NoVM})) :      \* half of the runs at constant volume (C11 a)
              /\ x0' = xx /\ x' = xx /\ dt' = d /\ V0' = v0 /\ vm' = v
              /\ vd' \in Pk({1, 1, 2})
              /\ G' = (IF v.kind = "const" THEN 1 ELSE 2)
              /\ safe' = (IF NeedsSafe(prog) THEN TRUE ELSE sf)
         /\ fired' = [r \in 1..NRx(prog) |-> 0]
         /\ pc' = "run" /\ NewTau
         /\ UNCHANGED <<prog, now, idx, rows, vols, nq, n, steps, divided>>

\* ---------------------------------------------------------------- the loop
RECURSIVE PowI(_, _)
PowI(b, k) == IF k = 0 THEN 1 ELSE b * PowI(b, k - 1)
VolAt(k) == RMul(V0, I(PowI(G, k)))
A == Props(prog, x, safe, TRUE, VolAt(n))
L == Lambda(A)
Small == IF NRx(prog) = 0 THEN TRUE ELSE (IF n <= 12 THEN SmallGrid(A, 400) ELSE FALSE)
NextT == Tp(idx + 1)
QT == RMul(I(nq), Vdt)
P0 == IF L = Zero THEN NextT ELSE RAdd(now, tau)
GridTimes == {Tp(i) : i \in 1..(NT + 1)} \cup {QT}
Tie == IF L = Zero THEN FALSE ELSE P0 \in GridTimes
VWins == RLt(QT, P0)
Draw == IF L = Zero THEN Zero ELSE RMul(tau, L)
RECURSIVE Record(_, _, _, _)
Record(rws, i, t, st) == IF i < NT /\ RLe(Tp(i + 1), t) THEN Record(Append(rws, st), i + 1, t, st) ELSE rws
Running == pc = "run" /\ idx < NT /\ (Small = TRUE)

DividesAt(t, k) ==      \* asked right after the volume step ending at time t, with k growth steps done
    CASE vm.kind = "const" -> FALSE
      [] vm.kind = "time"  -> RLt(RSub(t, Vdt), DivT) /\ RLe(DivT, t)
      [] vm.kind = "state" -> RLt(DivV, VolAt(k))
\* inputs that put the division threshold exactly on a grid time / on a reachable volume are flagged (not replayed)
DivTie == IF vm.kind = "time" THEN \E i \in 0..(4 * NT) : DivT = RMul(I(i), Vdt)
          ELSE IF vm.kind = "state" THEN \E k \in 0..14 : VolAt(k) = DivV ELSE FALSE

IterVStep ==
    /\ Running /\ ~Tie /\ VWins
    /\ now' = QT /\ nq' = nq + 1 /\ n' = n + 1
    /\ rows' = Record(rows, idx, QT, x) /\ vols' = Record(vols, idx, QT, n) /\ idx' = Len(rows')
    /\ steps' = Append(steps, [a |-> "vstep", e |-> Draw, u |-> Zero, r |-> 0])
    /\ IF DividesAt(QT, n + 1) THEN divided' = TRUE /\ pc' = "done" ELSE divided' = FALSE /\ pc' = pc
    /\ NewTau
    /\ UNCHANGED <<prog, safe, dt, vd, V0, G, vm, x0, x, fired>>

IterSkip ==
    /\ Running /\ ~Tie /\ ~VWins /\ L = Zero
    /\ now' = NextT
    /\ rows' = Record(rows, idx, NextT, x) /\ vols' = Record(vols, idx, NextT, n) /\ idx' = Len(rows')
    /\ steps' = Append(steps, [a |-> "absorb", e |-> Zero, u |-> Zero, r |-> 0])
    /\ NewTau
    /\ UNCHANGED <<prog, safe, dt, vd, V0, G, vm, x0, x, nq, n, fired, pc, divided>>

IterFire ==
    /\ Running /\ ~Tie /\ ~VWins /\ L # Zero
    /\ \E u \in Pk(UGrid(A)) :
         LET r == Select(A, u) IN
         /\ now' = P0
         /\ rows' = Record(rows, idx, P0, x) /\ vols' = Record(vols, idx, P0, n) /\ idx' = Len(rows')
         /\ x' = AddVec(x, Col(prog, r, TRUE))
         /\ fired' = [fired EXCEPT ![r] = @ + 1]
         /\ steps' = Append(steps, [a |-> "fire", e |-> Draw, u |-> u, r |-> r])
    /\ NewTau
    /\ UNCHANGED <<prog, safe, dt, vd, V0, G, vm, x0, nq, n, pc, divided>>

TieRedraw == /\ Running /\ Tie /\ NewTau
             /\ UNCHANGED <<prog, safe, dt, vd, V0, G, vm, x0, x, now, idx, rows, vols, nq, n, fired, steps, pc, divided>>
Abandon == /\ pc = "run" /\ idx < NT /\ (Small = FALSE) /\ pc' = "abandoned"
           /\ UNCHANGED <<prog, safe, dt, vd, V0, G, vm, x0, x, now, idx, rows, vols, nq, n, fired, steps, tau, divided>>
Finish == /\ pc = "run" /\ idx = NT /\ pc' = "done"
          /\ UNCHANGED <<prog, safe, dt, vd, V0, G, vm, x0, x, now, idx, rows, vols, nq, n, fired, steps, tau, divided>>

Next == AddRx \/ Start \/ IterVStep \/ IterSkip \/ IterFire \/ TieRedraw \/ Abandon \/ Finish
Spec == Init /\ [][Next]_vars

\* ---------------------------------------------------------------- properties (C11)
Live == pc \in {"run", "done"}
\* (b) the reported volume is within one growth step of the growth law: n_i \in {i-2, i-1, i} for row i (1-based)
GrowthWithinOneStep == Live => \A i \in 1..Len(vols) : vols[i] >= vd * (i - 2) /\ vols[i] <= vd * i
Monotone == Live => \A i \in 1..(Len(vols) - 1) : vols[i] <= vols[i + 1]
\* one volume step per elapsed dt: when the clock stands at the k-th volume time, k steps were taken
OneStepPerDt == Live => n = nq - 1
\* the result ends at the first grid time at which the model reports division, and no earlier one did
RECURSIVE NoEarlierDivision(_)
NoEarlierDivision(k) == IF k = 0 THEN TRUE ELSE ~DividesAt(RMul(I(k), Vdt), k) /\ NoEarlierDivision(k - 1)
DivisionEndsResult == (pc = "done" /\ divided) =>
                          /\ DividesAt(now, n) /\ NoEarlierDivision(nq - 2)
                          /\ Len(rows) = idx /\ RLe(Tp(idx), now) /\ (idx < NT => RLt(now, Tp(idx + 1)))
NotDividedMeansFull == (pc = "done" /\ ~divided) => Len(rows) = NT /\ NoEarlierDivision(nq - 1)
Lattice == Live => x = AddVec(x0, LET RECURSIVE S(_)
                                       S(r) == IF r = 0 THEN [s \in Sp |-> 0] ELSE AddVec(ScaleVec(fired[r], Col(prog, r, TRUE)), S(r - 1))
                                   IN S(NRx(prog)))

Emit == pc = "done" => PrintT(ToJson([prog |-> prog, ns |-> NS, safe |-> safe, dt |-> dt, vd |-> vd, nt |-> NT, x0 |-> x0, V0 |-> V0, G |-> G,
                                       vm |-> vm, steps |-> steps, rows |-> rows, vols |-> vols, divided |-> divided,
                                       divtie |-> DivTie, fired |-> fired]))
=============================================================================
