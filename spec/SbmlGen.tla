------------------------------- MODULE SbmlGen -------------------------------
(* Model generator for C12 (round trip) and C14 (exported kinetic laws).  Models are CONSTRUCTED BY      *)
(* ACTIONS (Start, AddRx, AddRule, Finish): exhaustively for the one-reaction family (every law type    *)
(* and order 0..4, numeric and named parameters, every delay family; Mode "exh"), for all rule lists    *)
(* of length <= MaxRules over rule type x frequency (Mode "exhrules"), and randomly under -simulate      *)
(* (Mode "sim").  TLC checks at every finished model                                                    *)
(*    RoundTrip : Sem(Import(Export(m, s))) = Sem(m)  for both exports,                                 *)
(*    KinLaws   : EvalKL = Det / Sto, identifiers defined, document stoichiometry = multiplicities,      *)
(*    ListOrder : the meaning does not depend on the order of the species / parameter lists,            *)
(* and emits the model with the expected observables (Sem at the probes, kinetic-law values).            *)
EXTENDS Sbml, Json

CONSTANTS MaxRx, MaxRules, Mode      \* Mode \in {"exh", "exhrules", "sim"}

VARIABLES m, P, XS, pc
vars == <<m, P, XS, pc>>

Pick(S) == IF Mode = "sim" THEN {RandomElement(S)} ELSE S
SeqsUpTo(n) == UNION {[1..k -> Sp] : k \in 0..n}
NonDec(s) == \A i \in 1..(Len(s) - 1) : s[i] <= s[i + 1]
MSets == {s \in SeqsUpTo(4) : NonDec(s)}
NoRepeat(s) == \A i, j \in 1..Len(s) : i # j => s[i] # s[j]
Perms == {s \in [1..NS -> Sp] : NoRepeat(s)}

KG == {I(2), R(1, 2), I(3)}
XG == {I(0), I(1), I(2), I(3), R(1, 2), R(5, 2)}
XSG == {I(0), I(1), I(2), I(3), I(5)}
X0G == {I(0), I(1), I(4), R(5, 2), I(10)}
VG == {I(2), R(1, 2), I(1)}

Mass(re, k) == [type |-> "massaction", re |-> SortNat(re), k |-> k, K |-> One, n |-> One, s1 |-> 1, d |-> 1,
                rate |-> NoRate, gkeys |-> << >>]
Hill(ty, k, KK, nn, s, dd) == [type |-> ty, re |-> << >>, k |-> k, K |-> KK, n |-> nn, s1 |-> s, d |-> dd,
                               rate |-> NoRate, gkeys |-> << >>]
Nxt(a) == (a % NS) + 1
\* general rates: a numeric argument is a literal of the rate string, a named one an identifier
\* "negsq": a unary minus written directly in front of a power, K*sb + k*(-sa^2) - the minus applies to the POWER;
\* "ppow": a chained power sa^2^2 = sa^(2^2) (powers associate to the right).  The harness writes them without the redundant
\* parentheses, so that the precedence rules of the formula language are exercised.
Tpls == {"lin", "mm", "sq", "negsq", "ppow"}
GenOf(tpl, a, k, KK, named, r) ==
    LET ke == IF named THEN V(PName("k", r)) ELSE N(k)
        Ke == IF named THEN V(PName("K", r)) ELSE N(KK)
        sa == V(SpName(a))
        sb == V(SpName(Nxt(a))) IN
    IF tpl = "lin" THEN GenLaw(EMul(ke, sa), <<"k">>, k, KK)
    ELSE IF tpl = "mm" THEN GenLaw(EDiv(EMul(ke, sa), EAdd(Ke, sa)), <<"k", "K">>, k, KK)
    ELSE IF tpl = "negsq" THEN GenLaw(EAdd(EMul(Ke, sb), EMul(ke, ESub(N(Zero), EPow(sa, N(I(2)))))), <<"k", "K">>, k, KK)
    ELSE IF tpl = "ppow" THEN GenLaw(EMul(ke, EPow(sa, EPow(N(I(2)), N(I(2))))), <<"k">>, k, KK)
    ELSE GenLaw(EAdd(EMul(ke, EPow(sa, N(I(2)))), EMul(Ke, sb)), <<"k", "K">>, k, KK)

HillExh == {Hill(ty, I(3), I(2), nn, s, 1) : ty \in {"hillpositive", "hillnegative"}, nn \in {I(1), I(2)}, s \in Sp}
           \cup {Hill(ty, I(3), I(2), nn, sd[1], sd[2]) : ty \in {"proportionalhillpositive", "proportionalhillnegative"},
                                                   nn \in {I(1), I(2)}, sd \in {<<s, s>> : s \in Sp} \cup {<<s, Nxt(s)>> : s \in Sp}}
PrExh == {<<3>>, <<1, 1, 2>>}
ExhShapes(named, r) ==
    {[re |-> ms, pr |-> pr, law |-> Mass(ms, I(2))] : ms \in MSets, pr \in PrExh}
    \cup {[re |-> IF pr = <<3>> THEN << >> ELSE <<1, 2, 2>>, pr |-> pr, law |-> h] : h \in HillExh, pr \in PrExh}
    \cup {[re |-> IF pr = <<3>> THEN << >> ELSE <<2, 1>>, pr |-> pr, law |-> GenOf(tpl, a, I(2), I(3), named, r)] :
              tpl \in Tpls, a \in Sp, pr \in PrExh}
ExhDelays == {[delay |-> NoDelay, dre |-> << >>, dpr |-> << >>],
              [delay |-> [type |-> "fixed", p1 |-> R(3, 2), p2 |-> Zero], dre |-> << >>, dpr |-> <<2>>],
              [delay |-> [type |-> "gaussian", p1 |-> I(3), p2 |-> R(1, 2)], dre |-> <<1>>, dpr |-> <<3, 3>>],
              [delay |-> [type |-> "gamma", p1 |-> I(2), p2 |-> R(1, 4)], dre |-> <<2>>, dpr |-> << >>]}

AllTypes == LawTypes \cup {"general"}
SimLaw(ty, re, named, r) ==
    IF ty = "massaction" THEN {Mass(re, k) : k \in KG}
    ELSE IF ty = "general" THEN {GenOf(tpl, a, k, KK, named, r) : tpl \in Tpls, a \in Sp, k \in KG, KK \in {I(1), I(3)}}
    ELSE {Hill(ty, k, KK, nn, s, dd) : k \in KG, KK \in {I(1), I(2), R(1, 2)}, nn \in {I(1), I(2), I(3)}, s \in Sp, dd \in Sp}
SimDelay(dt) == IF dt = "none" THEN {NoDelay}
                ELSE IF dt = "fixed" THEN {[type |-> dt, p1 |-> a, p2 |-> Zero] : a \in {R(3, 2), I(2), Zero}}
                ELSE {[type |-> dt, p1 |-> a, p2 |-> b] : a \in {I(2), I(3)}, b \in {R(1, 2), R(1, 4)}}

Init == /\ m = [prog |-> [decl |-> << >>, rx |-> << >>], x0 |-> [s \in Sp |-> Zero], rules |-> << >>]
        /\ P = << >> /\ XS = << >> /\ pc = "start"

Start == /\ pc = "start"
         /\ \E d \in (IF Mode = "sim" THEN Pick(Perms) ELSE {[i \in 1..NS |-> i]}),
              x0 \in (IF Mode = "sim" THEN Pick([Sp -> X0G]) ELSE {[s \in Sp |-> I(s)]}) :
              m' = [m EXCEPT !.prog.decl = d, !.x0 = x0]
         /\ pc' = "rx" /\ UNCHANGED <<P, XS>>

Rx(sh, dl, named) == [re |-> sh.re, pr |-> sh.pr, dre |-> dl.dre, dpr |-> dl.dpr, law |-> sh.law,
                      delay |-> dl.delay, named |-> named, unset |-> FALSE]

AddRx == /\ pc = "rx" /\ Len(m.prog.rx) < MaxRx
         /\ LET r == Len(m.prog.rx) + 1 IN
            IF Mode = "exh"
            THEN \E named \in BOOLEAN, dl \in ExhDelays : \E sh \in ExhShapes(named, r) :
                    m' = [m EXCEPT !.prog.rx = Append(@, Rx(sh, dl, named))]
            ELSE IF Mode = "exhrules"
            THEN m' = [m EXCEPT !.prog.rx = Append(@, Rx([re |-> <<1>>, pr |-> <<2>>, law |-> Mass(<<1>>, I(2))],
                                                         [delay |-> NoDelay, dre |-> << >>, dpr |-> << >>], TRUE))]
            ELSE \E named \in Pick(BOOLEAN), ty \in Pick(AllTypes), dt \in Pick({"none", "fixed", "gaussian", "gamma"}),
                    re \in Pick(SeqsUpTo(4)), pr \in Pick(SeqsUpTo(3)) :
                 \E law \in Pick(SimLaw(ty, re, named, r)), dd \in Pick(SimDelay(dt)),
                    dre \in (IF dt = "none" THEN {<< >>} ELSE Pick(SeqsUpTo(2))),
                    dpr \in (IF dt = "none" THEN {<< >>} ELSE Pick(SeqsUpTo(2))) :
                    m' = [m EXCEPT !.prog.rx = Append(@, Rx([re |-> re, pr |-> pr, law |-> law],
                                                            [delay |-> dd, dre |-> dre, dpr |-> dpr], named))]
         /\ UNCHANGED <<P, XS, pc>>

\* a rule target is a species that no reaction changes (the exported SBML is then valid SBML as well)
OnSides(s) == \E r \in 1..Len(m.prog.rx) :
                 LET all == m.prog.rx[r].re \o m.prog.rx[r].pr \o m.prog.rx[r].dre \o m.prog.rx[r].dpr IN
                 \E i \in 1..Len(all) : all[i] = s
Targets == {s \in Sp : ~OnSides(s)}
Freqs == {RepeatF, [kind |-> "start", T |-> Zero], [kind |-> "dt", T |-> Zero],
          [kind |-> "time", T |-> I(2)], [kind |-> "time", T |-> R(1, 2)]}
RuleKinds == {"additive", "additive1", "lin", "par"}
\* a rule may also assign a named global parameter that a rate law reads: the rate constant k of a named reaction
\* (its initial value is non-zero and is part of the model's meaning until / unless the rule fires)
ParTargets == {PName("k", r) : r \in {q \in 1..Len(m.prog.rx) : m.prog.rx[q].named}}
TargetSet == {[sp |-> s, par |-> ""] : s \in Targets} \cup {[sp |-> 0, par |-> n] : n \in ParTargets}
MkRule(kind, tg, a, b, c, fq, j) ==
    LET sa == V(SpName(a))
        sb == V(SpName(b)) IN
    [type |-> IF kind \in {"additive", "additive1"} THEN "additive" ELSE "assignment", target |-> tg.sp, tpar |-> tg.par,
     rhs |-> IF kind = "additive" THEN EAdd(sa, sb) ELSE IF kind = "additive1" THEN sa
             ELSE IF kind = "lin" THEN EAdd(EMul(N(c), sa), sb) ELSE EMul(V(RuleParName(j)), sa),
     freq |-> fq, haspar |-> kind = "par", pval |-> IF kind = "par" THEN c ELSE Zero]

AddRule == /\ pc \in {"rx", "rules"} /\ Len(m.prog.rx) >= 1 /\ Len(m.rules) < MaxRules
           /\ (TargetSet # {}) = TRUE
           /\ IF Mode = "sim" THEN RandomElement(1..2) = 1 ELSE TRUE
           /\ LET j == Len(m.rules) + 1 IN
              \E tg \in Pick(TargetSet), kind \in Pick(RuleKinds), fq \in Pick(Freqs) :
              \E a \in (IF Mode = "sim" THEN Pick(Sp \ {tg.sp}) ELSE {1}),
                 b \in (IF Mode = "sim" THEN Pick(Sp \ {tg.sp}) ELSE {2}),
                 c \in (IF Mode = "sim" THEN Pick(KG) ELSE {I(3)}) :
                 \* an additive rule sums species into a species; a parameter is assigned by a general rule
                 LET kd == IF tg.par = "" THEN kind ELSE IF kind = "additive" THEN "lin" ELSE IF kind = "additive1" THEN "par" ELSE kind IN
                 m' = [m EXCEPT !.rules = Append(@, MkRule(kd, tg, a, b, c, fq, j))]
           /\ pc' = "rules" /\ UNCHANGED <<P, XS>>

Probes == [x : [Sp -> XG], V : VG]
ExhP == <<[x |-> [s \in Sp |-> I(s)], V |-> I(2)], [x |-> [s \in Sp |-> R(2 * s - 1, 2)], V |-> R(1, 2)],
          [x |-> [s \in Sp |-> I((s + 1) % 3)], V |-> I(1)]>>
ExhXS == <<[s \in Sp |-> I(s)], [s \in Sp |-> I((s + 1) % 3)], [s \in Sp |-> I(5 - s)]>>

Finish == /\ pc \in {"rx", "rules"}
          /\ IF Mode = "exh" THEN Len(m.prog.rx) = MaxRx
             ELSE IF Mode = "exhrules" THEN Len(m.rules) >= 1
             ELSE Len(m.prog.rx) >= 1 /\ (IF Len(m.prog.rx) = MaxRx THEN TRUE ELSE IF pc = "rules" THEN TRUE ELSE RandomElement(1..3) = 1)
          /\ \E pp \in (IF Mode = "sim" THEN {<<RandomElement(Probes), RandomElement(Probes), RandomElement(Probes)>>} ELSE {ExhP}),
                xs \in (IF Mode = "sim" THEN {<<RandomElement([Sp -> XSG]), RandomElement([Sp -> XSG])>>} ELSE {ExhXS}) :
                /\ (AllDefined(ModelAM(m), pp)) = TRUE
                /\ P' = pp /\ XS' = xs
          /\ pc' = "done" /\ m' = m

Next == Start \/ AddRx \/ AddRule \/ Finish
Spec == Init /\ [][Next]_vars

\* ---------------------------------------------------------------- properties (M)
RoundTrip == pc = "done" => RoundTripHolds(m, P)
KinLaws   == pc = "done" => KLHolds(m, [i \in 1..Len(P) |-> P[i].x], XS)
ListOrder == pc = "done" => \A st \in BOOLEAN : ListOrderIrrelevant(Export(m, st), P)

\* ---------------------------------------------------------------- emission (G)
Emit == pc = "done" =>
    LET am == ModelAM(m)
        rxs == m.prog.rx IN
    PrintT(ToJson([m |-> m, ns |-> NS, pars |-> AllPars(m), sem |-> Sem(am, P), P |-> P, XS |-> XS,
                   kldet |-> [r \in 1..Len(rxs) |-> [i \in 1..Len(P) |-> RxRate4(am.rx[r], P[i].x, One, am.gp)[1]]],
                   klsto |-> [r \in 1..Len(rxs) |-> [i \in 1..Len(XS) |-> RxRate4(am.rx[r], XS[i], One, am.gp)[2]]],
                   restoich |-> [r \in 1..Len(rxs) |-> [s \in Sp |-> Count(rxs[r].re, s)]],
                   prstoich |-> [r \in 1..Len(rxs) |-> [s \in Sp |-> Count(rxs[r].pr, s)]],
                   ruletimes |-> RuleTimes]))
=============================================================================
