-------------------------------- MODULE Ssa --------------------------------
(***************************************************************************)
(* The direct-method loop of SSASimulator.simulate (simulator.pyx:1587-    *)
(* 1657), input driven: every random quantity is an explicit input of the  *)
(* transition (tau = holding time, i.e. the unit-exponential variate       *)
(* e = tau * Lambda; u = the uniform used for selection).  One action per  *)
(* branch of the loop body:                                                *)
(*   IterAbsorbed   Lambda = 0: jump to the next time point, record it     *)
(*   IterOvershoot  now + tau > next time point: jump there, record it,    *)
(*                  nothing fires, the draw is discarded (memoryless)      *)
(*   IterFire       now + tau < next time point: advance, select           *)
(*                  r = min{j : Cum_j >= u Lambda}, apply the net column   *)
(* Time lives on a dyadic lattice (tau \in TauGrid), and a tau that would  *)
(* land exactly on a grid time is never offered (tie avoidance).           *)
(*                                                                         *)
(* Mode "chem": coarse exploration (any enabled reaction fires) used to    *)
(* check, at EVERY reachable chemical state, the counting form of          *)
(* "selected with probability a_r/Lambda" and the C06 design invariants.   *)
(* Mode "sim": the full loop with programs built by actions and random     *)
(* inputs; every finished run is emitted (program, inputs, expected rows). *)
(***************************************************************************)
EXTENDS SsaCore, Json

CONSTANTS MaxRx, MaxSide, NT, Mode, MaxCount

VARIABLES prog, safe, tp, x0, x, now, idx, rows, fired, evlog, steps, pc,
          tau     \* the next holding-time input, drawn when the previous iteration ends (so that the
                  \* branches IterOvershoot / IterFire are mutually exclusive on the same draw)
vars == <<prog, safe, tp, x0, x, now, idx, rows, fired, evlog, steps, pc, tau>>

Pick(S) == IF Mode = "sim" THEN {RandomElement(S)} ELSE S
SeqsUpTo(n) == UNION {[1..k -> Sp] : k \in 0..n}
KG == {I(2), R(1, 2), I(1), I(3)}
TauGrid == {R(j, 64) : j \in 1..96}
Grids == { [i \in 1..NT |-> R(i - 1, 2)], [i \in 1..NT |-> R(i - 1, 4)], [i \in 1..NT |-> I(i - 1)],
           [i \in 1..NT |-> R((i - 1) * i, 8)],                        \* non-uniform: 0, 1/4, 3/4, 3/2, ...
           \* grids that START LATER than the initial time 0: the simulation still runs from 0, the first reported row is the
           \* state reached by the events before the first requested time
           [i \in 1..NT |-> R(2 * i + 1, 4)], [i \in 1..NT |-> R(2 * i - 1, 2)] }

MassLaw(re, k) == [type |-> "massaction", re |-> SortNat(re), k |-> k, K |-> One, n |-> One, s1 |-> 1, d |-> 1]
HillLawsG == {[type |-> ty, re |-> << >>, k |-> k, K |-> KK, n |-> nn, s1 |-> s, d |-> dd] :
                ty \in HillTypes, k \in {I(2), I(4)}, KK \in {I(1), I(2)}, nn \in {I(1), I(2)}, s \in Sp, dd \in Sp}
NoDelay == [type |-> "none", p1 |-> Zero, p2 |-> Zero]
FixedDelay == [type |-> "fixed", p1 |-> R(3, 4), p2 |-> Zero]

Consumes(rx) == \E s \in Sp : Required(rx, s) > 0
\* Only the falling factorial of a mass-action law over ITS OWN reactants guards non-negativity.  A
\* reaction with another law that consumes something, or with delayed reactants (consumed on top of
\* what the rate law looks at - found by TLC: S1+S2 -> .., delayed reactant S1, fires with S1 = 1 and
\* leaves S1 = -1), may legitimately leave the non-negative domain and is therefore run in safe mode.
NeedsSafe(p) == \E r \in 1..NRx(p) : (p.rx[r].law.type # "massaction" /\ Consumes(p.rx[r])) \/ p.rx[r].dre # << >>

\* ---------------------------------------------------------------- building the program
Init == /\ prog = [decl |-> << >>, rx |-> << >>] /\ safe = FALSE /\ tp = << >> /\ x0 = [s \in Sp |-> 0]
        /\ x = x0 /\ now = Zero /\ idx = 0 /\ rows = << >> /\ fired = << >> /\ evlog = << >> /\ steps = << >>
        /\ pc = "build" /\ tau = One

NewTau == tau' \in {RandomElement(TauGrid)}

AddRx == /\ pc = "build" /\ NRx(prog) < MaxRx
         /\ \E re \in Pick(SeqsUpTo(MaxSide)), pr \in Pick(SeqsUpTo(MaxSide)), dside \in Pick(0..5), hill \in Pick(1..4) :
            \* (sim mode: one reaction in four has a Hill-type law, independently of whether it has a delayed part)
            \E law \in (IF Mode = "sim" /\ hill = 4 THEN Pick(HillLawsG)
                        ELSE Pick({MassLaw(re, k) : k \in (IF Mode = "chem" THEN {I(2), R(1, 2)} ELSE KG)})),
              dre \in Pick(IF dside = 1 THEN SeqsUpTo(1) ELSE {<< >>}),
              dpr \in Pick(IF dside \in {1, 2} THEN SeqsUpTo(1) ELSE {<< >>}) :
              prog' = [prog EXCEPT !.rx = Append(@, [re |-> re, pr |-> pr, dre |-> dre, dpr |-> dpr, law |-> law,
                          delay |-> IF dre = << >> /\ dpr = << >> THEN NoDelay ELSE FixedDelay,
                          named |-> (Len(re) % 2 = 1), unset |-> FALSE])]
         /\ UNCHANGED <<safe, tp, x0, x, now, idx, rows, fired, evlog, steps, pc, tau>>

Start == /\ pc = "build" /\ NRx(prog) >= 1 /\ (BoundedDynamics(prog) = TRUE)
         /\ IF Mode = "sim" THEN (IF NRx(prog) = MaxRx THEN TRUE ELSE RandomElement(1..3) = 1) ELSE NRx(prog) = MaxRx
         /\ \E xx \in Pick([Sp -> 0..(IF Mode = "sim" THEN 6 ELSE 2)]),
              g \in (IF Mode = "sim" THEN Pick(Grids) ELSE {[i \in 1..NT |-> I(i - 1)]}), sf \in Pick(BOOLEAN) :
              /\ x0' = xx /\ x' = xx /\ tp' = g
              /\ safe' = (IF NeedsSafe(prog) THEN TRUE ELSE sf)
         /\ fired' = [r \in 1..NRx(prog) |-> 0]
         /\ pc' = "run" /\ NewTau
         /\ UNCHANGED <<prog, now, idx, rows, evlog, steps>>

\* ---------------------------------------------------------------- the loop (Mode = "sim")
A == Props(prog, x, safe, FALSE, One)
L == Lambda(A)
NextT == tp[idx + 1]
\* rows recorded when time moves to t: every grid time <= t not yet recorded gets the CURRENT state
RECURSIVE Record(_, _, _, _)
Record(rws, i, t, st) == IF i < NT /\ RLe(tp[i + 1], t) THEN Record(Append(rws, st), i + 1, t, st) ELSE rws

\* TLC integers are 32 bit and TLC stops on overflow; a run whose selection grid would need more
\* than MaxCells cells is abandoned (not emitted) instead of stopping the whole generation
MaxCells == 400
Small == SmallGrid(A, MaxCells)
Abandon == /\ pc = "run" /\ Mode = "sim" /\ idx < NT /\ ~Small /\ pc' = "abandoned"
           /\ UNCHANGED <<prog, safe, tp, x0, x, now, idx, rows, fired, evlog, steps, tau>>

IterAbsorbed ==
    /\ pc = "run" /\ Mode = "sim" /\ idx < NT /\ L = Zero
    /\ now' = NextT
    /\ rows' = Record(rows, idx, NextT, x) /\ idx' = Len(rows')
    /\ steps' = Append(steps, [a |-> "absorb", e |-> Zero, u |-> Zero, r |-> 0])
    /\ NewTau
    /\ UNCHANGED <<prog, safe, tp, x0, x, fired, evlog, pc>>

IterOvershoot ==
    /\ pc = "run" /\ Mode = "sim" /\ idx < NT /\ L # Zero /\ Small
    /\ RLt(NextT, RAdd(now, tau))
    /\ now' = NextT
    /\ rows' = Record(rows, idx, NextT, x) /\ idx' = Len(rows')
    /\ steps' = Append(steps, [a |-> "over", e |-> RMul(tau, L), u |-> Zero, r |-> 0])
    /\ NewTau
    /\ UNCHANGED <<prog, safe, tp, x0, x, fired, evlog, pc>>

IterFire ==
    /\ pc = "run" /\ Mode = "sim" /\ idx < NT /\ L # Zero /\ Small
    /\ RLt(RAdd(now, tau), NextT)              \* strictly before: a tie with a grid time is never generated
    /\ \E u \in {RandomElement(UGrid(A))} :
         LET r == Select(A, u) IN
         /\ now' = RAdd(now, tau)
         /\ x' = AddVec(x, Col(prog, r, TRUE))     \* plain SSA: immediate + delayed part at the firing time (D4)
         /\ fired' = [fired EXCEPT ![r] = @ + 1]
         /\ evlog' = Append(evlog, <<now', r>>)
         /\ steps' = Append(steps, [a |-> "fire", e |-> RMul(tau, L), u |-> u, r |-> r])
    /\ NewTau
    /\ UNCHANGED <<prog, safe, tp, x0, idx, rows, pc>>

\* an input that would put an event exactly on a grid time is never presented to the code: redraw
TieRedraw ==
    /\ pc = "run" /\ Mode = "sim" /\ idx < NT /\ L # Zero /\ Small /\ RAdd(now, tau) = NextT
    /\ NewTau
    /\ UNCHANGED <<prog, safe, tp, x0, x, now, idx, rows, fired, evlog, steps, pc>>

Finish == /\ pc = "run" /\ Mode = "sim" /\ idx = NT /\ pc' = "done"
          /\ UNCHANGED <<prog, safe, tp, x0, x, now, idx, rows, fired, evlog, steps, tau>>

\* ---------------------------------------------------------------- coarse chemistry (Mode = "chem")
ChemFire == /\ pc = "run" /\ Mode = "chem"
            /\ \E r \in 1..NRx(prog) :
                 /\ A[r] # Zero
                 /\ x' = AddVec(x, Col(prog, r, TRUE))
                 /\ fired' = [fired EXCEPT ![r] = @ + 1]
            /\ UNCHANGED <<prog, safe, tp, x0, now, idx, rows, evlog, steps, pc, tau>>

Next == AddRx \/ Start \/ Abandon \/ IterAbsorbed \/ IterOvershoot \/ IterFire \/ TieRedraw \/ Finish \/ ChemFire
Spec == Init /\ [][Next]_vars

RECURSIVE SumInts(_, _)
SumInts(f, r) == IF r = 0 THEN 0 ELSE f[r] + SumInts(f, r - 1)
\* state constraint of the exhaustive chemistry: bounded counts and a bounded number of firings
\* (fired is a history counter: without the second bound a null reaction A -> A never stops)
Bounded == /\ \A s \in Sp : x[s] <= MaxCount
           /\ (pc = "run" => SumInts(fired, Len(fired)) <= MaxCount + 3)

\* ---------------------------------------------------------------- properties
Running == pc \in {"run", "done"}
\* (P1) of C05 at every reachable chemical state
P1 == Running => ProportionalSelection(A)
\* C06: lattice membership with the history counters
RECURSIVE SumCols(_, _)
SumCols(f, r) == IF r = 0 THEN [s \in Sp |-> 0] ELSE AddVec(ScaleVec(f[r], Col(prog, r, TRUE)), SumCols(f, r - 1))
Lattice == Running => x = AddVec(x0, SumCols(fired, NRx(prog)))
\* mass-action networks never leave the non-negative orthant (the falling-factorial guards)
NonNegMassAction == (Running /\ MassActionOnly(prog) /\ \A r \in 1..NRx(prog) : prog.rx[r].dre = << >>) => NonNeg(x)
\* safe mode keeps every network non-negative (requirement table)
NonNegSafe == (Running /\ safe) => NonNeg(x)
\* rates are never negative at reachable states
PropsNonNeg == Running => \A r \in 1..NRx(prog) : RLe(Zero, A[r])
\* a state with total propensity zero persists (action property)
Absorbing == [][(pc = "run" /\ L = Zero) => x' = x]_vars
\* safe mode: a reaction fires only with its net consumption available
SafeEnabled == [][(pc = "run" /\ safe /\ x' # x) => \E r \in 1..NRx(prog) : x' = AddVec(x, Col(prog, r, TRUE)) /\ Supplied(prog.rx[r], x)]_vars
\* (P3) at the end every row is the initial state plus the net columns of exactly the events before its time
RECURSIVE StateAt(_, _)
StateAt(t, k) == IF k = 0 THEN x0
                 ELSE IF RLe(evlog[k][1], t) THEN AddVec(StateAt(t, k - 1), Col(prog, evlog[k][2], TRUE)) ELSE StateAt(t, k - 1)
P3 == pc = "done" => /\ Len(rows) = NT
                     /\ \A i \in 1..NT : rows[i] = StateAt(tp[i], Len(evlog))
\* event times increase and never coincide with a grid time
EventTimes == pc = "done" => \A k \in 1..Len(evlog) :
                 /\ (k > 1 => RLt(evlog[k - 1][1], evlog[k][1]))
                 /\ \A i \in 1..NT : evlog[k][1] # tp[i]

Emit == pc = "done" => PrintT(ToJson([prog |-> prog, ns |-> NS, safe |-> safe, tp |-> tp, x0 |-> x0,
                                       steps |-> steps, rows |-> rows, fired |-> fired]))
=============================================================================
