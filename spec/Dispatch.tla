------------------------------ MODULE Dispatch ------------------------------
(***************************************************************************)
(* py_simulate_model (simulator.pyx:2104-2203): option checking, interface *)
(* and volume construction, simulator dispatch, result conversion, as a    *)
(* pc-driven transcription: one action per block of the entry point.       *)
(*                                                                         *)
(* The option lattice is the set of initial states; TLC enumerates it      *)
(* exhaustively and checks totality (every configuration terminates in a   *)
(* Result or an explicit OptionRejected, never InternalFailure) plus the   *)
(* shape invariants of C07.  Each terminal state is emitted as JSON and    *)
(* replayed against the real entry point.                                  *)
(*                                                                         *)
(* Design level = the dispatch as intended (and as repaired, see DESIGN 8):*)
(* a Volume object is used as given; delay + volume runs the delay-volume  *)
(* SSA.  Property level (what an alarm is judged against) additionally     *)
(* allows any configuration to be rejected explicitly by the entry point.  *)
(***************************************************************************)
EXTENDS Integers, Sequences, TLC, Json

CONSTANTS NT,       \* number of requested time points (uniform grid starting at 0)
          DivRows   \* rows reported by a volume simulator whose Volume object divides inside the grid

Sources  == {"model", "iface_plain", "iface_safe", "neither", "both"}
\* "baseobject": an object of the base class Volume (constant volume, no growth law); "object" / "dividing": a
\* StochasticTimeThresholdVolume that does not / does divide inside the grid
Volumes  == {"off", "flag", "number", "object", "dividing", "baseobject"}
Delays   == {"none", "false", "true"}
\* "dtrules": the model "rules" with its first rule at frequency 'dt' instead of 'start' (a dt rule runs on the rule step
\* that every simulator takes at the initial instant)
\* "counter": a repeated rule on a PARAMETER that reads itself (_n = n + 1, n = 0 in the model) followed by the repeated rule
\* C = n: "the initial condition with assignment rules applied" applies every rule once, so the first row reports C = 1
Models   == {"plain", "delays", "rules", "both", "decay1", "inert", "dtrules", "counter"}   \* inert: the plain network with no molecules (total propensity 0)

\* ---- the five test models as data: species in model order, initial state, assignment rules
\* (target index, coefficient vector, constant) applied in declaration order at the initial instant
Species(m) == IF m = "decay1" THEN <<"X">> ELSE <<"A", "B", "C">>
\* e: the initial condition was edited (Model.set_species) AFTER the interface handed to the entry point was built and
\* before the call: the entry point reports the model's CURRENT initial condition whichever way the model reaches it
X0(m, e) == IF m = "decay1" THEN (IF e THEN <<7>> ELSE <<5>>)
            ELSE IF m = "inert" THEN <<0, 0, 0>>
            ELSE IF e THEN <<4, 2, 0>> ELSE <<3, 1, 0>>
Rules(m) == IF m \in {"rules", "both", "dtrules"}
            THEN << [tgt |-> 2, coef |-> <<2, 0, 0>>, k |-> 0],      \* start:  B = 2*A
                    [tgt |-> 3, coef |-> <<1, 1, 0>>, k |-> 1] >>    \* repeat: C = A + B + 1
            ELSE IF m = "counter"
            THEN << [tgt |-> 3, coef |-> <<0, 0, 0>>, k |-> 1] >>    \* repeat: n = n + 1 (n was 0); C = n
            ELSE << >>
Dot(c, x) == LET RECURSIVE D(_)
                 D(i) == IF i = 0 THEN 0 ELSE c[i] * x[i] + D(i - 1)
             IN D(Len(x))
RECURSIVE ApplyRules(_, _)
ApplyRules(rs, x) == IF rs = << >> THEN x
                     ELSE ApplyRules(Tail(rs), [x EXCEPT ![Head(rs).tgt] = Dot(Head(rs).coef, x) + Head(rs).k])
FirstRow(m, e) == ApplyRules(Rules(m), X0(m, e))

VARIABLES opt,    \* the configuration: [src, stochastic, delay, safe, volume, dataframe, model, edit]
          pc, iface, vol, sim, out

vars == <<opt, pc, iface, vol, sim, out>>

NoOut == [kind |-> "none", nrows |-> 0, volcol |-> "no", labelled |-> FALSE, taxis |-> 0,
          first |-> << >>, divided |-> FALSE, queue |-> FALSE]

Init == /\ opt \in [src : Sources, stochastic : BOOLEAN, delay : Delays, safe : BOOLEAN,
                    volume : Volumes, dataframe : BOOLEAN, model : Models, edit : BOOLEAN]
        /\ pc = "CheckArgs" /\ iface = "none" /\ vol = "unset" /\ sim = "none" /\ out = NoOut

\* "if Model is None and Interface is None: raise ValueError ... elif both: raise ValueError"
CheckArgs == /\ pc = "CheckArgs"
             /\ IF opt.src \in {"neither", "both"}
                THEN pc' = "done" /\ out' = [NoOut EXCEPT !.kind = "rejected"]
                ELSE pc' = "MakeInterface" /\ out' = out
             /\ UNCHANGED <<opt, iface, vol, sim>>

\* safe=True with a pre-built interface is logged and ignored
MakeInterface == /\ pc = "MakeInterface"
                 /\ iface' = CASE opt.src = "model" -> IF opt.safe THEN "safe" ELSE "plain"
                               [] opt.src = "iface_plain" -> "plain"
                               [] opt.src = "iface_safe" -> "safe"
                 /\ pc' = "MakeVolume"
                 /\ UNCHANGED <<opt, vol, sim, out>>

MakeVolume == /\ pc = "MakeVolume"
              /\ vol' = CASE opt.volume = "off" -> "none"
                          [] opt.volume = "flag" -> "unit"
                          [] opt.volume = "number" -> "const"
                          [] opt.volume = "object" -> "object"
                          [] opt.volume = "dividing" -> "dividing"
                          [] opt.volume = "baseobject" -> "object"
              /\ pc' = "Choose"
              /\ UNCHANGED <<opt, iface, sim, out>>

\* "if delay: ... elif stochastic: ... else: deterministic"
Choose == /\ pc = "Choose"
          /\ sim' = IF opt.delay = "true"
                    THEN (IF vol = "none" THEN "DelaySSA" ELSE "DelayVolumeSSA")
                    ELSE IF opt.stochastic
                         THEN (IF vol = "none" THEN "SSA" ELSE "VolumeSSA")
                         ELSE "Deterministic"
          /\ pc' = "Run"
          /\ UNCHANGED <<opt, iface, vol, out>>

VolumeSim == sim \in {"VolumeSSA", "DelayVolumeSSA"}
Run == /\ pc = "Run"
       /\ LET rows == IF VolumeSim /\ vol = "dividing" THEN DivRows ELSE NT IN
          out' = [kind |-> "result", nrows |-> rows, taxis |-> rows,
                  volcol |-> IF VolumeSim THEN "yes" ELSE IF sim = "Deterministic" /\ vol # "none" THEN "either" ELSE "no",
                  labelled |-> FALSE, first |-> FirstRow(opt.model, opt.edit),
                  divided |-> (VolumeSim /\ vol = "dividing"),
                  queue |-> (sim \in {"DelaySSA", "DelayVolumeSSA"})]
       /\ pc' = "Convert"
       /\ UNCHANGED <<opt, iface, vol, sim>>

\* a data frame is labelled with the model's species only when the Model itself was passed
Convert == /\ pc = "Convert"
           /\ out' = [out EXCEPT !.labelled = (opt.dataframe /\ opt.src = "model")]
           /\ pc' = "done"
           /\ UNCHANGED <<opt, iface, vol, sim>>

Done == pc = "done" /\ UNCHANGED vars

Next == CheckArgs \/ MakeInterface \/ MakeVolume \/ Choose \/ Run \/ Convert \/ Done
Spec == Init /\ [][Next]_vars /\ WF_vars(Next)

\* ---------------------------------------------------------------- properties
Total == pc = "done" => out.kind \in {"result", "rejected"}
Terminates == <>(pc = "done")
Shape == (pc = "done" /\ out.kind = "result") =>
            /\ out.nrows = out.taxis
            /\ out.nrows \in 1..NT
            /\ (out.nrows < NT => out.divided)
            /\ Len(out.first) = Len(Species(opt.model))
            /\ (out.volcol = "yes" <=> sim \in {"VolumeSSA", "DelayVolumeSSA"})
\* rejection is reserved for contradictory arguments in the design
RejectOnlyBadArgs == (pc = "done" /\ out.kind = "rejected") => opt.src \in {"neither", "both"}
\* the first row satisfies the repeated assignment rule  C = A + B + 1
FirstRowRule == (pc = "done" /\ out.kind = "result" /\ opt.model \in {"rules", "both", "dtrules"}) =>
                   out.first[3] = out.first[1] + out.first[2] + 1 /\ out.first[2] = 2 * out.first[1]

Emit == (pc = "done") => PrintT(ToJson([opt |-> opt, iface |-> iface, vol |-> vol, sim |-> sim, out |-> out,
                                         species |-> Species(opt.model), x0 |-> X0(opt.model, opt.edit), nt |-> NT]))
=============================================================================
