------------------------------ MODULE Splitter ------------------------------
(***************************************************************************)
(* Cell division (C19): the three volume splitters as input-driven         *)
(* transitions.                                                            *)
(*   "pb"       PerfectBinomialVolumeSplitter (simulator.pyx:1217-1252):   *)
(*              volume halved, every species binomial with p = 1/2         *)
(*   "general"  GeneralVolumeSplitter (simulator.pyx:1255-1371): p = 1/2 - *)
(*              u*noise, q = 1-p; per-species modes perfect / duplicate /  *)
(*              binomial                                                   *)
(*   "lineage"  LineageVolumeSplitter (lineage.pyx:1407-1559): volume mode *)
(*              binomial (p = 1/2 - u*noise/2), duplicate (p = q = 1) or   *)
(*              perfect (p = q = 1/2); per-species modes                   *)
(* Inputs: up (the uniform that sets the volume fraction), for every       *)
(* "perfect" species whose share p*n is not an integer a uniform (the      *)
(* share is floor(p n) + [u <= p]), for every binomial species the number  *)
(* k of its n uniforms that fall below p.  Draws are consumed in the order *)
(* volume, perfect species (ascending index), binomial species (ascending  *)
(* index, one uniform per molecule).                                       *)
(*                                                                         *)
(* BinomialLaw is the counting form of "Binomial(n, p)": over the whole    *)
(* uniform grid of D cells, of which c lie below p = c/D, the number of    *)
(* draw vectors with exactly k below p is C(n,k) c^k (D-c)^(n-k).          *)
(***************************************************************************)
EXTENDS Rat, FiniteSets, TLC, Json

CONSTANTS NS, MaxN, Mode       \* Mode "exh" | "sim"

VARIABLES cls, vmode, modes, noise, V, n, up, uperf, kbin, pc
vars == <<cls, vmode, modes, noise, V, n, up, uperf, kbin, pc>>

Sp == 1..NS
Pk(S) == IF Mode = "sim" THEN {RandomElement(S)} ELSE S

\* volume fraction of the first daughter
P == CASE cls = "pb" -> R(1, 2)
       [] cls = "general" -> RSub(R(1, 2), RMul(up, noise))
       [] cls = "lineage" -> (CASE vmode = "binomial" -> RSub(R(1, 2), RDiv(RMul(up, noise), I(2)))
                                [] vmode = "duplicate" -> One
                                [] vmode = "perfect" -> R(1, 2))
Q == IF cls = "lineage" /\ vmode = "duplicate" THEN One ELSE RSub(One, P)
DrawsVolume == (cls = "general") \/ (cls = "lineage" /\ vmode = "binomial")

ModeOf(s) == IF cls = "pb" THEN "binomial" ELSE modes[s]
Share(s) == RMul(P, I(n[s]))
NeedsDraw(s) == ModeOf(s) = "perfect" /\ ~IsInt(Share(s))
\* first daughter's count of species s
D1(s) == CASE ModeOf(s) = "duplicate" -> n[s]
           [] ModeOf(s) = "perfect" -> IF IsInt(Share(s)) THEN Share(s)[1]
                                       ELSE RFloor(Share(s)) + (IF RLe(uperf[s], P) THEN 1 ELSE 0)
           [] ModeOf(s) = "binomial" -> kbin[s]
D2(s) == IF ModeOf(s) = "duplicate" THEN n[s] ELSE n[s] - D1(s)

Init == /\ cls \in Pk({"pb", "general", "lineage"})
        /\ vmode = "binomial" /\ modes = [s \in Sp |-> "binomial"] /\ noise = Zero /\ V = One
        /\ n = [s \in Sp |-> 0] /\ up = Zero /\ uperf = [s \in Sp |-> Zero] /\ kbin = [s \in Sp |-> 0] /\ pc = "setup"

UG == {R(1, 8), R(3, 8), R(5, 8), R(7, 8), R(1, 16), R(15, 16)}
Setup == /\ pc = "setup"
         /\ cls' \in Pk({"pb", "general", "lineage"})
         /\ vmode' \in Pk({"binomial", "duplicate", "perfect"})
         /\ modes' \in Pk([Sp -> {"binomial", "perfect", "duplicate"}])
         /\ noise' \in Pk({Zero, R(1, 4), R(1, 2)})
         /\ V' \in Pk(IF Mode = "exh" THEN {One, R(3, 2)} ELSE {One, R(3, 2), I(2), R(1, 2)})
         /\ n' \in Pk([Sp -> 0..MaxN])
         /\ up' \in Pk({Zero, R(1, 4), R(1, 2), R(3, 4)})
         /\ pc' = "draw" /\ UNCHANGED <<uperf, kbin>>

\* the species draws depend on p, which is known after Setup
Draw == /\ pc = "draw"
        /\ uperf' \in Pk([Sp -> IF Mode = "exh" THEN {R(1, 8), R(7, 8)} ELSE UG])
        /\ \E kb \in Pk([Sp -> 0..MaxN]) :
             /\ (\A s \in Sp : kb[s] <= n[s]) = TRUE
             \* with p = 1 every uniform is below p, with p = 0 none: only feasible counts are generated
             /\ (\A s \in Sp : (P = One => kb[s] = n[s])) = TRUE
             /\ kbin' = kb
        /\ pc' = "done" /\ UNCHANGED <<cls, vmode, modes, noise, V, n, up>>
        \* ties u = p of the perfect rule are never generated
        /\ (\A s \in Sp : uperf'[s] # P) = TRUE

Next == Setup \/ Draw
Spec == Init /\ [][Next]_vars

\* ---------------------------------------------------------------- properties
Done == pc = "done"
Conservation == Done => \A s \in Sp :
    /\ D1(s) >= 0 /\ D2(s) >= 0
    /\ (ModeOf(s) \in {"binomial", "perfect"} => D1(s) + D2(s) = n[s])
    /\ (ModeOf(s) = "duplicate" => D1(s) = n[s] /\ D2(s) = n[s])
VolumeConservation == Done => IF cls = "lineage" /\ vmode = "duplicate"
                              THEN RMul(P, V) = V /\ RMul(Q, V) = V
                              ELSE RAdd(RMul(P, V), RMul(Q, V)) = V /\ RLt(Zero, P) /\ RLt(Zero, Q)
\* a perfect split is within one molecule of the exact share
PerfectClose == Done => \A s \in Sp : ModeOf(s) = "perfect" =>
                    RLe(RAbs(RSub(I(D1(s)), Share(s))), One)

\* the draws in consumption order, encoded [kind, value]: "u" a given uniform, "lo"/"hi" below / above p
RECURSIVE PerfDraws(_)
PerfDraws(s) == IF s > NS THEN << >> ELSE (IF NeedsDraw(s) THEN << <<"u", uperf[s]>> >> ELSE << >>) \o PerfDraws(s + 1)
RECURSIVE Rep(_, _)
Rep(x, k) == IF k = 0 THEN << >> ELSE <<x>> \o Rep(x, k - 1)
RECURSIVE BinDraws(_)
BinDraws(s) == IF s > NS THEN << >>
               ELSE (IF ModeOf(s) = "binomial" THEN Rep(<<"lo", P>>, kbin[s]) \o Rep(<<"hi", P>>, n[s] - kbin[s]) ELSE << >>) \o BinDraws(s + 1)
Draws == (IF DrawsVolume THEN << <<"u", up>> >> ELSE << >>) \o PerfDraws(1) \o BinDraws(1)

\* history: a splitter object may have been configured before; its configuration is the LAST one given, nothing of an
\* earlier configuration survives.  Every behaviour is also replayed on a splitter that was first configured with Prev
\* (every species in another mode) and then re-configured with the modes of the behaviour.
Rot(md) == CASE md = "binomial" -> "perfect" [] md = "perfect" -> "duplicate" [] md = "duplicate" -> "binomial"
Prev == [s \in Sp |-> Rot(modes[s])]
Emit == Done => PrintT(ToJson([cls |-> cls, vmode |-> vmode, modes |-> modes, prev |-> Prev, noise |-> noise, V |-> V, n |-> n, p |-> P, q |-> Q,
                                d1 |-> [s \in Sp |-> D1(s)], d2 |-> [s \in Sp |-> D2(s)], v1 |-> RMul(P, V), v2 |-> RMul(Q, V),
                                draws |-> Draws]))

\* ---------------------------------------------------------------- the binomial law by counting
RECURSIVE Choose(_, _)
Choose(m, k) == IF k = 0 \/ k = m THEN 1 ELSE Choose(m - 1, k - 1) + Choose(m - 1, k)
RECURSIVE PowN(_, _)
PowN(b, e) == IF e = 0 THEN 1 ELSE b * PowN(b, e - 1)
\* vectors of m uniforms from a grid of Dd cells (cell i is below p iff i <= c)
CountVectors(m, Dd, c, k) == Cardinality({w \in [1..m -> 1..Dd] : Cardinality({i \in 1..m : w[i] <= c}) = k})
BinomialLaw == \A m \in 0..MaxN, Dd \in {2, 4, 8}, c \in 0..8 :
                  c <= Dd => \A k \in 0..m : CountVectors(m, Dd, c, k) = Choose(m, k) * PowN(c, k) * PowN(Dd - c, m - k)
=============================================================================
