------------------------------ MODULE DelayVolumeSsa ---------------------------
(***************************************************************************)
(* DelayVolumeSSASimulator.delay_volume_simulate (simulator.pyx): the race *)
(* between the next reaction, the next VOLUME time and the next QUEUE slot.*)
(* DelaySsa.tla with volume-scaled rates (RateLaws.StoVol at V0 * G^n) and *)
(* one more branch:                                                        *)
(*   IterFire    Lambda > 0 and the proposed time is strictly before both  *)
(*               the next volume time and the next queue slot              *)
(*   IterVStep   otherwise, if the next volume time is strictly before the *)
(*               next queue slot: jump there, record the rows passed, grow *)
(*   IterQueue   otherwise: jump to the queue slot, record, deliver        *)
(* (volume times and queue slots are both the multiples of dt, so at every *)
(* multiple of dt the queue is delivered first and the volume grows next). *)
(* With Lambda = 0 no reaction step is taken (the repaired behaviour: the  *)
(* pinned code sampled a reaction with Lambda = 0 and crashed).            *)
(* Delay laws and their inputs are those of DelaySsa.tla; G = 1 constant   *)
(* volume, G = 2 doubling per dt (no division in this module).             *)
(***************************************************************************)
EXTENDS SsaCore, Json

CONSTANTS MaxRx, MaxSide, NT

VARIABLES prog, safe, dt, x0, x, now, idx, rows, slot, pendq, fired, queued, delivered, imm, steps, pc, tau, preload,
          V0, G, n, nv, vols        \* initial volume, growth factor per dt, growth steps taken, next volume-time index, volume trace (exponents)
vars == <<prog, safe, dt, x0, x, now, idx, rows, slot, pendq, fired, queued, delivered, imm, steps, pc, tau, preload, V0, G, n, nv, vols>>

SeqsUpTo(m) == UNION {[1..k -> Sp] : k \in 0..m}
KG == {I(2), R(1, 2), I(1), I(3)}
TauGrid == {R(j, 64) : j \in 1..96}
MaxSlot == 2 * NT + 2
Tp(i) == RMul(I(i - 1), dt)
Pk(S) == {RandomElement(S)}

MassLaw(re, k) == [type |-> "massaction", re |-> SortNat(re), k |-> k, K |-> One, n |-> One, s1 |-> 1, d |-> 1]
DelayLaws == { [type |-> "none", p1 |-> Zero, p2 |-> Zero] }
      \cup { [type |-> "fixed", p1 |-> p, p2 |-> Zero] : p \in {Zero, R(1, 16), R(3, 8), R(3, 4), R(11, 8), I(3), I(40)} }
      \cup { [type |-> "gaussian", p1 |-> m, p2 |-> s] : m \in {R(3, 4), R(1, 8), I(2)}, s \in {R(1, 4), R(1, 2)} }
      \cup { [type |-> "gamma", p1 |-> k, p2 |-> th] : k \in {R(4, 3), R(13, 3)}, th \in {R(1, 4), R(1, 2), R(1, 16)} }
RhoGrid == {Zero, R(1, 2), I(1), R(3, 2), I(2), I(3), I(4)}

Init == /\ prog = [decl |-> << >>, rx |-> << >>] /\ safe = FALSE /\ dt = One /\ x0 = [s \in Sp |-> 0] /\ x = x0
        /\ now = Zero /\ idx = 0 /\ rows = << >> /\ slot = 1
        /\ pendq = [k \in 1..MaxSlot |-> << >>] /\ fired = << >> /\ queued = << >> /\ delivered = << >> /\ imm = << >>
        /\ steps = << >> /\ pc = "build" /\ tau = One /\ preload = << >>
        /\ V0 = One /\ G = 1 /\ n = 0 /\ nv = 1 /\ vols = << >>

NewTau == tau' \in Pk(TauGrid)

\* delayed reactants are not generated: nothing guards their supply at delivery time (see Ssa.tla, NeedsSafe)
AddRx == /\ pc = "build" /\ NRx(prog) < MaxRx
         /\ \E re \in Pk(SeqsUpTo(MaxSide)) :
            \E pr \in Pk(SeqsUpTo(IF re = << >> THEN 2 ELSE Len(re))) :      \* products sized for bounded dynamics
            \E dpr \in Pk(SeqsUpTo((IF re = << >> THEN 2 ELSE Len(re)) - Len(pr))),
              k \in Pk(KG), dl \in Pk(DelayLaws) :
              LET rx == [re |-> re, pr |-> pr, dre |-> << >>, dpr |-> dpr, law |-> MassLaw(re, k), delay |-> dl,
                         named |-> (Len(pr) % 2 = 1), unset |-> FALSE] IN
              /\ (RxBounded(rx) = TRUE)
              /\ prog' = [prog EXCEPT !.rx = Append(@, rx)]
         /\ UNCHANGED <<safe, dt, x0, x, now, idx, rows, slot, pendq, fired, queued, delivered, imm, steps, pc, tau, preload, V0, G, n, nv, vols>>

Start == /\ pc = "build" /\ NRx(prog) >= 1
         /\ IF NRx(prog) = MaxRx THEN TRUE ELSE RandomElement(1..3) = 1
         /\ \E xx \in Pk([Sp -> 0..6]), d \in Pk({R(1, 2), I(1), R(1, 4)}), sf \in Pk(BOOLEAN) :
              x0' = xx /\ x' = xx /\ dt' = d /\ safe' = sf
         \* the queue handed to the simulator may already hold deliveries (a continued run, a queue pre-loaded by
         \* the user): up to two pre-loaded entries <<slot, reaction, amount>>; they count as already "queued"
         /\ \E np \in Pk(0..2), k1 \in Pk(1..NT), k2 \in Pk(1..NT), r1 \in Pk(1..NRx(prog)), r2 \in Pk(1..NRx(prog)), c1 \in Pk(1..2) :
            LET z == [r \in 1..NRx(prog) |-> 0]
                pl == IF np = 0 THEN << >> ELSE IF np = 1 THEN << <<k1, r1, c1>> >> ELSE << <<k1, r1, c1>>, <<k2, r2, 1>> >>
                Load(k, r) == LET RECURSIVE S(_)
                                  S(i) == IF i = 0 THEN 0 ELSE (IF pl[i][1] = k /\ pl[i][2] = r THEN pl[i][3] ELSE 0) + S(i - 1)
                              IN S(Len(pl))
            IN /\ fired' = z /\ delivered' = z /\ imm' = z
               /\ pendq' = [k \in 1..MaxSlot |-> [r \in 1..NRx(prog) |-> Load(k, r)]]
               /\ queued' = [r \in 1..NRx(prog) |-> LET RECURSIVE T(_)
                                                          T(k) == IF k = 0 THEN 0 ELSE Load(k, r) + T(k - 1)
                                                      IN T(NT)]
               /\ preload' = pl
         /\ \E v0 \in Pk({R(1, 2), I(1), R(3, 2), I(2)}), g \in Pk({1, 1, 2}) : V0' = v0 /\ G' = g
         /\ pc' = "run" /\ NewTau
         /\ UNCHANGED <<prog, now, idx, rows, slot, steps, n, nv, vols>>

\* ---------------------------------------------------------------- the loop
RECURSIVE PowI(_, _)
PowI(b, k) == IF k = 0 THEN 1 ELSE b * PowI(b, k - 1)
VolAt(k) == RMul(V0, I(PowI(G, k)))
A == Props(prog, x, safe, TRUE, VolAt(n))
L == Lambda(A)
MaxCells == 400
Small == IF n <= 10 THEN SmallGrid(A, MaxCells) ELSE FALSE
NextT == Tp(idx + 1)
QT == RMul(I(slot), dt)                        \* time of the next queue slot
VT == RMul(I(nv), dt)                          \* time of the next volume step
P0 == IF L = Zero THEN NextT ELSE RAdd(now, tau)
\* simulator.pyx: "if Lambda > 0 and proposed < next_vol_time and proposed < next_queued: reaction
\*                 elif next_vol_time < next_queued: volume step   else: queue step"
ReactionWins == IF L = Zero THEN FALSE ELSE (IF RLt(P0, VT) THEN RLt(P0, QT) ELSE FALSE)
VolWins == IF ReactionWins THEN FALSE ELSE RLt(VT, QT)
GridAll == {RMul(I(i), dt) : i \in 0..(2 * NT + 2)}
Tie == IF L = Zero THEN FALSE ELSE P0 \in GridAll
RECURSIVE Record(_, _, _, _)
Record(rws, i, t, st) == IF i < NT /\ RLe(Tp(i + 1), t) THEN Record(Append(rws, st), i + 1, t, st) ELSE rws
Draw == IF L = Zero THEN Zero ELSE RMul(tau, L)     \* the unit-exponential variate consumed (0: none)

\* slot chosen by add_reaction: floor((t - nqt)/dt + 1/2), clamped to the queue window, relative to the NEXT slot
RawIdx(t) == RFloor(RAdd(RDiv(RSub(t, QT), dt), R(1, 2)))
ClampIdx(i) == IF i < 0 THEN 0 ELSE IF i >= NT THEN NT - 1 ELSE i
HalfWayReq(t) == IsInt(RAdd(RDiv(RSub(t, QT), dt), R(1, 2)))

Running == pc = "run" /\ idx < NT /\ Small
\* net change of species s when the amounts amt[r] of delayed parts are delivered
SumOver(amt, s) == LET RECURSIVE S(_)
                       S(r) == IF r = 0 THEN 0 ELSE amt[r] * DStoichN(prog.rx[r], s) + S(r - 1)
                   IN S(NRx(prog))
\* (D2) inside the queue window the chosen slot is the grid time nearest to the requested time
SlotNearest(t, k) == LET i == RawIdx(t) IN
                     (i >= 0 /\ i < NT) => RLe(RAbs(RSub(RMul(I(k), dt), t)), RDiv(dt, I(2)))

IterQueueWins ==
    /\ Running /\ ~Tie /\ ~ReactionWins /\ ~VolWins
    /\ now' = QT
    /\ rows' = Record(rows, idx, QT, x) /\ vols' = Record(vols, idx, QT, n) /\ idx' = Len(rows')
    /\ LET amt == pendq[slot] IN
       /\ x' = [s \in Sp |-> x[s] + SumOver(amt, s)]
       /\ delivered' = [r \in 1..NRx(prog) |-> delivered[r] + amt[r]]
       /\ pendq' = [pendq EXCEPT ![slot] = [r \in 1..NRx(prog) |-> 0]]
    /\ slot' = slot + 1
    /\ steps' = Append(steps, [a |-> "queue", e |-> Draw, u |-> Zero, r |-> 0, dd |-> << >>, to |-> slot])
    /\ NewTau
    /\ UNCHANGED <<prog, safe, dt, x0, fired, queued, imm, pc, preload, V0, G, n, nv>>

IterVStep ==
    /\ Running /\ ~Tie /\ VolWins
    /\ now' = VT /\ nv' = nv + 1 /\ n' = n + 1
    /\ rows' = Record(rows, idx, VT, x) /\ vols' = Record(vols, idx, VT, n) /\ idx' = Len(rows')
    /\ steps' = Append(steps, [a |-> "vstep", e |-> Draw, u |-> Zero, r |-> 0, dd |-> << >>, to |-> 0])
    /\ NewTau
    /\ UNCHANGED <<prog, safe, dt, x0, x, slot, pendq, fired, queued, delivered, imm, pc, preload, V0, G>>

\* ---- delay transforms: inputs -> (delay value, the uniforms the samplers consume)
\* a uniform is encoded as <<kind, q>>: "u" the rational q itself, "expneg" exp(-q), "tiny" 10^-12
GaussInputs == {<<rho, sg>> : rho \in RhoGrid, sg \in {1, -1}}
GaussDelay(dl, in) == RAdd(dl.p1, RMul(RMul(I(in[2]), in[1]), dl.p2))
GaussDraws(in) == << <<"expneg", RDiv(RMul(in[1], in[1]), I(2))>>, <<"u", IF in[2] = 1 THEN Zero ELSE R(1, 2)>> >>
GammaC(dl) == IF dl.p1 = R(4, 3) THEN R(1, 3) ELSE R(1, 6)           \* 1/sqrt(9 d)
GammaD(dl) == RSub(dl.p1, R(1, 3))
GammaV(dl, in) == LET b == RAdd(One, RMul(GammaC(dl), RMul(I(in[2]), in[1]))) IN RMul(b, RMul(b, b))
\* a gamma input is a sequence of proposals; all but the last must be rejected (v <= 0), the last accepted
GoodV(v) == RLe(R(1, 8), v) /\ RLe(v, I(5))
GammaInputs(dl) == {<<p>> : p \in {g \in GaussInputs : GoodV(GammaV(dl, g))}}
              \cup {<<q, p>> : q \in {g \in GaussInputs : RLe(GammaV(dl, g), Zero)}, p \in {g \in GaussInputs : GoodV(GammaV(dl, g))}}
GammaDelay(dl, ins) == RMul(RMul(GammaD(dl), GammaV(dl, ins[Len(ins)])), dl.p2)
RECURSIVE GammaDraws(_)
GammaDraws(ins) == IF ins = << >> THEN << >> ELSE GaussDraws(Head(ins)) \o << <<"tiny", Zero>> >> \o GammaDraws(Tail(ins))

DelayInputs(dl) == CASE dl.type = "gaussian" -> {<<g>> : g \in GaussInputs}
                     [] dl.type = "gamma" -> GammaInputs(dl)
                     [] OTHER -> {<< >>}
DelayOf(dl, ins) == CASE dl.type = "none" -> Zero
                      [] dl.type = "fixed" -> dl.p1
                      [] dl.type = "gaussian" -> GaussDelay(dl, ins[1])
                      [] dl.type = "gamma" -> GammaDelay(dl, ins)
DrawsOf(dl, ins) == CASE dl.type = "gaussian" -> GaussDraws(ins[1])
                      [] dl.type = "gamma" -> GammaDraws(ins)
                      [] OTHER -> << >>

IterFire ==
    /\ Running /\ ~Tie /\ ReactionWins
    /\ rows' = Record(rows, idx, P0, x) /\ vols' = Record(vols, idx, P0, n) /\ idx' = Len(rows')
    /\ \E u \in Pk(UGrid(A)) :
         LET r == Select(A, u)
             dl == prog.rx[r].delay IN
         \E ins \in Pk(DelayInputs(dl)) :
           LET dv == DelayOf(dl, ins)
               t == RAdd(P0, dv)
               q == RLt(Zero, dv)                           \* computed_delay > 0
               k == slot + ClampIdx(RawIdx(t)) IN
           /\ (IF q THEN ~HalfWayReq(t) ELSE TRUE)           \* a request exactly half-way between slots is never generated
           /\ (IF dl.type \in {"gaussian", "gamma"} THEN dv # Zero ELSE TRUE)   \* nor a sampled delay of exactly 0 (sign tie)
           /\ Assert(IF q THEN SlotNearest(t, k) ELSE TRUE, "D2: queued slot is not the nearest grid time")
           /\ now' = P0
           /\ fired' = [fired EXCEPT ![r] = @ + 1]
           /\ IF q
              THEN /\ x' = AddVec(x, Col(prog, r, FALSE))
                   /\ pendq' = [pendq EXCEPT ![k][r] = @ + 1]
                   /\ queued' = [queued EXCEPT ![r] = @ + 1] /\ imm' = imm
              ELSE /\ x' = AddVec(x, Col(prog, r, TRUE))
                   /\ imm' = [imm EXCEPT ![r] = @ + 1] /\ UNCHANGED <<pendq, queued>>
           /\ steps' = Append(steps, [a |-> "fire", e |-> Draw, u |-> u, r |-> r, dd |-> DrawsOf(dl, ins), to |-> IF q THEN k ELSE 0])
    /\ NewTau
    /\ UNCHANGED <<prog, safe, dt, x0, slot, delivered, pc, preload, V0, G, n, nv>>

TieRedraw == /\ Running /\ Tie /\ NewTau
             /\ UNCHANGED <<prog, safe, dt, x0, x, now, idx, rows, slot, pendq, fired, queued, delivered, imm, steps, pc, preload, V0, G, n, nv, vols>>
Abandon == /\ pc = "run" /\ idx < NT /\ ~Small /\ pc' = "abandoned"
           /\ UNCHANGED <<prog, safe, dt, x0, x, now, idx, rows, slot, pendq, fired, queued, delivered, imm, steps, tau, preload, V0, G, n, nv, vols>>
Finish == /\ pc = "run" /\ idx = NT /\ pc' = "done"
          /\ UNCHANGED <<prog, safe, dt, x0, x, now, idx, rows, slot, pendq, fired, queued, delivered, imm, steps, tau, preload, V0, G, n, nv, vols>>

Next == AddRx \/ Start \/ IterQueueWins \/ IterVStep \/ IterFire \/ TieRedraw \/ Abandon \/ Finish
Spec == Init /\ [][Next]_vars

\* ---------------------------------------------------------------- properties (C10)
Live == pc \in {"run", "done"}
RECURSIVE PendTotal(_, _)
PendTotal(r, k) == IF k = 0 THEN 0 ELSE pendq[k][r] + PendTotal(r, k - 1)
PreTotal(r) == LET RECURSIVE S(_)
                   S(i) == IF i = 0 THEN 0 ELSE (IF preload[i][2] = r THEN preload[i][3] ELSE 0) + S(i - 1)
               IN S(Len(preload))
\* (D1) nothing lost or duplicated: every firing (and every pre-loaded entry) is accounted for
Accounting == Live => \A r \in 1..NRx(prog) :
                 /\ fired[r] + PreTotal(r) = queued[r] + imm[r]
                 /\ queued[r] = delivered[r] + PendTotal(r, MaxSlot)
RECURSIVE SumImm(_)
SumImm(r) == IF r = 0 THEN [s \in Sp |-> 0]
             ELSE AddVec(AddVec(ScaleVec(fired[r], Col(prog, r, FALSE)), ScaleVec(delivered[r] + imm[r], DCol(prog, r))), SumImm(r - 1))
\* (a pre-loaded entry contributes its delayed column when delivered, and no immediate column)
StateAccounting == Live => x = AddVec(x0, SumImm(NRx(prog)))
\* pending entries only in slots not yet delivered
PendingAhead == Live => \A k \in 1..MaxSlot : k < slot => \A r \in 1..NRx(prog) : pendq[k][r] = 0
\* (D3) with zero delay the delayed column is applied at the firing itself
ZeroDelayImmediate == [][\A r \in 1..Len(fired) : (fired'[r] = fired[r] + 1 /\ prog.rx[r].delay.type = "none") => imm'[r] = imm[r] + 1]_vars

OneStepPerDt == Live => n = nv - 1
VolumeTrace == Live => \A i \in 1..Len(vols) : vols[i] >= 0 /\ vols[i] <= i /\ (i > 1 => vols[i - 1] <= vols[i])
Emit == pc = "done" => PrintT(ToJson([prog |-> prog, ns |-> NS, safe |-> safe, dt |-> dt, nt |-> NT, x0 |-> x0, V0 |-> V0, G |-> G, vols |-> vols, steps |-> steps,
                                       rows |-> rows, preload |-> preload, pending |-> [k \in 1..NT |-> pendq[slot + k - 1]], slot |-> slot,
                                       fired |-> fired, delivered |-> delivered]))
=============================================================================
