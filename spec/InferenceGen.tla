---------------------------- MODULE InferenceGen ----------------------------
(***************************************************************************)
(* Scenario generator and driver for Inference.tla (C15).                  *)
(*   Mode "exh" / "exh3": small menus, every scenario (N <= MaxN / exactly *)
(*               three trajectories); the object is evaluated at           *)
(*               every theta of a grid in every order, for ever (the       *)
(*               reachable graph closes, so ALL evaluation histories are   *)
(*               covered, not only those up to a bound).                   *)
(*   Mode "sim": (-simulate) one random scenario per behaviour: 1..4       *)
(*               trajectories, 1..3 measured species in any order, p in    *)
(*               1..3, condition dictionaries with different key sets,     *)
(*               uniform / non-uniform / shifted rational grids, rational  *)
(*               data, a theta sequence with repeats; then the same        *)
(*               sequence is evaluated on up to three objects: the         *)
(*               scenario, the scenario with its measurement list permuted *)
(*               and with its trajectories permuted.  One JSON record per  *)
(*               behaviour carries the property-level expectation and the  *)
(*               prediction of every design.                               *)
(* All numbers are dyadic with denominator <= 2 (data: <= 4), so every     *)
(* residual lies on the 1/8 lattice and cubes fit 32 bits; they are exact  *)
(* doubles as well.                                                        *)
(***************************************************************************)
EXTENDS Inference, Json

CONSTANTS Mode, MaxN

VARIABLES sc,        \* the scenario under construction / the base scenario
          plan,      \* [variants, thetas]
          vi, ki,    \* current object, evaluations done on it
          hist,      \* evaluations of the current object
          objs       \* finished objects
gvars == <<sc, plan, vi, ki, hist, objs>>
vars == <<mvars, gvars>>

Exh == Mode # "sim"          \* "exh" (all of the small menu, N <= MaxN) or "exh3" (exactly three trajectories, lean menu)
Lean == Mode = "exh3"
Pick(S) == IF Mode = "sim" THEN {RandomElement(S)} ELSE S
Coin(k) == IF Mode = "sim" THEN RandomElement(1..k) = 1 ELSE FALSE
H(k) == R(k, 2)

\* ---- menus
Pr(fam, a, b) == [fam |-> fam, p1 |-> a, p2 |-> b]
PriorMenu == IF Exh THEN {Pr("uniform", I(0), I(4))}
             ELSE {Pr("uniform", I(0), I(4)), Pr("uniform", H(1), H(5)), Pr("gaussian", I(1), I(1)), Pr("gaussian", I(2), H(1)),
                   Pr("exponential", I(1), One), Pr("exponential", H(1), One), Pr("gamma", I(2), I(1)), Pr("gamma", I(3), I(2)),
                   Pr("beta", I(2), I(2)), Pr("log-uniform", H(1), I(4)), Pr("log-gaussian", I(0), I(1))}
ThetaVals == {H(1), I(1), H(3), I(2), H(5), I(3), I(4), H(9), I(-1), H(-1)}
EstMenu == IF Exh THEN {<<"theta1", "theta2">>}
           ELSE {<<"theta1", "theta2">>, <<"theta2", "theta1">>, <<"theta1">>, <<"theta2">>}
ThetaExh == {<<I(1), I(2)>>, <<H(1), I(3)>>, <<H(9), I(1)>>}       \* the third one is outside uniform(0, 4)
MeasMenu == IF Lean THEN {<<"Y", "X">>} ELSE IF Exh THEN {<<"Y">>, <<"Y", "X">>, <<"X", "Y", "Z">>}
            ELSE {<<"X">>, <<"Y">>, <<"Z">>, <<"X", "Y">>, <<"Y", "X">>, <<"X", "Z">>, <<"Z", "X">>, <<"Y", "Z">>, <<"Z", "Y">>,
                  <<"X", "Y", "Z">>, <<"X", "Z", "Y">>, <<"Y", "X", "Z">>, <<"Y", "Z", "X">>, <<"Z", "X", "Y">>, <<"Z", "Y", "X">>}
DefaultsMenu == IF Exh THEN {[theta1 |-> I(1), theta2 |-> I(2), c |-> I(1), b |-> I(0)]}
                ELSE {[theta1 |-> t1, theta2 |-> t2, c |-> cc, b |-> bb] : t1 \in {I(1), H(3)}, t2 \in {I(2), H(1)}, cc \in {I(1), I(2)}, bb \in {I(0), I(1)}}
Sp0Menu == IF Exh THEN {[X |-> I(0), Y |-> I(0), Z |-> I(5)]}
           ELSE {[X |-> x, Y |-> y, Z |-> z] : x \in {I(0), I(1)}, y \in {I(0), I(2)}, z \in {I(5), H(3)}}
GridMenu(T) == IF Exh THEN {<<I(0), I(1)>>}
               ELSE CASE T = 2 -> {<<I(0), I(1)>>, <<I(0), H(3)>>, <<I(1), I(3)>>, <<H(1), I(1)>>}
                      [] T = 3 -> {<<I(0), I(1), I(2)>>, <<I(0), H(1), I(1)>>, <<I(0), H(1), I(2)>>, <<I(1), I(2), I(4)>>, <<I(0), I(2), I(3)>>}
                      [] T = 4 -> {<<I(0), I(1), I(2), I(3)>>, <<I(0), H(1), I(1), H(3)>>, <<I(0), H(1), H(3), I(3)>>,
                                   <<I(1), I(2), H(5), I(4)>>, <<H(1), I(1), I(2), I(3)>>}
Dict1(k, v) == [x \in {k} |-> v]
Dict2(k1, v1, k2, v2) == [x \in {k1, k2} |-> IF x = k1 THEN v1 ELSE v2]
NoDict == [x \in {} |-> Zero]
X0Menu == IF Exh THEN {NoDict, Dict2("X", I(1), "Y", I(2))}
          ELSE {NoDict, Dict1("X", I(1)), Dict1("Y", I(2)), Dict2("X", I(2), "Y", I(1)), Dict1("Z", H(1)), Dict2("X", H(3), "Z", I(4)),
                [X |-> I(1), Y |-> I(0), Z |-> I(3)], [X |-> I(0), Y |-> H(1), Z |-> I(2)]}
CondMenu == IF Exh THEN {NoDict, Dict1("c", I(3)), Dict1("b", I(1)), Dict2("c", I(2), "b", I(2))}
            ELSE {NoDict, Dict1("c", I(3)), Dict1("c", I(2)), Dict1("c", H(1)), Dict1("b", I(1)), Dict1("b", I(2)), Dict1("b", H(1)),
                  Dict2("c", I(3), "b", I(1)), Dict2("c", I(2), "b", I(2)), Dict2("c", H(3), "b", H(3))}
DataVals == {I(0), R(1, 4), H(1), I(1), H(3), R(7, 4), I(2), H(5), I(3), I(4), I(5), I(6), H(15), I(8), I(10), I(12)}
ColsMenu(meas) == LET ms == {meas[j] : j \in DOMAIN meas} IN {S \in SUBSET Species : ms \subseteq S}
FrameExh == {[X |-> <<I(1), I(2)>>, Y |-> <<I(0), I(6)>>, Z |-> <<I(5), I(4)>>],
             [X |-> <<H(1), I(3)>>, Y |-> <<I(2), H(5)>>, Z |-> <<I(5), I(5)>>]}

Init == /\ MachineInit /\ pc = "hdr"
        /\ sc = << >> /\ plan = << >> /\ vi = 0 /\ ki = 0 /\ hist = << >> /\ objs = << >>

Header ==
    /\ pc = "hdr"
    /\ \E kind \in (IF Exh THEN {"prod"} ELSE IF Coin(4) THEN {"free"} ELSE {"prod"}),
          dfl \in Pick(DefaultsMenu), sp0 \in Pick(Sp0Menu), est \in Pick(EstMenu),
          p \in Pick(IF Lean THEN {2} ELSE IF Exh THEN 1..2 ELSE 1..3), meas \in Pick(MeasMenu),
          T \in Pick(IF Exh THEN {2} ELSE 2..4), N \in Pick(IF Lean THEN {3} ELSE 1..MaxN) :
       \E cols \in Pick(IF Exh THEN {Species} ELSE ColsMenu(meas)) :
          sc' = [kind |-> kind, defaults |-> dfl, sp0 |-> sp0, est |-> est,
                 prior |-> [i \in DOMAIN est |-> [pr |-> CHOOSE q \in Pick(PriorMenu) : TRUE, positive |-> Coin(3)]],
                 p |-> p, meas |-> meas, cols |-> cols, T |-> T, N |-> N, trajs |-> << >>,
                 icform |-> "list", pcform |-> "list", frameform |-> "list",
                 \* one scenario in three has no parameter conditions at all (parameter_conditions = None) while the
                 \* trajectories still start from their own initial conditions
                 nocond |-> Coin(3),
                 timecol |-> IF Coin(2) THEN "t" ELSE "time",
                 \* declaration order of the species in the model (the measured species are found by NAME)
                 sporder |-> IF Exh THEN <<"X", "Y", "Z">>
                             ELSE RandomElement({<<"X", "Y", "Z">>, <<"Z", "Y", "X">>, <<"Y", "Z", "X">>, <<"Z", "X", "Y">>})]
    /\ pc' = "traj"
    /\ UNCHANGED <<cur, obj, st, n, th, last, memo, plan, vi, ki, hist, objs>>

AddTraj ==
    /\ pc = "traj" /\ Len(sc.trajs) < sc.N
    /\ \E g \in Pick(GridMenu(sc.T)), x0 \in Pick(X0Menu), cd \in (IF sc.nocond THEN {NoDict} ELSE Pick(CondMenu)) :
       \E fr \in (IF Lean THEN {CHOOSE x \in FrameExh : TRUE} ELSE IF Exh THEN FrameExh ELSE {[s \in sc.cols |-> [t \in 1..sc.T |-> RandomElement(DataVals)]]}) :
          sc' = [sc EXCEPT !.trajs = Append(@, [grid |-> g, x0 |-> x0, cond |-> cd, frame |-> fr])]
    /\ UNCHANGED <<cur, obj, st, pc, n, th, last, memo, plan, vi, ki, hist, objs>>

AllSame(f) == \A i, j \in DOMAIN f : f[i] = f[j]
ThetaVecs(k) == [1..k -> ThetaVals]
Judged(s, t) == AnyOpen(PriorVec(s, t)) = FALSE           \* boundary points with an open convention are not generated

Plan ==
    /\ pc = "traj" /\ Len(sc.trajs) = sc.N
    /\ LET x0s == [i \in 1..sc.N |-> sc.trajs[i].x0]
           cds == [i \in 1..sc.N |-> sc.trajs[i].cond]
           s2 == [sc EXCEPT !.icform = IF AllSame(x0s) /\ Coin(2) THEN "dict" ELSE "list",
                            !.pcform = IF (\A i \in 1..sc.N : DOMAIN cds[i] = {}) /\ (IF sc.nocond THEN TRUE ELSE Coin(2)) THEN "none"
                                       ELSE IF AllSame(cds) /\ Coin(2) THEN "dict" ELSE "list",
                            !.frameform = IF sc.N = 1 /\ Coin(2) THEN "single" ELSE "list"]
           L == Len(sc.est)
           M == Len(sc.meas)
           ok == {t \in ThetaVecs(L) : Judged(sc, t)}
           acc == {t \in ok : AnyRejects(PriorVec(sc, t)) = FALSE}
       IN /\ sc' = s2
          /\ IF Exh
             THEN plan' = [variants |-> <<[pm |-> IdPerm(M), pn |-> IdPerm(sc.N)]>>, thetas |-> << >>, seed |-> 1, nsim |-> 1]
             ELSE LET pool == <<RandomElement(acc), RandomElement(ok), RandomElement(ok)>>
                      K == RandomElement(2..4)
                      v1 == <<[pm |-> IdPerm(M), pn |-> IdPerm(sc.N)]>>
                      v2 == IF M > 1 THEN <<[pm |-> RandomElement(Perms(M) \ {IdPerm(M)}), pn |-> IdPerm(sc.N)]>> ELSE << >>
                      v3 == IF sc.N > 1 THEN <<[pm |-> IF Coin(2) THEN RandomElement(Perms(M)) ELSE IdPerm(M),
                                                 pn |-> RandomElement(Perms(sc.N) \ {IdPerm(sc.N)})]>> ELSE << >>
                  IN plan' = [variants |-> v1 \o v2 \o v3, thetas |-> [i \in 1..K |-> pool[RandomElement(1..3)]],
                              seed |-> RandomElement(1..100000), nsim |-> RandomElement(1..3)]
    /\ pc' = "new" /\ vi' = 1 /\ ki' = 0 /\ hist' = << >>
    /\ UNCHANGED <<cur, obj, st, n, th, last, memo, objs>>

ConstructV == /\ pc = "new"
              /\ Construct(PermuteSc(sc, plan.variants[vi].pm, plan.variants[vi].pn))
              /\ UNCHANGED gvars

BeginV == /\ pc = "idle"
          /\ IF Exh THEN \E t \in ThetaExh : Begin(t)
             ELSE ki < Len(plan.thetas) /\ Begin(plan.thetas[ki + 1])
          /\ UNCHANGED gvars

Eval == EvalStep /\ UNCHANGED gvars

Record ==
    /\ pc = "done"
    /\ IF Exh THEN UNCHANGED <<hist, ki>>
       ELSE /\ hist' = Append(hist, [th |-> th, prop |-> PropEval(cur, th),
                                     lp |-> IF Outcome(cur, th) = "value" THEN LogPrior(cur, th) ELSE << >>,
                                     des |-> last])
            /\ ki' = ki + 1
    /\ pc' = "idle"
    /\ UNCHANGED <<cur, obj, st, n, th, last, memo, sc, plan, vi, objs>>

NextObj ==
    /\ Mode = "sim" /\ pc = "idle" /\ ki = Len(plan.thetas)
    /\ objs' = Append(objs, [sc |-> cur, Dprop |-> D(cur), Dcode |-> CodeD(cur), evals |-> hist])
    /\ IF vi < Len(plan.variants) THEN pc' = "new" /\ vi' = vi + 1 ELSE pc' = "end" /\ vi' = vi
    /\ ki' = 0 /\ hist' = << >>
    /\ UNCHANGED <<cur, obj, st, n, th, last, memo, sc, plan>>

Next == Header \/ AddTraj \/ Plan \/ ConstructV \/ BeginV \/ Eval \/ Record \/ NextObj
Spec == Init /\ [][Next]_vars

\* ---- property-level theorems on the generated scenarios
\* invariance under permutations of the measurement columns and of the trajectories (with their conditions)
PermInvariantAll ==      \* exhaustive: every pair of permutations, every theta of the grid
    (pc = "new") => \A t \in ThetaExh : \A pm \in Perms(NM(sc)), pn \in Perms(NT(sc)) : PermInvariantAt(sc, t, pm, pn)
PermInvariantPlan ==     \* generation: the permutations and thetas of the plan
    (pc = "new" /\ vi = 1) => \A i \in DOMAIN plan.thetas : \A v \in DOMAIN plan.variants :
                                  PermInvariantAt(sc, plan.thetas[i], plan.variants[v].pm, plan.variants[v].pn)
\* every generated evaluation point is judged (no open boundary point)
NoOpen == (pc = "done") => Outcome(cur, th) # "open"

Emit == (pc = "end") => PrintT(ToJson([sc |-> sc, plan |-> plan, objs |-> objs]))
=============================================================================
