------------------------------ MODULE SsaCore ------------------------------
(***************************************************************************)
(* Operators shared by the stochastic simulators (plain, volume, delay,    *)
(* lineage single cell): stochastic propensities of a program at an        *)
(* integer state, the safe-mode requirement table, the selection rule of   *)
(* sample_discrete, and the state-dependent uniform grid on which          *)
(* "selected with probability a_r / Lambda" is an exact counting statement.*)
(***************************************************************************)
EXTENDS Crn

NRx(prog) == Len(prog.rx)
XR(x) == [s \in DOMAIN x |-> I(x[s])]           \* integer state as rationals

\* ---- safe interface (simulator.pyx:515-537): amount of each species a reaction may consume
Required(rx, s) ==
    LET u == StoichN(rx, s)   d == DStoichN(rx, s) IN
    IF u < 0 /\ d < 0 THEN -(u + d)
    ELSE IF u < 0 \/ d < 0 THEN -(IF u < d THEN u ELSE d)
    ELSE 0
Supplied(rx, x) == \A s \in DOMAIN x : x[s] >= Required(rx, s)

\* propensity vector: stochastic form, volume-scaled when vol, zeroed in safe mode when under-supplied
\* (the safe interface also clamps a negative rate to 0 - simulator.pyx:573-576 - which matters only
\* once a state has gone negative, e.g. after a delayed consumption in the delay simulator)
Props(prog, x, safe, vol, V) ==
    [r \in 1..NRx(prog) |->
        IF safe /\ ~Supplied(prog.rx[r], x) THEN Zero
        ELSE LET a == IF vol THEN StoVol(prog.rx[r].law, XR(x), V) ELSE Sto(prog.rx[r].law, XR(x))
             IN IF safe THEN RMax(a, Zero) ELSE a]
PropsDefined(prog, x, vol, V) == \A r \in 1..NRx(prog) : Defined(prog.rx[r].law, XR(x), IF vol THEN V ELSE One)

Lambda(a) == RSumSeq(a)
RECURSIVE Cum(_, _)
Cum(a, j) == IF j = 0 THEN Zero ELSE RAdd(a[j], Cum(a, j - 1))

\* sample_discrete (random.pyx:193-208): q = u * Lambda; the first index whose cumulative sum is >= q
Select(a, u) == LET q == RMul(u, Lambda(a)) IN
                CHOOSE j \in 1..Len(a) : RLe(q, Cum(a, j)) /\ \A i \in 1..(j - 1) : RLt(Cum(a, i), q)

\* ---- the grid of uniforms: D(a) cells of equal width, mid-points (2i+1)/(2D), such that every
\* selection boundary Cum(a,j)/Lambda is a cell boundary (never a mid-point)
RECURSIVE LCMDen(_, _)
LCM(m, n) == (m * n) \div GCD(m, n)
LCMDen(a, j) == IF j = 0 THEN 1 ELSE LCM(a[j][2], LCMDen(a, j - 1))
Cells(a) == LET L == LCMDen(a, Len(a)) IN RMul(Lambda(a), I(L))[1]     \* Lambda * L is an integer
UGrid(a) == {R(2 * i + 1, 2 * Cells(a)) : i \in 0..(Cells(a) - 1)}

\* guard used by the generators before they build a selection grid: small numbers only (TLC's integers
\* are 32 bit; Cells itself would overflow on wild propensity vectors, so magnitudes are tested first)
Tame(a) == \A r \in 1..Len(a) : a[r][1] <= 2000 /\ a[r][2] <= 16
SmallGrid(a, maxCells) == IF Tame(a) THEN Cells(a) <= maxCells ELSE FALSE

\* (P1) the number of grid points selecting r, over the number of grid points, is a_r / Lambda exactly
CountSel(a, r) == Cardinality({u \in UGrid(a) : Select(a, u) = r})
ProportionalSelection(a) == Lambda(a) # Zero =>
    \A r \in 1..Len(a) : R(CountSel(a, r), Cells(a)) = RDiv(a[r], Lambda(a))

\* ---- state updates
Col(prog, r, delayedToo) == [s \in 1..NS |-> StoichN(prog.rx[r], s) + (IF delayedToo THEN DStoichN(prog.rx[r], s) ELSE 0)]
DCol(prog, r) == [s \in 1..NS |-> DStoichN(prog.rx[r], s)]
AddVec(x, c) == [s \in DOMAIN x |-> x[s] + c[s]]
ScaleVec(k, c) == [s \in DOMAIN c |-> k * c[s]]

\* ---- bounded dynamics (the quantifier of C05/C06/C10/C11): a sufficient, syntactic condition -
\* every reaction that has reactants does not increase the total count (zero-order and Hill-type
\* production may, which gives at most polynomial growth)
NetTotal(rx) == LET RECURSIVE S(_)
                    S(s) == IF s = 0 THEN 0 ELSE NetN(rx, s) + S(s - 1)
                IN S(NS)
Proportional(law) == law.type \in {"proportionalhillpositive", "proportionalhillnegative"}
RxBounded(rx) == IF (rx.law.type = "massaction" /\ Len(rx.law.re) >= 1) \/ Proportional(rx.law)
                 THEN NetTotal(rx) <= 0 ELSE NetTotal(rx) <= 2
BoundedDynamics(prog) == \A r \in 1..NRx(prog) : RxBounded(prog.rx[r])

\* ---- C06 state predicates
NonNeg(x) == \A s \in DOMAIN x : x[s] >= 0
MassActionOnly(prog) == \A r \in 1..NRx(prog) : prog.rx[r].law.type = "massaction"
\* every consuming reaction is mass action whose law reads exactly its reactants (the generator's invariant)
=============================================================================
