SPECIFICATION Spec
CONSTANTS
  NR = 2
  NC = 3
  MaxAdded = 3
  StartTimes <- StartTimesDef
  MaxDepth = 7
  WithCopies = FALSE
  AddTimes <- RepTimes
CONSTRAINT Bound
CONSTRAINT DepthBound
INVARIANT TypeOK
INVARIANT Refine
INVARIANT ExactlyOnce
INVARIANT NearestIsFloorClamp
PROPERTY ReadCorrect
PROPERTY InOrder
PROPERTY InOrderStrict
PROPERTY CopyOK
PROPERTY PartitionOK
CHECK_DEADLOCK FALSE
