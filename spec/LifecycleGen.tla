---------------------------- MODULE LifecycleGen ----------------------------
(***************************************************************************)
(* Histories of Lifecycle (C08, C17): the menus of concrete templates, the *)
(* actions of the property's alphabet as a transition system over worlds,  *)
(* the model-checked properties, and a history variable h that records for *)
(* every operation its arguments, its outcome and the PROJECTED abstract   *)
(* state of every object it touched - what project(real object) must be    *)
(* after the same call (rates at a probe state as exact values).           *)
(*                                                                         *)
(* Mode "exh": every enabled action (breadth first, bounded by HLen);      *)
(* Mode "mc": the same without recording (model checking under VIEW View);  *)
(* Mode "sim": -simulate, one random action per step.                      *)
(* An object family (Fam = "model" | "lineage") and a start object built   *)
(* by the Pre* constants (C17: a program that covers every propensity,     *)
(* expression-node, delay, rule, lineage rule / event type).               *)
(***************************************************************************)
EXTENDS Lifecycle, Json

CONSTANTS Fam, Mode, HLen, WithCopy, MaxObj, MaxItf, MaxRx, MaxRules, MaxLin,
          RxPick, RulePick, LinPick,    \* template numbers offered to AddReaction / AddRule / AddLin
          SpPick, ParPick,              \* species numbers / parameter names offered to the add / set actions
          XVals, PVals,                 \* values offered to SetSpecies / SetParam
          SimModes, Seeds,
          PreSp, PreRx, PreRules, PreLin, PreSet, PreInit

VARIABLES w, h, last
vars == <<w, h, last>>

\* ------------------------------------------------------------------ menus
NoE == ENum(Zero)
NoSlots == << >>
\* the rate that uses every node class: sum, product, power, exp, log, abs, Heaviside, min, max, t, volume,
\* constants, species, parameters (EPar(1), EPar(2) = the two named slots)
CovRate ==
    EBin("add", EBin("add", EBin("add", EBin("add", EBin("add", EBin("add",
        EBin("mul", EPar(1), ESp(1)),
        EBin("mul", EUn("exp", EUn("neg", ET)), ESp(2))),
        EUn("log", EBin("add", ESp(1), ENum(One)))),
        EUn("abs", EBin("sub", ESp(2), EBin("mul", ENum(I(2)), ESp(1))))),
        EBin("mul", EUn("step", EBin("sub", ESp(1), ENum(R(1, 2)))), EBin("min", ESp(1), ESp(2)))),
        EBin("div", EBin("pow", EBin("max", ESp(2), EPar(2)), ENum(I(2))), EVol)),
        ENum(R(3, 2)))

RxMenuDef == <<
  \* 1: S1 -> S2, mass action, named rate
  RxT(<<1>>, <<2>>, << >>, << >>, "massaction", "UnimolecularPropensity", 0, 0, <<Named("k", "k1")>>, <<1>>, NoE, "none", "", NoSlots),
  \* 2: 0 -> S1 repressed by S2: literal k and n, named K
  RxT(<< >>, <<1>>, << >>, << >>, "hillnegative", "NegativeHillPropensity", 2, 0,
      <<Lit("k", I(2)), Named("K", "k2"), Lit("n", I(1))>>, <<2, 3, 1>>, NoE, "none", "", NoSlots),
  \* 3: S2 -> (after a fixed delay) S3
  RxT(<<2>>, << >>, << >>, <<3>>, "massaction", "UnimolecularPropensity", 0, 0, <<Lit("k", I(1))>>, <<1>>, NoE,
      "fixed", "FixedDelay", <<Lit("delay", R(1, 2))>>),
  \* 4: S1 + S2 -> S3, (gaussian delay) S4
  RxT(<<1, 2>>, <<3>>, << >>, <<4>>, "massaction", "BimolecularPropensity", 0, 0, <<Named("k", "k1")>>, <<1>>, NoE,
      "gaussian", "GaussianDelay", <<Named("mean", "dm"), Lit("std", R(1, 4))>>),
  \* 5: 2 S1 + S2 -> (gamma delay) S4
  RxT(<<1, 1, 2>>, << >>, << >>, <<4>>, "massaction", "MassActionPropensity", 0, 0, <<Lit("k", R(1, 2))>>, <<1>>, NoE,
      "gamma", "GammaDelay", <<Lit("k", I(2)), Lit("theta", R(1, 4))>>),
  \* 6: 0 -> S4 activated by S1 (every reaction that consumes a species has a rate that vanishes with it, so that
  \*    counts stay non-negative also without the safe interface)
  RxT(<< >>, <<4>>, << >>, << >>, "hillpositive", "PositiveHillPropensity", 1, 0,
      <<Named("k", "k1"), Lit("K", I(2)), Lit("n", I(2))>>, <<2, 3, 1>>, NoE, "none", "", NoSlots),
  \* 7: S3 -> S4 proportional to S3, activated by S2
  RxT(<<3>>, <<4>>, << >>, << >>, "proportionalhillpositive", "PositiveProportionalHillPropensity", 2, 3,
      <<Lit("k", R(1, 2)), Named("K", "k2"), Lit("n", I(1))>>, <<2, 3, 1>>, NoE, "none", "", NoSlots),
  \* 8: S4 -> 0 proportional to S4, repressed by S1
  RxT(<<4>>, << >>, << >>, << >>, "proportionalhillnegative", "NegativeProportionalHillPropensity", 1, 4,
      <<Lit("k", I(1)), Lit("K", I(3)), Lit("n", I(2))>>, <<2, 3, 1>>, NoE, "none", "", NoSlots),
  \* 9: 0 -> S4 at the rate that uses every expression node
  RxT(<< >>, <<4>>, << >>, << >>, "general", "", 0, 0, <<Named("rate", "k1"), Named("rate", "k2")>>, <<1, 2>>, CovRate, "none", "", NoSlots),
  \* 10, 11, 12: propensities of lineage events only (constant, first order in S4, Hill in S1)
  RxT(<< >>, << >>, << >>, << >>, "massaction", "ConstitutivePropensity", 0, 0, <<Lit("k", R(1, 5))>>, <<1>>, NoE, "none", "", NoSlots),
  RxT(<<4>>, << >>, << >>, << >>, "massaction", "UnimolecularPropensity", 0, 0, <<Lit("k", R(1, 50))>>, <<1>>, NoE, "none", "", NoSlots),
  RxT(<< >>, << >>, << >>, << >>, "hillpositive", "PositiveHillPropensity", 1, 0,
      <<Named("k", "ke"), Lit("K", I(4)), Lit("n", I(2))>>, <<2, 3, 1>>, NoE, "none", "", NoSlots),
  \* 13: 0 -> S1 at a constant literal rate (keeps the total propensity positive)
  RxT(<< >>, <<1>>, << >>, << >>, "massaction", "ConstitutivePropensity", 0, 0, <<Lit("k", I(1))>>, <<1>>, NoE, "none", "", NoSlots)
>>

RuleMenuDef == <<
  \* 1: S3 = 2 S1 + 1 on every step
  RuleT("assignment", "repeat", 3, "", EBin("add", EBin("mul", ENum(I(2)), ESp(1)), ENum(One)), << >>),
  \* 2: a rule that assigns a PARAMETER: k2 = S1 + 1
  RuleT("assignment", "repeat", 0, "k2", EBin("add", ESp(1), ENum(One)), << >>),
  \* 3: additive S4 = S1 + S2
  RuleT("additive", "repeat", 4, "", EBin("add", ESp(1), ESp(2)), << >>),
  \* 4: ode rule dS3/dt = 4 Heaviside(k1): with the harness's grid step 1/4 the species stays an integer
  RuleT("ode", "dt", 3, "", EBin("mul", ENum(I(4)), EUn("step", EPar(1))), <<"k1">>),
  \* 5: counter S4 = S4 + 1 once per dt
  RuleT("assignment", "dt", 4, "", EBin("add", ESp(4), ENum(One)), << >>),
  \* 6: S3 = q0 + 1 at the start (introduces a parameter without value)
  RuleT("assignment", "start", 3, "", EBin("add", EPar(1), ENum(One)), <<"q0">>)
>>

LinMenuDef == <<
  \* volume rules: linear (literal), multiplicative (named + literal noise), assignment (mentions nothing), ode (named)
  LinT("vrule", "linear", "LinearVolumeRule", <<Lit("growth_rate", R(1, 2))>>, NoE, 0, 0, 0),
  LinT("vrule", "multiplicative", "MultiplicativeVolumeRule", <<Named("growth_rate", "g"), Lit("noise", R(1, 10))>>, NoE, 0, 0, 0),
  LinT("vrule", "assignment", "", NoSlots, EBin("add", ENum(One), EBin("div", ET, ENum(I(4)))), 0, 0, 0),
  LinT("vrule", "ode", "", <<Named("equation", "g")>>, EBin("mul", EPar(1), EVol), 0, 0, 0),
  \* division rules: time (literal), volume (named), deltaV (literal + noise), general (mentions nothing)
  LinT("divrule", "time", "TimeDeathRule", <<Lit("threshold", R(3, 2))>>, NoE, 0, 0, 1),
  LinT("divrule", "volume", "VolumeDeathRule", <<Named("threshold", "vdiv")>>, NoE, 0, 0, 2),
  LinT("divrule", "deltaV", "DeltaVDeathRule", <<Lit("threshold", I(1)), Lit("noise", R(1, 10))>>, NoE, 0, 0, 3),
  LinT("divrule", "general", "", NoSlots, EBin("sub", ET, ENum(R(5, 2))), 0, 0, 1),
  \* death rules: species, parameter, general
  LinT("deathrule", "species", "SpeciesDeathRule", <<Lit("threshold", I(50))>>, NoE, 4, 0, 0),
  LinT("deathrule", "param", "ParamDeathRule", <<Named("param", "k1"), Lit("threshold", I(100))>>, NoE, 0, 0, 0),
  LinT("deathrule", "general", "", NoSlots, EBin("sub", ESp(4), ENum(I(60))), 4, 0, 0),
  \* events: volume (linear literal, multiplicative named, general), division, death
  LinT("vevent", "linear volume", "LinearVolumeEvent", <<Lit("growth_rate", R(1, 10))>>, NoE, 0, 10, 0),
  LinT("vevent", "multiplicative volume", "MultiplicativeVolumeEvent", <<Named("growth_rate", "gm")>>, NoE, 0, 12, 0),
  LinT("vevent", "general volume", "", NoSlots, EBin("add", EVol, ENum(R(1, 10))), 0, 10, 0),
  LinT("divevent", "division", "", NoSlots, NoE, 0, 11, 2),
  LinT("deathevent", "death", "", NoSlots, NoE, 0, 12, 0)
>>

\* per-species modes of the volume splitters (default, volume, then S1..S4: "" = default)
SplitMenu == <<
  [default |-> "binomial", volume |-> "", sp |-> <<"", "", "", "">>],
  [default |-> "perfect", volume |-> "perfect", sp |-> <<"", "duplicate", "", "binomial">>],
  [default |-> "duplicate", volume |-> "binomial", sp |-> <<"binomial", "", "perfect", "">>]
>>

\* ------------------------------------------------------------------ probes and expected observables
DT == R(1, 100)
Probe == [x |-> [i \in 1..NSp |-> CASE i = 1 -> I(3) [] i = 2 -> I(2) [] i = 3 -> I(5) [] OTHER -> I(1)],
          t |-> R(1, 2), V |-> I(2)]

SlotV(ww, o, inst, lo, n) == [j \in 1..n |-> ParVal(ww, o, inst.pn[lo + j])]
AllVal(s) == \A j \in 1..Len(s) : IsVal(s[j])
LawOf(T, pv) == [type |-> T.ptype, re |-> T.re, k |-> pv[1], K |-> IF Len(pv) >= 2 THEN pv[2] ELSE One,
                 n |-> IF Len(pv) >= 3 THEN pv[3] ELSE One, s1 |-> T.s1, d |-> T.d]
QS(q) == SVSeq(SConst(q))
VS(v) == IF v.st = "ok" THEN SVSeq(v.v) ELSE << >>
\* the four rate forms (deterministic, stochastic, volume, stochastic volume) of a propensity template at
\* the probe under the parameter values pv; ok = FALSE where a value is missing or not exactly representable
Rates(T, pv) ==
    IF ~AllVal(pv) THEN [ok |-> FALSE, v |-> << >>]
    ELSE IF T.ptype = "general"
    THEN LET env == [x |-> Probe.x, p |-> pv, t |-> Probe.t, V |-> Probe.V]
             a == Eval(T.expr, env)  b == VolEval(T.expr, env) IN
         [ok |-> a.st = "ok" /\ b.st = "ok", v |-> <<VS(a), VS(a), VS(b), VS(b)>>]
    ELSE LET law == LawOf(T, pv) IN
         IF law.K = Zero \/ ~RL!Defined(law, Probe.x, Probe.V) THEN [ok |-> FALSE, v |-> << >>]
         ELSE [ok |-> TRUE, v |-> <<QS(RL!Det(law, Probe.x)), QS(RL!Sto(law, Probe.x)),
                                    QS(RL!Vol(law, Probe.x, Probe.V)), QS(RL!StoVol(law, Probe.x, Probe.V))>>]
RxProj(ww, o, inst) ==
    LET T == RxMenu[inst.t]
        np == Len(T.slots)
        dv == SlotV(ww, o, inst, np, Len(T.dslots)) IN
    [t |-> inst.t, pn |-> inst.pn, rates |-> Rates(T, SlotV(ww, o, inst, 0, np)),
     delay |-> [type |-> T.dtype, p |-> dv]]

\* the probe state and parameter values after ONE application of the definition's rule list at the probe
\* time with rule_step = TRUE (repeat and dt rules run, start / timed rules do not), in order
RECURSIVE RuleFold(_, _, _, _)
RuleFold(ob, k, x, pv) ==
    IF k > Len(ob.rules) THEN [ok |-> TRUE, x |-> x, pv |-> pv]
    ELSE LET T == RuleMenu[ob.rules[k].t] IN
         IF T.freq \notin {"repeat", "dt"} THEN RuleFold(ob, k + 1, x, pv)
         ELSE LET p == [j \in 1..Len(T.pars) |-> pv[Pos(ob.par, T.pars[j])]]
                  r == Eval(T.expr, [x |-> x, p |-> p, t |-> Probe.t, V |-> Probe.V]) IN
              IF ~AllVal(p) \/ r.st # "ok" \/ ~IsRational(r.v) THEN [ok |-> FALSE, x |-> x, pv |-> pv]
              ELSE LET q == RatOf(r.v)
                       ti == IF T.tsp > 0 THEN T.tsp ELSE Pos(ob.par, T.tpar)
                       old == IF T.tsp > 0 THEN x[ti] ELSE pv[ti]
                       new == IF T.rtype = "ode" THEN RAdd(old, RMul(q, DT)) ELSE q IN
                   IF ~IsVal(old) THEN [ok |-> FALSE, x |-> x, pv |-> pv]
                   ELSE IF T.tsp > 0 THEN RuleFold(ob, k + 1, [x EXCEPT ![ti] = new], pv)
                   ELSE RuleFold(ob, k + 1, x, [pv EXCEPT ![ti] = new])
RuleFx(ww, o) ==
    LET ob == ww.objs[o] IN
    IF \E i \in 1..NSp : ~Has(ob.sp, SpName(i)) THEN [ok |-> FALSE, x |-> << >>, pv |-> << >>]
    ELSE RuleFold(ob, 1, Probe.x, ParVals(ww, o))

LinProj(ww, o, inst) ==
    LET T == LinMenu[inst.t]
        ns == Len(T.slots) IN
    [t |-> inst.t, pn |-> inst.pn, v |-> SlotV(ww, o, inst, 0, ns),
     rates |-> IF T.prop > 0 THEN Rates(RxMenu[T.prop], SlotV(ww, o, inst, ns, Len(RxMenu[T.prop].slots)))
               ELSE [ok |-> FALSE, v |-> << >>]]

Proj(ww, o) ==
    LET ob == ww.objs[o] IN
    [fam |-> ob.fam,
     sp |-> [j \in 1..Len(ob.sp) |-> [n |-> ob.sp[j], v |-> SpVals(ww, o)[j]]],
     par |-> [j \in 1..Len(ob.par) |-> [n |-> ob.par[j], v |-> ParVals(ww, o)[j]]],
     init |-> ob.init, ncp |-> Len(ob.crx), ncr |-> Len(ob.crules), npp |-> ob.pyrx,
     nclin |-> [k \in 1..6 |-> Len(ob.clin[k])], npylin |-> ob.pylin, upd |-> ob.upd, dummy |-> ob.dummy,
     rx |-> [k \in 1..Len(ob.rx) |-> RxProj(ww, o, ob.rx[k])],
     rules |-> [k \in 1..Len(ob.rules) |-> ob.rules[k]],
     rulefx |-> RuleFx(ww, o),
     assigned |-> {RuleMenu[ob.rules[k].t].tpar : k \in {k \in 1..Len(ob.rules) : RuleMenu[ob.rules[k].t].tsp = 0}},
     lin |-> [q \in 1..6 |-> [k \in 1..Len(ob.lin[q]) |-> LinProj(ww, o, ob.lin[q][k])]]]
ItfProj(ww, i) ==
    LET it == ww.itfs[i] IN
    [m |-> it.m, kind |-> it.kind, x0 |-> ww.arrs[it.spA], pv |-> ww.arrs[it.parA], nrx |-> it.nrx, nsp |-> it.nsp,
     cur |-> it.cur, live |-> it.spA = ww.objs[it.m].spA /\ it.parA = ww.objs[it.m].parA]

\* ------------------------------------------------------------------ actions
Act(op, o, n, s, q, t) == [op |-> op, o |-> o, n |-> n, s |-> s, q |-> q, t |-> t]
NLin(ob) == Len(ob.lin[1]) + Len(ob.lin[2]) + Len(ob.lin[3]) + Len(ob.lin[4]) + Len(ob.lin[5]) + Len(ob.lin[6])
ItfKinds == IF Fam = "lineage" THEN {"plain", "safe", "lineage", "safelineage"} ELSE {"plain", "safe"}
ModeFits(mode, safe, kind) ==
    IF mode = "cell" THEN kind = (IF safe = "safe" THEN "safelineage" ELSE "lineage")
    ELSE kind = (IF safe = "safe" THEN "safe" ELSE "plain")
SafeChoices(mode) == IF mode = "det" THEN {""} ELSE {"", "safe"}

\* the candidate actions of one kind on object o (exhaustive mode takes them all, simulation draws one)
ActsOf(kind, o) ==
    LET ob == w.objs[o] IN
    CASE kind = "addsp"   -> {Act("addsp", o, 0, SpName(i), Zero, "") : i \in SpPick}
      [] kind = "addpar"  -> {Act("addpar", o, 0, p, Zero, "") : p \in ParPick}
      [] kind = "setpar"  -> {Act("setpar", o, 0, p, v, how) : p \in ParPick, v \in PVals, how \in {"set_parameter", "set_params"}}
      [] kind = "setsp"   -> {Act("setsp", o, 0, SpName(i), v, "") : i \in SpPick, v \in XVals}
      [] kind = "addrx"   -> {Act("addrx", o, t, "", Zero, "") : t \in {t \in RxPick : Len(ob.rx) < MaxRx /\ HasSpecies(w, o, RxNeeds(RxMenu[t]))}}
      [] kind = "addrule" -> {Act("addrule", o, u, "", Zero, "") : u \in {u \in RulePick : Len(ob.rules) < MaxRules /\ HasSpecies(w, o, RuleNeeds(RuleMenu[u]))}}
      [] kind = "addlin"  -> {Act("addlin", o, l, "", Zero, "") : l \in {l \in LinPick : ob.fam = "lineage" /\ NLin(ob) < MaxLin /\ HasSpecies(w, o, LinNeeds(LinMenu[l]))}}
      [] kind = "init"    -> {Act("init", o, 0, "", Zero, "")}
      [] kind = "build"   -> {Act("build", o, 0, "", Zero, k) : k \in {k \in ItfKinds : Len(w.itfs) < MaxItf}}
      [] kind = "sim"     -> {a \in {Act("sim", o, 0, sf, I(sd), m) : m \in SimModes, sf \in {"", "safe"}, sd \in Seeds \cup {0}} : a.s \in SafeChoices(a.t)}
      [] kind = "simitf"  -> {Act("sim", o, i, IF w.itfs[i].kind \in {"safe", "safelineage"} THEN "safe" ELSE "", I(sd), m) :
                                i \in {i \in DOMAIN w.itfs : w.itfs[i].m = o /\ ~(ob.init /\ ~w.itfs[i].cur)}, m \in SimModes, sd \in Seeds \cup {0}}
      [] kind = "pairsim" -> {a \in {Act("pairsim", o, p, sf, I(sd), m) :
                                   p \in {p \in DOMAIN w.objs : p # o /\ Sem(w, p) = Sem(w, o) /\ \A j \in 1..Len(ob.par) : ParVals(w, o)[j] # NaN},
                                   m \in SimModes, sf \in {"", "safe"}, sd \in Seeds} : a.s \in SafeChoices(a.t)}
      [] kind = "seed"    -> {Act("seed", 0, sd, "", Zero, "") : sd \in Seeds}
      [] kind = "copy"    -> {Act("copy", o, 0, "", Zero, k) : k \in {k \in {"pickle", "deepcopy"} : WithCopy /\ Len(w.objs) < MaxObj}}
Fits(a) == IF a.op = "sim" /\ a.n > 0
           THEN ModeFits(a.t, a.s, w.itfs[a.n].kind) /\ (a.t # "det" \/ a.s = "")
           ELSE IF a.op \in {"sim", "pairsim"} THEN (a.t # "cell" \/ w.objs[a.o].fam = "lineage") ELSE TRUE
Kinds == <<"addsp", "addpar", "setpar", "setsp", "addrx", "addrule", "addlin", "init", "build", "sim", "simitf", "pairsim", "seed", "copy">>

NoSim == [same |-> TRUE, cmp |-> FALSE, fresh |-> FALSE]
\* the effect of an action: [w, out, sim]
Apply(a) ==
    CASE a.op = "addsp"   -> [w |-> AddSp1(w, a.o, a.s), out |-> "ok", sim |-> NoSim]
      [] a.op = "addpar"  -> [w |-> AddPar1(w, a.o, a.s), out |-> "ok", sim |-> NoSim]
      [] a.op = "setpar"  -> [w |-> SetPar(w, a.o, a.s, a.q, a.t), out |-> "ok", sim |-> NoSim]
      [] a.op = "setsp"   -> [w |-> SetSp(w, a.o, a.s, a.q), out |-> "ok", sim |-> NoSim]
      [] a.op = "addrx"   -> [w |-> AddRx(w, a.o, a.n), out |-> "ok", sim |-> NoSim]
      [] a.op = "addrule" -> [w |-> AddRule(w, a.o, a.n), out |-> "ok", sim |-> NoSim]
      [] a.op = "addlin"  -> [w |-> AddLin(w, a.o, a.n), out |-> "ok", sim |-> NoSim]
      [] a.op = "init"    -> LET r == Init1(w, a.o) IN [w |-> r.w, out |-> r.out, sim |-> NoSim]
      [] a.op = "build"   -> LET r == Build(w, a.o, a.t) IN [w |-> r.w, out |-> r.out, sim |-> NoSim]
      [] a.op = "seed"    -> [w |-> Seed(w, a.n), out |-> "ok", sim |-> NoSim]
      [] a.op = "copy"    -> [w |-> CopyObj(w, a.o), out |-> "ok", sim |-> NoSim]
      \* two objects with the same meaning are simulated from the same seed, one after the other
      [] a.op = "pairsim" ->
            LET r1 == SimModel(Seed(w, a.q[1]), a.o, a.t, a.s = "safe")
                r2 == SimModel(Seed(r1.w, a.q[1]), a.n, a.t, a.s = "safe")
            IN [w |-> r2.w, out |-> IF r1.out # "ok" THEN r1.out ELSE r2.out,
                sim |-> [same |-> r1.read = r1.canon /\ r2.read = r2.canon,
                         cmp |-> r1.out = "ok" /\ r2.out = "ok" /\ AllVal(ParVals(w, a.o)) /\ AllVal(ParVals(w, a.n)),
                         fresh |-> TRUE]]
      [] a.op = "sim"     ->
            LET w0 == IF a.q[1] # 0 THEN Seed(w, a.q[1]) ELSE w
                r == IF a.n = 0 THEN SimModel(w0, a.o, a.t, a.s = "safe") ELSE SimItf(w0, a.n, a.t)
                ob == r.w.objs[a.o]
            IN [w |-> r.w, out |-> r.out,
                sim |-> [same |-> r.read = r.canon,
                         \* the outcome is claimed to be a function of the definition (and the seed)
                         cmp |-> r.out = "ok" /\ AssignedBy(ob) = {} /\ AllVal(ParVals(r.w, a.o)),
                         fresh |-> w0.gen.seed # 0 /\ w0.gen.n = 0]]

Touched(a, w2) == IF a.op = "seed" THEN << >> ELSE IF a.op = "copy" THEN <<a.o, Len(w2.objs)>>
                  ELSE IF a.op = "pairsim" THEN <<a.o, a.n>> ELSE <<a.o>>
StepRec(a, r, w2) ==
    [op |-> a.op, o |-> a.o, n |-> a.n, s |-> a.s, q |-> a.q, t |-> a.t, out |-> r.out, sim |-> r.sim,
     objs |-> [j \in 1..Len(Touched(a, w2)) |-> [o |-> Touched(a, w2)[j], p |-> Proj(w2, Touched(a, w2)[j])]],
     itfs |-> [i \in 1..Len(w2.itfs) |-> ItfProj(w2, i)], gen |-> w2.gen]

Step(a) ==
    LET r == Apply(a)
        w2 == Compact(r.w) IN
    /\ w' = w2
    /\ h' = Append(h, IF Mode = "mc" THEN [op |-> a.op] ELSE StepRec(a, r, w2))   \* model checking needs the length only
    /\ last' = [op |-> a.op, o |-> a.o, out |-> r.out, same |-> r.sim.same,
                keeps |-> IF a.op = "sim" /\ r.out = "ok" THEN SimKeeps(w, r.w, a.o)
                          ELSE IF a.op = "pairsim" /\ r.out = "ok" THEN SimKeeps(w, r.w, a.o) /\ SimKeeps(w, r.w, a.n) ELSE TRUE,
                others |-> IF a.op = "pairsim" THEN \A p \in DOMAIN w.objs \ {a.o, a.n} : Sem(r.w, p) = Sem(w, p)
                           ELSE IF a.o > 0 THEN OthersKeep(w, r.w, a.o) ELSE \A p \in DOMAIN w.objs : Sem(r.w, p) = Sem(w, p),
                copyeq |-> IF a.op = "copy" THEN Sem(r.w, Len(r.w.objs)) = Sem(w, a.o) /\ Sem(r.w, a.o) = Sem(w, a.o) ELSE TRUE,
                prefix |-> \A p \in DOMAIN w.objs : PrefixOf(w.objs[p].par, r.w.objs[p].par) /\ PrefixOf(w.objs[p].sp, r.w.objs[p].sp)]

AllActs == UNION {UNION {{a \in ActsOf(Kinds[k], o) : Fits(a)} : k \in 1..Len(Kinds)} : o \in DOMAIN w.objs}
GNextExh == /\ Len(h) < HLen
            /\ \E a \in AllActs : Step(a)

\* one random action: the kind is drawn with weights, then one of the enabled candidates of that kind
Weighted == <<"addsp", "addpar", "setpar", "setpar", "setsp", "setsp", "addrx", "addrx", "addrule", "addlin", "addlin",
              "init", "init", "build", "sim", "sim", "sim", "simitf", "simitf", "seed", "copy", "copy", "pairsim", "pairsim", "pairsim">>
GNextSim == /\ Len(h) < HLen
            /\ \E o \in {RandomElement(DOMAIN w.objs)} :
               LET Cand(k) == {a \in ActsOf(Weighted[k], o) : Fits(a)}
                   avail == {k \in 1..Len(Weighted) : Cand(k) # {}} IN
               \E k \in {RandomElement(avail)} : \E a \in {RandomElement(Cand(k))} : Step(a)

\* ------------------------------------------------------------------ initial world
RECURSIVE FoldOp(_, _, _)
FoldOp(ww, s, kind) ==
    IF s = << >> THEN ww
    ELSE FoldOp(CASE kind = "rx" -> AddRx(ww, 1, Head(s)) [] kind = "rule" -> AddRule(ww, 1, Head(s))
                  [] kind = "lin" -> AddLin(ww, 1, Head(s)) [] kind = "par" -> SetPar(ww, 1, Head(s)[1], Head(s)[2], "set_parameter")
                  [] kind = "x" -> SetSp(ww, 1, SpName(Head(s)[1]), Head(s)[2]),
                Tail(s), kind)
PreWorld ==
    LET w1 == AddSpSeq(WithNewObj(EmptyWorld, Fam), 1, SpNames(PreSp))
        w2 == FoldOp(FoldOp(FoldOp(w1, PreRx, "rx"), PreRules, "rule"), PreLin, "lin")
        w3 == FoldOp(FoldOp(w2, PreSet, "par"), [j \in 1..Len(PreSp) |-> <<PreSp[j], I(PreSp[j] + 2)>>], "x")
    IN Compact(IF PreInit THEN Init1(w3, 1).w ELSE w3)
NoLast == [op |-> "", o |-> 0, out |-> "ok", same |-> TRUE, keeps |-> TRUE, others |-> TRUE, copyeq |-> TRUE, prefix |-> TRUE]
GInit == w = PreWorld /\ h = << >> /\ last = NoLast
GSpecExh == GInit /\ [][GNextExh]_vars
GSpecSim == GInit /\ [][GNextSim]_vars

\* ------------------------------------------------------------------ properties (M)
InvCurrent == InitialisedMeansCurrent(w)
InvAccepted == AcceptedSeesModel(w)
InvDisjoint == ArraysDisjoint(w)
\* transition properties (evaluated on every step, also on steps into states already seen):
\* a simulation reads what the definition says, and leaves the definition alone
PropSimRead == [][last'.same]_vars
PropSimKeeps == [][last'.keeps]_vars
\* an action on one object never changes the meaning of another; a copy has the meaning of its original
PropIndependent == [][last'.others]_vars
PropCopy == [][last'.copyeq]_vars
\* species and parameter indices are never re-used or shifted
PropPrefix == [][last'.prefix]_vars
\* a successful initialisation makes the vectors current
PropInit == [][(last'.op = "init" /\ last'.out = "ok") => VectorsCurrent(w', last'.o)]_vars
\* the history is left out of the fingerprint, its length is kept: every history up to the bound is explored
\* (a world reached first by a longer history must not hide what a shorter one can still do)
View == <<w, Len(h)>>

\* ------------------------------------------------------------------ emission
EncSlots(s) == [j \in 1..Len(s) |-> s[j]]
EncRx(T) == [re |-> T.re, pr |-> T.pr, dre |-> T.dre, dpr |-> T.dpr, ptype |-> T.ptype, cls |-> T.cls, s1 |-> T.s1, d |-> T.d,
             slots |-> T.slots, nord |-> T.nord, expr |-> Enc(T.expr), dtype |-> T.dtype, dcls |-> T.dcls, dslots |-> T.dslots,
             stoich |-> [i \in 1..NSp |-> RL!Count(T.pr, i) - RL!Count(T.re, i)],
             dstoich |-> [i \in 1..NSp |-> RL!Count(T.dpr, i) - RL!Count(T.dre, i)]]
EncRule(T) == [rtype |-> T.rtype, freq |-> T.freq, tsp |-> T.tsp, tpar |-> T.tpar, expr |-> Enc(T.expr), pars |-> T.pars]
EncLin(T) == [kind |-> T.kind, ltype |-> T.ltype, cls |-> T.cls, slots |-> T.slots, expr |-> Enc(T.expr), sp |-> T.sp,
              prop |-> T.prop, split |-> T.split]
Menu == [menu |-> TRUE, nsp |-> NSp,
         rx |-> [t \in 1..Len(RxMenu) |-> EncRx(RxMenu[t])],
         rules |-> [u \in 1..Len(RuleMenu) |-> EncRule(RuleMenu[u])],
         lin |-> [l \in 1..Len(LinMenu) |-> EncLin(LinMenu[l])],
         split |-> SplitMenu, kinds |-> LinKinds,
         probe |-> [x |-> Probe.x, t |-> Probe.t, V |-> Probe.V, dt |-> DT]]
EmitMenu == (Len(h) = 0) => PrintT(ToJson(Menu))
Emit == (Len(h) = HLen) =>
    PrintT(ToJson([fam |-> Fam, pre |-> [sp |-> PreSp, rx |-> PreRx, rules |-> PreRules, lin |-> PreLin, set |-> PreSet, init |-> PreInit],
                   start |-> Proj(PreWorld, 1), steps |-> h]))

\* ------------------------------------------------------------------ constant definitions for the cfg files
NoPre == << >>
SpAll == 1..4
Sp12 == {1, 2}
Sp123 == {1, 2, 3}
ParC08 == {"k1", "k2"}
ParC17 == {"k1", "k2", "dm", "g"}
XV1 == {I(4)}
XV2 == {I(0), I(6)}
PV1 == {I(2)}
PV2 == {I(1), R(1, 2), I(3)}
ModesPlain == {"det", "sto", "vol", "delay", "dvol"}      \* dvol: delay + volume simulator
ModesSmall == {"det", "sto"}
ModesDet == {"det"}
ModesSto == {"sto"}
ModesCell == {"cell"}
RxOne == {1}
ParK1 == {"k1"}
PreSp123 == <<1, 2, 3>>
PreRx1 == <<1>>
PreRules1 == <<1>>
ModesLin == {"sto", "cell"}
ModesLinAll == {"det", "sto", "vol", "delay", "dvol", "cell"}
Seeds1 == {7}
Seeds2 == {7, 11}
\* C08 exhaustive alphabet: 2 reactions, 2 parameters, 1 rule
RxSmall == {1, 2}
RuleSp == {1}
RulePar == {2}
RuleBoth == {1, 2}
RuleAll == 1..6
RxAll == 1..9
RxLinSmall == {1, 13}
LinSmall == {3, 5, 8}
LinAll == 1..16
None == {}
\* C17 start objects: every propensity / delay / rule type
PreSpAll == <<1, 2, 3, 4>>
PreRxAll == <<1, 2, 3, 4, 5, 6, 7, 8, 9>>
PreRulesAll == <<1, 3, 4, 5>>
PreSetAll == <<<<"k1", I(1)>>, <<"k2", I(3)>>, <<"dm", R(1, 2)>>>>
PreRxLin == <<13, 1, 2, 9>>
PreRxLin0 == <<13>>
PreRulesLin == <<1, 4>>
PreLinAll == <<1, 2, 3, 4, 5, 6, 7, 8, 9, 10, 11, 12, 13, 14, 15, 16>>
\* two growing / dividing lineage models for the result objects (trees produced by py_SimulateCellLineage)
PreLinTreeA == <<1, 6, 12, 16>>
PreLinTreeB == <<2, 5, 7, 13>>
PreSetTree == <<<<"k1", I(1)>>, <<"k2", I(3)>>, <<"g", R(1, 4)>>, <<"vdiv", I(2)>>, <<"gm", R(1, 10)>>, <<"ke", R(1, 100)>>>>
PreSetLin == <<<<"k1", I(1)>>, <<"k2", I(3)>>, <<"g", R(1, 4)>>, <<"vdiv", I(3)>>, <<"gm", R(1, 10)>>, <<"ke", R(1, 100)>>>>
=============================================================================
