-------------------------------- MODULE Ode --------------------------------
(***************************************************************************)
(* Closed-form solution families of the rate equations dx/dt = S rate(x,t) *)
(* (C04) with CERTIFICATES checked by TLC, so that the oracle is not a     *)
(* second numerical integrator:                                            *)
(*  F1  rates that depend on t only (zero-order mass action, mass action   *)
(*      with constant catalysts, a Hill law on a constant regulator,       *)
(*      general rates k*t, k*t^2):  x(t) = x0 + S * integral, polynomials; *)
(*  F2  first-order feed-forward (triangular) networks with pairwise       *)
(*      distinct exit rates: x_i(t) = SUM_j c_ij exp(-a_j t) by forward    *)
(*      substitution;                                                      *)
(*  F3  2A -> 0, 2A -> B, A + B -> C with equal initial amounts: rational  *)
(*      functions p_i(t) / (1 + alpha t);                                  *)
(*  F4  0 -> X at the general rate k*exp(-c t): x0 + s (k/c)(1 - e^(-ct)). *)
(*  F5  F2 with a replicating first species (X -> 2X on top of the feed-   *)
(*      forward reactions): the first exit rate is negative, the solution  *)
(*      GROWS like exp(g t); on a grid with a long gap the integrator      *)
(*      needs more internal steps than its first budget allows;            *)
(* Delayed reactants / products are part of every family and count "as if  *)
(* the delay were zero": net = immediate + delayed stoichiometry.          *)
(*                                                                         *)
(* A block is a record [fam, ns, x0, rx, ...]; a reaction of a block is    *)
(*   [re, pr, dre, dpr, kind, k, K, n, s1, e, rp]                          *)
(* kind \in {"massaction", "hillpositive", "hillnegative", "general"};     *)
(* e the Expr tree of a general rate.  Rate(rx, x, t) is the rate as C01 / *)
(* C02 define it (RateLaws!Det, Expr!Eval) - the certificates evaluate the *)
(* residual  x'(t) - SUM_r Net_r * Rate_r(x(t), t)  through these          *)
(* definitions at enough sample times to make it an identity: a residual   *)
(* that is a polynomial of degree <= 3 (times a fixed denominator) and     *)
(* vanishes at 5 times is zero; an exponential sum whose exponents are     *)
(* pairwise distinct vanishes at one time t # 0 as a symbolic value only   *)
(* if every coefficient is zero.                                           *)
(***************************************************************************)
EXTENDS Expr

RL == INSTANCE RateLaws

Count(s, x) == RL!Count(s, x)
Net(rx, s) == (Count(rx.pr, s) - Count(rx.re, s)) + (Count(rx.dpr, s) - Count(rx.dre, s))
NoTree == ENum(Zero)
MkRxP(re, pr, dre, dpr, kind, k, K, n, s1, e, rp) ==
    [re |-> re, pr |-> pr, dre |-> dre, dpr |-> dpr, kind |-> kind, k |-> k, K |-> K, n |-> n, s1 |-> s1, e |-> e, rp |-> rp]
MkRx(re, pr, dre, dpr, kind, k, K, n, s1, e) == MkRxP(re, pr, dre, dpr, kind, k, K, n, s1, e, <<Zero>>)
LawOf(rx) == [type |-> rx.kind, re |-> rx.re, k |-> rx.k, K |-> rx.K, n |-> rx.n, s1 |-> rx.s1, d |-> rx.s1]
\* rate at a rational state x and time t, as a rational
RateQ(rx, x, t) ==
    IF rx.kind = "general" THEN RatOf(Eval(rx.e, [x |-> x, p |-> << >>, t |-> t, V |-> One]).v)
    ELSE RL!Det(LawOf(rx), x)
\* ... and as a symbolic value (general rates with exp)
RateS(rx, x, t) == IF rx.kind = "general" THEN Eval(rx.e, [x |-> x, p |-> << >>, t |-> t, V |-> One]).v
                   ELSE SConst(RL!Det(LawOf(rx), x))

\* ---------------------------------------------------------------- polynomials in t: <<c_0, c_1, ...>>
PGet(p, k) == IF k + 1 <= Len(p) THEN p[k + 1] ELSE Zero
PLen(p, q) == IF Len(p) > Len(q) THEN Len(p) ELSE Len(q)
PAdd(p, q) == [k \in 1..PLen(p, q) |-> RAdd(PGet(p, k - 1), PGet(q, k - 1))]
PScale(c, p) == [k \in 1..Len(p) |-> RMul(c, p[k])]
PSub(p, q) == PAdd(p, PScale(I(-1), q))
RECURSIVE PConvSum(_, _, _, _)
PConvSum(p, q, m, k) == IF k > m THEN Zero ELSE RAdd(RMul(PGet(p, k), PGet(q, m - k)), PConvSum(p, q, m, k + 1))
PMul(p, q) == [m \in 1..(Len(p) + Len(q) - 1) |-> PConvSum(p, q, m - 1, 0)]
PDeriv(p) == IF Len(p) = 1 THEN <<Zero>> ELSE [k \in 1..(Len(p) - 1) |-> RMul(I(k), p[k + 1])]
PInt(p) == [k \in 1..(Len(p) + 1) |-> IF k = 1 THEN Zero ELSE RDiv(p[k - 1], I(k - 1))]     \* zero at t = 0
RECURSIVE PEvalFrom(_, _, _)
PEvalFrom(p, t, k) == IF k > Len(p) THEN Zero ELSE RAdd(p[k], RMul(t, PEvalFrom(p, t, k + 1)))   \* Horner
PEval(p, t) == PEvalFrom(p, t, 1)
PIsZero(p) == \A k \in 1..Len(p) : p[k] = Zero
RECURSIVE PSumSeq(_)
PSumSeq(ps) == IF ps = << >> THEN <<Zero>> ELSE PAdd(Head(ps), PSumSeq(Tail(ps)))

SampleTimes == {R(1, 4), R(1, 2), I(1), R(3, 2), I(3)}

\* ================================================================ F1: rates depending on t only
\* block: [fam |-> "F1", ns, x0, rx]; rx[r].rp = the rate of reaction r as a polynomial in t (the state enters only
\* through species no reaction changes, so the rate along the solution is a function of t)
Sol1(b) == [i \in 1..b.ns |->
              PAdd(<<b.x0[i]>>, PSumSeq([r \in 1..Len(b.rx) |-> PScale(I(Net(b.rx[r], i)), PInt(b.rx[r].rp))]))]
State1(b, t) == [i \in 1..b.ns |-> PEval(Sol1(b)[i], t)]
Cert1(b) ==
    LET sol == Sol1(b) IN
    /\ \A i \in 1..b.ns : PEval(sol[i], Zero) = b.x0[i]
    \* coefficient-wise: d/dt of the solution is S * (rate polynomials)
    /\ \A i \in 1..b.ns : PIsZero(PSub(PDeriv(sol[i]), PSumSeq([r \in 1..Len(b.rx) |-> PScale(I(Net(b.rx[r], i)), b.rx[r].rp)])))
    \* the rate polynomials are the rates C01/C02 define, evaluated ALONG the solution (5 times, degree <= 2)
    /\ \A t \in SampleTimes \cup {Zero}, r \in 1..Len(b.rx) : RateQ(b.rx[r], State1(b, t), t) = PEval(b.rx[r].rp, t)

\* ================================================================ F2: first-order feed-forward networks
\* block: [fam |-> "F2", ns, x0, rx]; every reaction is unimolecular mass action  src -> products, products (immediate
\* or delayed) among the species after src, or src itself (catalytic production)
Src(rx) == rx.re[1]
AMat(b) == [i \in 1..b.ns |-> [m \in 1..b.ns |->
              RSumSeq([r \in 1..Len(b.rx) |-> IF Src(b.rx[r]) = m THEN RMul(I(Net(b.rx[r], i)), b.rx[r].k) ELSE Zero])]]
ExitRate(b, i) == RNeg(AMat(b)[i][i])
IsTriangular(b) == LET A == AMat(b) IN
    /\ \A i, m \in 1..b.ns : m > i => A[i][m] = Zero
    /\ \A i, j \in 1..b.ns : i # j => ExitRate(b, i) # ExitRate(b, j)
IsFeedForward(b) == IsTriangular(b) /\ \A i \in 1..b.ns : RLe(Zero, ExitRate(b, i))
\* F5: the first species replicates faster than it is used up
IsGrowing(b) == IsTriangular(b) /\ RLt(ExitRate(b, 1), Zero) /\ \A i \in 2..b.ns : RLe(Zero, ExitRate(b, i))
\* c[i][j]: coefficient of exp(-a_j t) in x_i; forward substitution
RECURSIVE CRow(_, _, _)
CRow(b, A, i) ==       \* rows 1..i
    IF i = 0 THEN << >>
    ELSE LET prev == CRow(b, A, i - 1)
             off == [j \in 1..(i - 1) |->
                        RDiv(RSumSeq([m \in 1..(i - 1) |-> IF m >= j THEN RMul(A[i][m], prev[m][j]) ELSE Zero]),
                             RSub(ExitRate(b, i), ExitRate(b, j)))]
             diag == RSub(b.x0[i], RSumSeq(off))
         IN Append(prev, [j \in 1..b.ns |-> IF j < i THEN off[j] ELSE IF j = i THEN diag ELSE Zero])
CMat(b) == CRow(b, AMat(b), b.ns)
RECURSIVE SSumSeq(_)
SSumSeq(s) == IF s = << >> THEN Empty ELSE SAdd(Head(s), SSumSeq(Tail(s)))
ExpSum(coefs, rates, t) == SSumSeq([j \in 1..Len(coefs) |-> SScale(coefs[j], Exp(RNeg(RMul(rates[j], t))))])
Rates2(b) == [j \in 1..b.ns |-> ExitRate(b, j)]
State2(b, t) == LET C == CMat(b) IN [i \in 1..b.ns |-> ExpSum(C[i], Rates2(b), t)]
DState2(b, t) == LET C == CMat(b) IN
    [i \in 1..b.ns |-> ExpSum([j \in 1..b.ns |-> RNeg(RMul(ExitRate(b, j), C[i][j]))], Rates2(b), t)]
\* net rate equations on symbolic states: SUM_r Net_r[i] k_r x_src(r)
Deriv2(b, xs) == [i \in 1..b.ns |-> SSumSeq([r \in 1..Len(b.rx) |-> SScale(RMul(I(Net(b.rx[r], i)), b.rx[r].k), xs[Src(b.rx[r])])])]
Cert2(b) ==
    /\ IsFeedForward(b)
    /\ \A i \in 1..b.ns : State2(b, Zero)[i] = SConst(b.x0[i])
    \* exponent-wise: one time t # 0 suffices because the exit rates are pairwise distinct
    /\ \A t \in {R(1, 2), I(1)} : DState2(b, t) = Deriv2(b, State2(b, t))
Cert5(b) ==
    /\ IsGrowing(b)
    /\ \A i \in 1..b.ns : State2(b, Zero)[i] = SConst(b.x0[i])
    /\ \A t \in {R(1, 2), I(1)} : DState2(b, t) = Deriv2(b, State2(b, t))
\* if every reaction turns one molecule into exactly one molecule the total is conserved
Conservative2(b) == \A r \in 1..Len(b.rx) : LET rx == b.rx[r] IN Len(rx.pr) + Len(rx.dpr) = 1 + (Len(rx.re) - 1) + Len(rx.dre)
Conserved2(b) == Conservative2(b) =>
    \A t \in {I(1), R(5, 2)} : SSumSeq(State2(b, t)) = SConst(RSumSeq(b.x0))

\* ================================================================ F3: second-order decay with equal amounts
\* block: [fam |-> "F3", var, ns, x0, rx]; solution x_i(t) = num_i(t) / (1 + alpha t)
\*   "2A->0":  A' = -2 k A^2            alpha = 2 k A0     A = A0 / q
\*   "2A->B":  + B' = k A^2                                B = B0 + (A0 - A)/2  = (B0 q + k A0^2 t) / q
\*   "A+B->C": A' = B' = -k A B, A0 = B0: alpha = k A0     A = B = A0 / q,  C = C0 + A0 - A = (C0 q + k A0^2 t) / q
Den3(b) == <<One, IF b.var = "A+B->C" THEN RMul(b.rx[1].k, b.x0[1]) ELSE RMul(I(2), RMul(b.rx[1].k, b.x0[1]))>>
Num3(b) ==
    LET A0 == b.x0[1]  k == b.rx[1].k  q == Den3(b)  gain == <<Zero, RMul(k, RMul(A0, A0))>> IN
    CASE b.var = "2A->0" -> <<<<A0>>>>
      [] b.var = "2A->B" -> <<<<A0>>, PAdd(PScale(b.x0[2], q), gain)>>
      [] b.var = "A+B->C" -> <<<<A0>>, <<A0>>, PAdd(PScale(b.x0[3], q), gain)>>
State3(b, t) == [i \in 1..b.ns |-> RDiv(PEval(Num3(b)[i], t), PEval(Den3(b), t))]
\* d/dt (p/q) = (p' q - p q') / q^2
DState3(b, t) == LET q == Den3(b) IN
    [i \in 1..b.ns |-> LET p == Num3(b)[i] IN
        RDiv(PEval(PSub(PMul(PDeriv(p), q), PMul(p, PDeriv(q))), t), RMul(PEval(q, t), PEval(q, t)))]
Deriv3(b, x, t) == [i \in 1..b.ns |-> RSumSeq([r \in 1..Len(b.rx) |-> RMul(I(Net(b.rx[r], i)), RateQ(b.rx[r], x, t))])]
Cert3(b) ==
    /\ (b.var = "A+B->C" => b.x0[1] = b.x0[2])
    /\ State3(b, Zero) = b.x0
    \* (p' q - p q') - S k p_a p_b is a polynomial of degree <= 2: five times make the identity
    /\ \A t \in SampleTimes : DState3(b, t) = Deriv3(b, State3(b, t), t)
Conserved3(b) == \A t \in SampleTimes :
    LET x == State3(b, t) IN
    CASE b.var = "2A->0" -> TRUE
      [] b.var = "2A->B" -> RAdd(x[1], RMul(I(2), x[2])) = RAdd(b.x0[1], RMul(I(2), b.x0[2]))
      [] b.var = "A+B->C" -> /\ x[1] = x[2] /\ RAdd(x[1], x[3]) = RAdd(b.x0[1], b.x0[3])

\* ================================================================ F4: 0 -> X at rate k exp(-c t)
\* block: [fam |-> "F4", ns, x0, rx, k, c]; x_i(t) = x0_i + s_i (k/c) (1 - exp(-c t)), s_i the net count
State4(b, t) == [i \in 1..b.ns |->
    LET g == RMul(I(Net(b.rx[1], i)), RDiv(b.k, b.c)) IN
    SAdd(SConst(RAdd(b.x0[i], g)), SScale(RNeg(g), Exp(RNeg(RMul(b.c, t)))))]
DState4(b, t) == [i \in 1..b.ns |-> SScale(RMul(I(Net(b.rx[1], i)), b.k), Exp(RNeg(RMul(b.c, t))))]
Cert4(b) ==
    /\ \A i \in 1..b.ns : State4(b, Zero)[i] = SConst(b.x0[i])
    \* the rate tree means k exp(-c t), and the residual vanishes exponent-wise
    /\ \A t \in {R(1, 2), I(2)} :
          /\ RateS(b.rx[1], b.x0, t) = SScale(b.k, Exp(RNeg(RMul(b.c, t))))
          /\ \A i \in 1..b.ns : DState4(b, t)[i] = SScale(I(Net(b.rx[1], i)), RateS(b.rx[1], b.x0, t))

\* ================================================================ common interface
Cert(b) == CASE b.fam = "F1" -> Cert1(b) [] b.fam = "F2" -> Cert2(b) /\ Conserved2(b)
             [] b.fam = "F3" -> Cert3(b) /\ Conserved3(b) [] b.fam = "F4" -> Cert4(b) [] b.fam = "F5" -> Cert5(b)
\* state at time t as symbolic values
StateAt(b, t) == CASE b.fam = "F1" -> [i \in 1..b.ns |-> SConst(State1(b, t)[i])]
                   [] b.fam = "F2" -> State2(b, t)
                   [] b.fam = "F3" -> [i \in 1..b.ns |-> SConst(State3(b, t)[i])]
                   [] b.fam = "F4" -> State4(b, t)
                   [] b.fam = "F5" -> State2(b, t)
=============================================================================
