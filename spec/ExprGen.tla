------------------------------ MODULE ExprGen ------------------------------
(***************************************************************************)
(* Postfix stack machine for C02.  Trees are BUILT BY ACTIONS: Push(leaf), *)
(* ApplyUn(op), ApplyBin(op), Finish.  Every stack entry carries its tree, *)
(* its exact value (volume reads 1), its exact volume-value and its depth. *)
(* An action whose result would not be finite / exactly representable at   *)
(* the chosen environment is disabled ("for every ... at which it is       *)
(* finite"), so every reachable entry has the status "ok" (a value is      *)
(* demanded) or "rej" (the model must refuse the expression).              *)
(*                                                                         *)
(* Mode "exh": breadth-first, every tree of depth <= MaxDepth over Leaves; *)
(* Mode "sim": -simulate, random environment / leaves / operators.         *)
(*                                                                         *)
(* A rejected tree has exactly ONE unknown name or unsupported function,   *)
(* placed so that no algebraic identity can make it vanish (the parser     *)
(* simplifies: foo - foo, 0*foo, foo^0, min(|foo|, -1) lose the name and   *)
(* are mathematically well defined; such trees are not generated): it is   *)
(* combined with leaves by * / ^, with anything by + -, and wrapped by     *)
(* neg / exp / log only.                                                   *)
(***************************************************************************)
EXTENDS Expr, Json, Randomization

CONSTANTS Mode,                  \* "exh" | "sim"
          MaxDepth, MaxStack,
          Leaves,                \* leaf alphabet
          UnChoice, BinChoice,   \* operator alphabets (may include the unsupported functions)
          EnvSet,                \* environments of the exhaustive mode
          SampleK, SampleR       \* emit a finished tree iff Hash(tree) % SampleK = SampleR   (1, 0: all)

VARIABLES env, stack, pc
vars == <<env, stack, pc>>

NS == 3
NP == 3
Pick(S) == IF Mode = "sim" THEN {RandomElement(S)} ELSE S
Pick2(S) == IF Mode = "sim" THEN RandomSubset(2, S) ELSE S     \* two candidates: fewer dead ends

\* ---------------------------------------------------------------- environments and alphabets
MkEnv(x, p, t, V) == [x |-> x, p |-> p, t |-> t, V |-> V]
Env1 == MkEnv(<<I(2), I(3), R(1, 2)>>, <<R(1, 2), I(2), I(-3)>>, R(1, 4), I(2))
Env2 == MkEnv(<<I(0), I(1), R(5, 2)>>, <<I(3), R(1, 10), I(1)>>, I(2), R(1, 2))
Env3 == MkEnv(<<I(-2), I(1), R(-3, 2)>>, <<I(2), R(1, 2), I(1)>>, I(1), R(3, 2))
ExhEnvs == {Env1, Env2, Env3}
ExhEnv1 == {Env1}
\* species values include negative ones: a read-out species kept at A - B by a rule, or a state handed to
\* py_get_propensity, may be negative, and abs / min / max / Heaviside must not be simplified away
XG == {I(0), I(1), I(2), I(3), I(5), R(1, 2), R(5, 2), R(1, 4), I(10), I(-2), R(-3, 2)}
PG == {I(1), I(2), I(3), R(1, 2), R(1, 10), R(3, 2), I(-1), R(-1, 2), I(4)}
TG == {I(0), R(1, 4), I(1), R(5, 2), I(8)}
VG == {R(1, 2), I(1), I(2), I(3), R(3, 2)}
\* (random definitions take a state-dependent dummy argument: TLC evaluates a constant-level definition
\*  without parameters ONCE and would reuse the same "random" value for the whole run)
RandomEnv(dummy) == MkEnv([i \in 1..NS |-> RandomElement(XG)], [j \in 1..NP |-> RandomElement(PG)],
                   RandomElement(TG), RandomElement(VG))
NoEnv == MkEnv([i \in 1..NS |-> One], [j \in 1..NP |-> One], Zero, One)

NumsFull == {I(0), I(1), I(2), I(3), R(1, 2), I(-1), R(5, 2), R(1, 10), R(-3, 2), R(1, 3)}
Idents == {ESp(i) : i \in 1..NS} \cup {EPar(j) : j \in 1..NP} \cup {ET, EVol}
LeavesFull == {ENum(q) : q \in NumsFull} \cup Idents \cup {EUnknown("foo")}
LeavesSmall == {ENum(I(2)), ESp(1), EPar(1), EVol}
LeavesSmallT == {ENum(I(2)), ESp(1), EPar(1), ET, EVol}
UnsupUn == {"sin", "floor", "factorial"}
UnsupBin == {"lt", "ge"}
UnAll == UnOps \cup UnsupUn
BinAll == BinOps \cup UnsupBin

\* ---------------------------------------------------------------- entries
IsRej(en) == en.v.st = "rej"
LeafEntry(l) == [e |-> l, v |-> Eval(l, env), w |-> VolEval(l, env), d |-> 0]
UnEntry(op, a) ==
    IF op \in UnsupUn
    THEN [e |-> EUnsup(op, <<a.e>>), v |-> Worse(BadV("rej"), a.v), w |-> Worse(BadV("rej"), a.w), d |-> a.d + 1]
    ELSE [e |-> EUn(op, a.e), v |-> Ap1(op, a.v), w |-> Ap1(op, a.w), d |-> a.d + 1]
BinEntry(op, a, b) ==
    LET dd == 1 + (IF a.d > b.d THEN a.d ELSE b.d) IN
    IF op \in UnsupBin
    THEN [e |-> EUnsup(op, <<a.e, b.e>>), v |-> Worse(BadV("rej"), Worse(a.v, b.v)),
          w |-> Worse(BadV("rej"), Worse(a.w, b.w)), d |-> dd]
    ELSE [e |-> EBin(op, a.e, b.e), v |-> Ap2(op, a.v, b.v), w |-> Ap2(op, a.w, b.w), d |-> dd]

\* generated values stay moderate (conditioning of the float evaluation they are compared with)
GenBound == 3000
GenSmall(val) == IF val.st # "ok" THEN TRUE
                 ELSE \A a \in DOMAIN val.v : AbsI(val.v[a][1]) <= GenBound /\ val.v[a][2] <= GenBound
Keep(en) == /\ en.v.st \in {"ok", "rej"} /\ en.w.st = en.v.st
            /\ GenSmall(en.v) /\ GenSmall(en.w) /\ en.d <= MaxDepth

\* where an unknown name / unsupported function may sit (see the module comment)
HasRej == \E i \in 1..Len(stack) : IsRej(stack[i])
IdentLeaf(e) == e.k \in IdentKinds
NumLeaf(e) == e.k = "num"
NzNumLeaf(e) == e.k = "num" /\ e.q # Zero
Plain(e) == IdentLeaf(e) \/ NzNumLeaf(e)
SafeArg(e) == IF IdentLeaf(e) THEN TRUE
              ELSE IF e.k \in {"add", "mul"}
                   THEN Plain(e.a[1]) /\ Plain(e.a[2]) /\ (IdentLeaf(e.a[1]) \/ IdentLeaf(e.a[2]))
                   ELSE FALSE
Rarely(dummy) == IF Mode = "sim" THEN RandomElement(1..3) = 1 ELSE TRUE
OkUn(op, a) == IF op \in UnsupUn THEN ~HasRej /\ SafeArg(a.e) /\ Rarely(a)
               ELSE IF IsRej(a) THEN op \in {"neg", "exp", "log"}
               ELSE TRUE
\* a negative base is only raised to a LITERAL integer: an exponent that is an integer only after exact
\* cancellation (log(exp(1/4)) / log(exp(t)) at t = 1/4) is 1.0000000000000002 in floating point, and a negative
\* number to that power is not a real number - a tie the generators avoid like Heaviside at 0
\* "possibly negative": a negative rational, or an exp monomial c * exp(q) with c < 0 (e.g. -exp(B)); any other
\* non-rational value cannot be signed exactly and is treated as possibly negative too
NegRat(val) == val.st = "ok" /\ (IF IsRational(val.v) THEN RatOf(val.v)[1] < 0
                                ELSE IF ExpMono(val.v) THEN MonoC(val.v)[1] < 0 ELSE TRUE)
LiteralInt(e) == IF e.k = "num" THEN e.q[2] = 1
                 ELSE IF e.k = "neg" THEN e.a[1].k = "num" /\ e.a[1].q[2] = 1 ELSE FALSE
PowSafe(op, a, b) == IF op = "pow" /\ (NegRat(a.v) \/ NegRat(a.w)) THEN LiteralInt(b.e) ELSE TRUE
OkBin(op, a, b) ==
    IF ~PowSafe(op, a, b) THEN FALSE ELSE
    IF op \in UnsupBin
    THEN ~HasRej /\ Rarely(a) /\ (SafeArg(a.e) \/ NumLeaf(a.e)) /\ (SafeArg(b.e) \/ NumLeaf(b.e))
         /\ (SafeArg(a.e) \/ SafeArg(b.e))
    ELSE IF IsRej(a) /\ IsRej(b) THEN FALSE
    ELSE IF IsRej(a)
         THEN (IF op \in {"add", "sub"} THEN TRUE
               ELSE IF op \in {"mul", "div"} THEN Plain(b.e)
               ELSE IF op = "pow" THEN NzNumLeaf(b.e) /\ b.e.q[2] = 1
               ELSE FALSE)
    ELSE IF IsRej(b)
         THEN (IF op \in {"add", "sub"} THEN TRUE
               ELSE IF op \in {"mul", "div"} THEN Plain(a.e)
               ELSE IF op = "pow" THEN IdentLeaf(a.e) \/ (NzNumLeaf(a.e) /\ a.e.q # One)
               ELSE FALSE)
    ELSE TRUE

\* a stack that can still be folded into one tree of depth <= MaxDepth: folding [s1 .. sn] nests s_i
\* (i < n) under i more operators and s_n under n - 1
Feasible(st) == LET n == Len(st) IN
    IF n <= 1 THEN TRUE
    ELSE \A i \in 1..n : st[i].d + (IF i = n THEN n - 1 ELSE i) <= MaxDepth

\* random leaf of the simulation mode: 3/10 numbers, 6/10 identifiers, 1/10 an unknown name
NumsSim == NumsFull \cup {I(4), R(3, 2), R(1, 4), I(-2)}
SimLeaf(dummy) == LET r == RandomElement(1..10) IN
           IF r <= 3 THEN ENum(RandomElement(NumsSim))
           ELSE IF r = 10 /\ RandomElement(1..2) = 1 THEN EUnknown(RandomElement({"foo", "zq", "u_7"}))
           ELSE RandomElement(Idents)

\* ---------------------------------------------------------------- machine
Init == env = NoEnv /\ stack = << >> /\ pc = "env"

PickEnv == /\ pc = "env"
           /\ \E en \in (IF Mode = "sim" THEN {RandomEnv(pc)} ELSE EnvSet) : env' = en
           /\ pc' = "build" /\ stack' = stack

Push == /\ pc = "build" /\ Len(stack) < MaxStack
        /\ (Feasible(Append(stack, LeafEntry(ENum(One))))) = TRUE
        /\ \E l \in (IF Mode = "sim" THEN {SimLeaf(stack)} ELSE Leaves) :
              /\ (IF l.k = "unknown" THEN ~HasRej ELSE TRUE) = TRUE
              /\ stack' = Append(stack, LeafEntry(l))
        /\ UNCHANGED <<env, pc>>

ApplyUn == /\ pc = "build" /\ Len(stack) >= 1
           /\ \E op \in Pick2(UnChoice) :
                LET n == Len(stack)
                    new == UnEntry(op, stack[n]) IN
                /\ (OkUn(op, stack[n]) /\ Keep(new) /\ Feasible(Append(SubSeq(stack, 1, n - 1), new))) = TRUE
                /\ stack' = Append(SubSeq(stack, 1, n - 1), new)
           /\ UNCHANGED <<env, pc>>

ApplyBin == /\ pc = "build" /\ Len(stack) >= 2
            /\ \E op \in Pick2(BinChoice) :
                 LET n == Len(stack)
                     new == BinEntry(op, stack[n - 1], stack[n]) IN
                 /\ (OkBin(op, stack[n - 1], stack[n]) /\ Keep(new)) = TRUE
                 /\ stack' = Append(SubSeq(stack, 1, n - 2), new)
            /\ UNCHANGED <<env, pc>>

Finish == /\ pc = "build" /\ Len(stack) = 1
          /\ IF Mode = "exh" THEN TRUE
             ELSE IF stack[1].d >= MaxDepth THEN TRUE
             ELSE IF stack[1].d = 0 THEN FALSE
             ELSE RandomElement(1..4) = 1
          /\ pc' = "done" /\ UNCHANGED <<env, stack>>

Next == PickEnv \/ Push \/ ApplyUn \/ ApplyBin \/ Finish
Spec == Init /\ [][Next]_vars

\* ---------------------------------------------------------------- what TLC checks (M)
HasTop == Len(stack) >= 1
Top == stack[Len(stack)]
TopOk == HasTop /\ Top.v.st = "ok"
Q(val) == RatOf(val.v)

\* the compositional values of the machine are the recursive meaning; every entry is "ok" or "rej"
Compositional == HasTop => /\ Top.v = Eval(Top.e, env) /\ Top.w = VolEval(Top.e, env)
                           /\ Top.v.st \in {"ok", "rej"} /\ Top.w.st = Top.v.st
                           /\ Top.d = Depth(Top.e)
                           /\ (Top.v.st = "ok" <=> Defined(Top.e, env))
\* with V = 1 the volume reading is the plain reading; without 'volume' both readings agree
UnitVolume == TopOk => /\ VolEval(Top.e, [env EXCEPT !.V = One]) = Top.v
                       /\ (~Mentions(Top.e, <<"vol", 0>>) => Top.v = Top.w)
OkEq(val, en) == val.st = "ok" => val = en
Algebra == TopOk =>
    LET e == Top.e  v == Top.v IN
    /\ e.k = "sub" => v = Eval(EBin("add", e.a[1], EUn("neg", e.a[2])), env)
    /\ e.k \in {"min", "max"} =>
          LET mn == Eval(EBin("min", e.a[1], e.a[2]), env)  mx == Eval(EBin("max", e.a[1], e.a[2]), env)
              a == Eval(e.a[1], env)  b == Eval(e.a[2], env) IN
          /\ mn.st = "ok" /\ mx.st = "ok" /\ RLe(Q(mn), Q(mx))
          /\ RAdd(Q(mn), Q(mx)) = RAdd(Q(a), Q(b)) /\ v \in {a, b}
          /\ mn = Eval(EBin("min", e.a[2], e.a[1]), env)
    /\ e.k = "abs" => /\ RLe(Zero, Q(v))
                      /\ OkEq(Eval(EBin("max", e.a[1], EUn("neg", e.a[1])), env), v)
                      /\ Eval(EBin("mul", e, e), env) = Eval(EBin("mul", e.a[1], e.a[1]), env)
    /\ e.k = "step" => /\ Q(v) \in {Zero, One}
                       /\ Eval(EUn("step", EUn("neg", e.a[1])), env) = QV(RSub(One, Q(v)))
    /\ e.k = "div" => OkEq(Eval(EBin("mul", e.a[1], EBin("pow", e.a[2], ENum(I(-1)))), env), v)
    /\ e.k = "exp" => Eval(EUn("log", e), env) = Eval(e.a[1], env)
    /\ e.k = "log" => OkEq(Eval(EUn("exp", e), env), Eval(e.a[1], env))
    /\ e.k = "neg" => Eval(EBin("add", e, e.a[1]), env) = ZeroV
    /\ (e.k = "pow" /\ IsNum(e.a[2], I(2))) => OkEq(Eval(EBin("mul", e.a[1], e.a[1]), env), v)
    /\ e.k = "mul" => v = Eval(EBin("mul", e.a[2], e.a[1]), env)
\* the symbolic derivative evaluates to the first Taylor coefficient of the power-series arithmetic
\* the meaning of a formula is attached to the NAMES of the species, not to the positions they happen to have in the
\* state vector: declaring the species in the opposite order (and permuting the state with them) changes nothing
RECURSIVE RenameSp(_)
RenameSp(e) == IF e.k = "sp" THEN [e EXCEPT !.i = NS + 1 - e.i]
               ELSE [e EXCEPT !.a = [j \in 1..Len(e.a) |-> RenameSp(e.a[j])]]
DeclarationOrder == (pc = "done" /\ TopOk) =>
    LET en == [env EXCEPT !.x = [i \in 1..NS |-> env.x[NS + 1 - i]]] IN
    /\ Eval(RenameSp(Top.e), en) = Top.v
    /\ VolEval(RenameSp(Top.e), en) = Top.w
DVars == {<<"sp", i>> : i \in 1..NS} \cup {<<"par", j>> : j \in 1..NP} \cup {<<"t", 0>>}
DerivJet == (pc = "done" /\ TopOk) =>
    \A var \in DVars :
        Mentions(Top.e, var) =>
            LET dv == Eval(D(Top.e, var), env)
                j == Jet(Top.e, env, var, 2) IN
            (dv.st = "ok" /\ j[2].st = "ok") => dv = j[2]

\* ---------------------------------------------------------------- emission (G)
Kinds == <<"num", "sp", "par", "t", "vol", "neg", "exp", "log", "abs", "step", "add", "sub", "mul", "div", "pow",
           "min", "max", "unknown", "unsup">>
KindCode(k) == CHOOSE i \in 1..Len(Kinds) : Kinds[i] = k
RECURSIVE Hash(_)
Hash(e) == (KindCode(e.k) * 7 + e.i * 13 + AbsI(e.q[1]) * 5 + e.q[2] * 3
            + (IF Len(e.a) >= 1 THEN 31 * Hash(e.a[1]) ELSE 0)
            + (IF Len(e.a) >= 2 THEN 17 * Hash(e.a[2]) ELSE 0)) % 9973
Emit == (pc = "done" /\ (Hash(stack[1].e) % SampleK) = SampleR) =>
    LET en == stack[1] IN
    PrintT(ToJson([e |-> Enc(en.e), env |-> env, d |-> en.d,
                   out |-> IF en.v.st = "ok" THEN "value" ELSE "rejected",
                   val |-> SVSeq(en.v.v), vol |-> SVSeq(en.w.v),
                   hasvol |-> Mentions(en.e, <<"vol", 0>>)]))
=============================================================================
