------------------------------- MODULE SbmlDoc -------------------------------
(* Document generator for C13 (import semantics).  Plain SBML documents are CONSTRUCTED BY ACTIONS:      *)
(* AddSpecies(amount?, concentration?), then in any order and number AddGlobal, AddReaction             *)
(* (stoichiometries 1..3, modifiers, kinetic law over the operator set, local parameters incl. names    *)
(* that collide with a global and with another reaction's local, also unused ones), AddAssignmentRule   *)
(* (species or parameter target), AddRateRule.  Guards keep the document inside the documented subset:  *)
(* a rule variable is not changed by a reaction and has one rule, assignment maths do not read          *)
(* assigned variables, every identifier is defined.                                                     *)
(* TLC checks at every finished document: the scoping lemma (renaming a local apart preserves the      *)
(* meaning), that a one-namespace flattening (bioscrape's scheme) refines the meaning, independence     *)
(* of the rule order, and sequential = simultaneous assignment; and emits the document with its         *)
(* meaning: initial values, globals, stoichiometry, assigned variables, state after the assignments     *)
(* and net rate equations at rational probe states.                                                     *)
EXTENDS Sbml, Json

CONSTANTS MaxRx, MaxRules, Mode      \* Mode \in {"exhrx", "exhrules", "sim"}

VARIABLES doc, X, pc
vars == <<doc, X, pc>>

Pick(S) == IF Mode = "sim" THEN {RandomElement(S)} ELSE S

PN == {"k", "p", "q"}
GVals == {I(5), I(3), R(1, 2)}          \* values of globals
LVals == {I(2), I(7), R(1, 4)}          \* values of locals that differ from every global value; a local may ALSO repeat
                                        \* the value of the global (or of another reaction's local) it collides with
XG == {I(0), I(1), I(2), I(3), R(1, 2), R(5, 2)}
AmtG == {I(2), R(3, 2), I(7)}
ConcG == {I(1), R(5, 2), I(4)}

\* ---------------------------------------------------------------- what the document already says
SpDeclared == {doc.species[i].id : i \in DOMAIN doc.species}
Globals == {doc.params[i].id : i \in DOMAIN doc.params}
SideSpecies(r) == {doc.rx[r].reac[i].sp : i \in DOMAIN doc.rx[r].reac} \cup {doc.rx[r].prod[i].sp : i \in DOMAIN doc.rx[r].prod}
Changed == UNION {SideSpecies(r) : r \in DOMAIN doc.rx}
RuleVars == {doc.rules[j].var : j \in DOMAIN doc.rules}
Assigned == {doc.rules[j].var : j \in {i \in DOMAIN doc.rules : doc.rules[i].kind = "assignment"}}
AssignReads == UNION {IdsE(doc.rules[j].math) : j \in {i \in DOMAIN doc.rules : doc.rules[i].kind = "assignment"}}

GlobVal(n) == doc.params[CHOOSE i \in DOMAIN doc.params : doc.params[i].id = n].val
\* ---------------------------------------------------------------- kinetic laws and rule maths
\* "powpow": a1 * (sa^2)^3 - a power whose BASE is a power (libsbml writes and reads it as pow(pow(sa, 2), 3))
KLTpls == {"uni", "bi", "sat", "diff", "const", "two", "powpow"}
KLOfTpl(t, a1, a2, sa, sb) ==
    IF t = "uni" THEN EMul(V(a1), V(sa))
    ELSE IF t = "bi" THEN EMul(EMul(V(a1), V(sa)), V(sb))
    ELSE IF t = "sat" THEN EDiv(EMul(V(a1), EPow(V(sa), N(I(2)))), EAdd(V(a2), V(sa)))
    ELSE IF t = "diff" THEN EAdd(EMul(ESub(V(a1), V(a2)), V(sb)), V(a2))
    ELSE IF t = "const" THEN V(a1)
    ELSE IF t = "powpow" THEN EMul(V(a1), EPow(EPow(V(sa), N(I(2))), N(I(3))))
    ELSE EMul(EMul(N(I(2)), V(a1)), V(sa))
ATpls == {"lin", "sum", "dbl"}
AMath(t, a1, sa, sb) == IF t = "lin" THEN EAdd(EMul(V(a1), V(sa)), N(One))
                        ELSE IF t = "sum" THEN EAdd(V(sa), V(sb)) ELSE EMul(N(I(2)), V(a1))
\* "negsum": -a1*sa + 3, written with a leading unary minus that covers the FIRST term only
RTpls == {"prod", "decay", "const", "negsum"}
RMath(t, a1, sa) == IF t = "prod" THEN EMul(V(a1), V(sa)) ELSE IF t = "decay" THEN ESub(V(a1), V(sa))
                    ELSE IF t = "negsum" THEN EAdd(ESub(N(Zero), EMul(V(a1), V(sa))), N(I(3))) ELSE N(I(3))

Side1(a, s) == <<[sp |-> a, st |-> s]>>
Side2(a, s, b, u) == <<[sp |-> a, st |-> s], [sp |-> b, st |-> u]>>
Sides(S) == {<< >>} \cup {Side1(a, s) : a \in S, s \in 1..3}
            \cup {Side2(ab[1], s, ab[2], u) : ab \in {c \in S \X S : c[1] # c[2]}, s \in 1..3, u \in 1..2}
\* a species may be listed by SEVERAL speciesReference elements on one side (A + B + A): its stoichiometry is their sum
Side3(a, s, b, u, w) == <<[sp |-> a, st |-> s], [sp |-> b, st |-> u], [sp |-> a, st |-> w]>>
SidesRep(S) == {Side3(ab[1], s, ab[2], u, w) : ab \in {c \in S \X S : c[1] # c[2]}, s \in 1..2, u \in 1..2, w \in 1..2}
               \cup {<<[sp |-> a, st |-> s], [sp |-> a, st |-> w]>> : a \in S, s \in 1..2, w \in 1..2}
SidesSmall(S) == {<< >>} \cup {Side1(a, s) : a \in S, s \in {1, 3}}
SideSp(side) == {side[i].sp : i \in DOMAIN side}

\* ---------------------------------------------------------------- actions
Init == /\ doc = [species |-> << >>, params |-> << >>, rx |-> << >>, rules |-> << >>]
        /\ X = << >> /\ pc = "species"

SpKinds == {"none", "amount", "conc", "both", "bothzero"}
MkSpecies(id, kind, a, c) ==
    [id |-> id, hasAmt |-> kind \in {"amount", "both", "bothzero"}, amt |-> IF kind \in {"amount", "both"} THEN a ELSE Zero,
     hasConc |-> kind \in {"conc", "both", "bothzero"}, conc |-> IF kind \in {"conc", "both", "bothzero"} THEN c ELSE Zero]
AddSpecies ==
    /\ pc = "species" /\ Len(doc.species) < NS
    /\ LET free == SpNames \ SpDeclared IN
       \E id \in (IF Mode = "sim" THEN Pick(free) ELSE {SpName(Len(doc.species) + 1)}) :
       \E kind \in (IF Mode = "sim" THEN Pick(SpKinds)
                    ELSE IF Mode = "exhrx" THEN (IF id = "S1" THEN SpKinds ELSE {"conc"})
                    ELSE {IF id = "S1" THEN "amount" ELSE "conc"}),
          a \in (IF Mode = "sim" THEN Pick(AmtG) ELSE {I(2)}), c \in (IF Mode = "sim" THEN Pick(ConcG) ELSE {R(5, 2)}) :
          doc' = [doc EXCEPT !.species = Append(@, MkSpecies(id, kind, a, c))]
    /\ pc' = IF Len(doc.species) + 1 = NS THEN "body" ELSE "species"
    /\ UNCHANGED X

AddGlobal ==
    /\ pc = "body" /\ (PN \ Globals # {}) = TRUE
    /\ IF Mode = "sim" THEN TRUE ELSE Len(doc.rx) = 0 /\ Len(doc.rules) = 0
    /\ \E id \in (IF Mode = "sim" THEN Pick(PN \ Globals)
                  ELSE IF "k" \notin Globals THEN {"k"} ELSE IF "p" \notin Globals THEN {"p"} ELSE {}),
          v \in (IF Mode = "sim" THEN Pick(GVals) ELSE {IF "k" \notin Globals THEN I(5) ELSE I(3)}) :
          doc' = [doc EXCEPT !.params = Append(@, [id |-> id, val |-> v])]
    /\ UNCHANGED <<X, pc>>

\* locals: every parameter of the law that is not (yet) a global MUST be local; any other name MAY be
\* (shadowing a global, colliding with another reaction's local, or unused)
LocalSets(kl) == {L \in SUBSET PN : ((IdsE(kl) \cap PN) \ Globals) \subseteq L}
RECURSIVE SetToSeq(_)
SetToSeq(S) == IF S = {} THEN << >> ELSE LET e == CHOOSE e \in S : TRUE IN <<e>> \o SetToSeq(S \ {e})
MkRx(reac, prod, kl, L, lv, extra) ==
    LET ls == SetToSeq(L)
        mods == ((IdsE(kl) \cap SpNames) \ (SideSp(reac) \cup SideSp(prod))) \cup (extra \ (SideSp(reac) \cup SideSp(prod))) IN
    [id |-> "R" \o ToString(Len(doc.rx)), reac |-> reac, prod |-> prod, mods |-> mods, kl |-> kl,
     locals |-> [i \in 1..Len(ls) |-> [id |-> ls[i], val |-> lv[ls[i]]]], ann |-> NoAnn, dann |-> NoDAnn]

AddReaction ==
    /\ pc = "body" /\ Len(doc.rx) < MaxRx
    /\ IF Mode = "exhrules" THEN "k" \in Globals ELSE TRUE
    /\ LET ok == SpNames \ RuleVars        \* a rule variable is not changed by reactions
           first == Len(doc.rx) = 0 IN
       /\ (ok # {}) = TRUE
       /\ \E t \in (IF Mode = "exhrules" THEN {"uni"} ELSE Pick(KLTpls)), a1 \in Pick(PN), a2 \in Pick(PN), sa \in Pick(SpNames), sb \in Pick(SpNames),
             \* exhrules: R0 = S1 -> 2 S2 with law k*S1 and a LOCAL k (different from / equal to the global k),
             \*           R1 = S2 -> 0   with law k*S2 reading the GLOBAL k (which a rule may assign)
             reac \in (IF Mode = "sim" THEN Pick(Sides(ok) \cup SidesRep(ok)) ELSE IF Mode = "exhrules" THEN {IF first THEN Side1("S1", 1) ELSE Side1("S2", 1)} ELSE SidesSmall({"S1"})),
             prod \in (IF Mode = "sim" THEN Pick(Sides(ok) \cup SidesRep(ok)) ELSE IF Mode = "exhrules" THEN {IF first THEN Side1("S2", 2) ELSE << >>} ELSE {<< >>, Side1("S2", 3)}),
             extra \in (IF Mode = "sim" THEN Pick({{}, {"S1"}, {"S2"}}) ELSE {{}}),
             lv0 \in (IF Mode = "sim" THEN Pick([PN -> LVals]) ELSE {[n \in PN |-> I(2)], [n \in PN |-> I(5)]}),
             same \in (IF Mode = "sim" THEN Pick(SUBSET PN) ELSE {{}}) :
          IF Mode = "sim" \/ (a1 = "k" /\ a2 = "p" /\ sa = (IF Mode = "exhrules" /\ ~first THEN "S2" ELSE "S1") /\ sb = "S3")
          THEN LET kl == KLOfTpl(t, a1, a2, sa, sb)
                   \* a local in `same` that collides with a global repeats the global's value
                   lv == [n \in PN |-> IF n \in same \cap Globals THEN GlobVal(n) ELSE lv0[n]] IN
               \E L \in (IF Mode = "exhrules" THEN {IF first THEN {"k"} ELSE {}} ELSE Pick(LocalSets(kl))) :
                  doc' = [doc EXCEPT !.rx = Append(@, MkRx(reac, prod, kl, L, lv, extra))]
          ELSE FALSE
    /\ UNCHANGED <<X, pc>>

\* assignment rule: the variable is a species no reaction changes or a global parameter; it has no other rule,
\* is not read by an assignment math, and its own math reads no assigned variable
AddAssignmentRule ==
    /\ pc = "body" /\ Len(doc.rules) < MaxRules /\ (Globals # {}) = TRUE
    /\ LET cand == ((SpNames \ Changed) \cup Globals) \ (RuleVars \cup AssignReads) IN
       /\ (cand # {}) = TRUE
       /\ \E var \in (IF Mode = "sim" THEN Pick(cand) ELSE cand \cap {"S3", "p", "k"}),
             t \in (IF Mode = "exhrules" THEN {"lin", "sum"} ELSE Pick(ATpls)), a1 \in Pick(Globals),
             sa \in (IF Mode = "sim" THEN Pick(SpNames) ELSE {"S1"}), sb \in (IF Mode = "sim" THEN Pick(SpNames) ELSE {"S2"}) :
          LET math == AMath(t, a1, sa, sb) IN
          IF (IdsE(math) \cap (Assigned \cup {var}) = {}) /\ (Mode = "sim" \/ a1 = "k")
          THEN doc' = [doc EXCEPT !.rules = Append(@, [kind |-> "assignment", var |-> var, math |-> math,
                                                      hasFreq |-> FALSE, freq |-> RepeatF])]
          ELSE FALSE
    /\ UNCHANGED <<X, pc>>

\* rate rule: the variable is a species that no reaction changes and that has no other rule
AddRateRule ==
    /\ pc = "body" /\ Len(doc.rules) < MaxRules /\ (Globals # {}) = TRUE
    /\ LET cand == (SpNames \ Changed) \ RuleVars IN
       /\ (cand # {}) = TRUE
       /\ \E var \in (IF Mode = "sim" THEN Pick(cand) ELSE cand \cap {"S3", "S4"}),
             t \in (IF Mode = "exhrules" THEN {"prod", "decay"} ELSE Pick(RTpls)), a1 \in Pick(Globals),
             sa \in (IF Mode = "sim" THEN Pick(SpNames) ELSE {"S1"}) :
          IF Mode = "sim" \/ a1 = "k"
          THEN doc' = [doc EXCEPT !.rules = Append(@, [kind |-> "rate", var |-> var, math |-> RMath(t, a1, sa),
                                                      hasFreq |-> FALSE, freq |-> RepeatF])]
          ELSE FALSE
    /\ UNCHANGED <<X, pc>>

ExhX == <<[s \in Sp |-> I(s)], [s \in Sp |-> R(2 * s - 1, 2)], [s \in Sp |-> I((s + 1) % 3)]>>
Finish ==
    /\ pc = "body"
    /\ IF Mode = "exhrx" THEN Len(doc.rx) = MaxRx
       ELSE IF Mode = "exhrules" THEN Len(doc.rx) = MaxRx /\ Len(doc.rules) >= 1
       ELSE Len(doc.rx) + Len(doc.rules) >= 1      \* (always enabled: -simulate picks it with the probability of one successor)
    /\ \E xx \in (IF Mode = "sim" THEN {<<RandomElement([Sp -> XG]), RandomElement([Sp -> XG]), RandomElement([Sp -> XG])>>} ELSE {ExhX}) :
          /\ (\A i \in DOMAIN xx : AMDerivDefined(Import(doc), xx[i])) = TRUE
          /\ X' = xx
    /\ pc' = "done" /\ doc' = doc

Next == AddSpecies \/ AddGlobal \/ AddReaction \/ AddAssignmentRule \/ AddRateRule \/ Finish
Spec == Init /\ [][Next]_vars

\* ---------------------------------------------------------------- properties (M)
Scoping    == pc = "done" => ScopingLemma(doc, X)
Flattening == pc = "done" => (FlatNamesFresh(doc) => FlattenRefines(doc, X))
RuleOrder  == pc = "done" => RuleOrderIndependent(doc, X)
SeqSim     == pc = "done" => SeqEqualsSim(doc, X)
\* every rate rule contributes once to its variable and to nothing else: removing it changes exactly that component, by its formula
RateRuleOnce == pc = "done" =>
    \A j \in DOMAIN doc.rules : doc.rules[j].kind = "rate" =>
        LET without == [doc EXCEPT !.rules = [i \in 1..(Len(doc.rules) - 1) |-> IF i < j THEN doc.rules[i] ELSE doc.rules[i + 1]]]
            am == Import(doc) IN
        \A i \in DOMAIN X : \A s \in Sp :
            AMDeriv(am, X[i])[s] = RAdd(AMDeriv(Import(without), X[i])[s],
                                        IF SpName(s) = doc.rules[j].var
                                        THEN LET st == ApplySim(am.rules, X[i], am.gp) IN EvalE(doc.rules[j].math, st.x, st.gp)
                                        ELSE Zero)

\* ---------------------------------------------------------------- emission (G)
Emit == pc = "done" =>
    LET am == Import(doc)
        sem == DocSem(doc, X) IN
    PrintT(ToJson([doc |-> doc, ns |-> NS, X |-> X,
                   exp |-> [init |-> sem.init, par |-> sem.par, stoich |-> sem.stoich, assigned |-> sem.assigned,
                            post |-> [i \in DOMAIN X |-> sem.post[i].x], deriv |-> sem.deriv,
                            nrate |-> Len(am.rx) - am.nrx],
                   \* the user re-tunes one global after the import: locals must not move
                   retune |-> [j \in DOMAIN doc.params |->
                                  LET d2 == [doc EXCEPT !.params[j].val = I(4)] IN
                                  [id |-> doc.params[j].id, val |-> I(4),
                                   deriv |-> [i \in DOMAIN X |-> AMDeriv(Import(d2), X[i])]]]]))
=============================================================================
