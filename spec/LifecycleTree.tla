---------------------------- MODULE LifecycleTree ----------------------------
(***************************************************************************)
(* Result objects of C17: Schnitz records with parent / daughter           *)
(* REFERENCES, collected in a Lineage (a list).  Trees are built by        *)
(* actions (Divide); Pickle(roots) is the object graph that pickling the   *)
(* given objects serialises: everything reachable through parent and       *)
(* daughter links, each object rebuilt once (memo), every link re-pointed  *)
(* to the rebuilt object.  TLC checks for every tree up to MaxNodes and    *)
(* every choice of what is pickled (the whole lineage, one schnitz, the    *)
(* sub-lineage below one schnitz) that the copy is closed (no link leaves  *)
(* it), mutual (x is the parent of its daughters, a daughter of its        *)
(* parent) and isomorphic to the reachable part of the original; the       *)
(* transcribed deviation LinkDesign = "noparent" (a state tuple that drops *)
(* the parent field) must be refuted.  Every (tree, pickled part) is       *)
(* emitted and rebuilt from real Schnitz / Lineage / ExperimentalLineage   *)
(* objects.                                                                *)
(***************************************************************************)
EXTENDS Integers, Sequences, FiniteSets, TLC, Json

CONSTANTS MaxNodes, MaxLen, LinkDesign

VARIABLES tree,     \* sequence of schnitzes [parent, d1, d2, lo, hi] (0 = None); lo..hi = its time points
          pick      \* what is pickled: [what, k] or NoPick while the tree is being built

vars == <<tree, pick>>
Node(p, a, b, lo, hi) == [parent |-> p, d1 |-> a, d2 |-> b, lo |-> lo, hi |-> hi]
NoPick == [what |-> "", k |-> 0]

Init == /\ \E n \in 1..MaxLen : tree = <<Node(0, 0, 0, 0, n)>>
        /\ pick = NoPick

\* a cell without daughters divides: two daughters that start where it ended
Divide(i, n1, n2) ==
    /\ pick = NoPick /\ tree[i].d1 = 0 /\ Len(tree) + 2 <= MaxNodes
    /\ LET a == Len(tree) + 1
           b == Len(tree) + 2 IN
       tree' = [tree EXCEPT ![i].d1 = a, ![i].d2 = b] \o <<Node(i, 0, 0, tree[i].hi, tree[i].hi + n1), Node(i, 0, 0, tree[i].hi, tree[i].hi + n2)>>
    /\ UNCHANGED pick

Choose(what, k) == /\ pick = NoPick /\ pick' = [what |-> what, k |-> k] /\ UNCHANGED tree

Next == \/ \E i \in 1..Len(tree), n1, n2 \in 1..MaxLen : Divide(i, n1, n2)
        \/ Choose("lineage", 0) \/ Choose("explineage", 0)
        \/ \E k \in 1..Len(tree) : Choose("schnitz", k) \/ Choose("sublineage", k)
Spec == Init /\ [][Next]_vars

\* ---------------------------------------------------------------- reachability and copies
Links(t, i) == {t[i].parent, t[i].d1, t[i].d2} \ {0}
RECURSIVE Close(_, _)
Close(t, S) == LET T == S \cup UNION {Links(t, i) : i \in S} IN IF T = S THEN S ELSE Close(t, T)
RECURSIVE Below(_, _)
Below(t, S) == LET T == S \cup UNION {{t[i].d1, t[i].d2} \ {0} : i \in S} IN IF T = S THEN S ELSE Below(t, T)

\* the objects listed by what is pickled, and the object graph serialised with them
Listed(t, p) == CASE p.what \in {"lineage", "explineage"} -> 1..Len(t)
                  [] p.what = "schnitz" -> {p.k}
                  [] p.what = "sublineage" -> Below(t, {p.k})     \* Schnitz.get_sub_lineage()
Graph(t, p) == Close(t, Listed(t, p))
\* the state tuple of one schnitz as the design serialises it
Stored(n) == IF LinkDesign = "noparent" THEN [n EXCEPT !.parent = 0] ELSE n
\* the copy: one rebuilt object per object of the graph, links re-pointed (same index = the image)
CopyOf(t, p) == [i \in Graph(t, p) |-> Stored(t[i])]

Mutual(c) == \A i \in DOMAIN c :
    /\ (c[i].d1 # 0 => c[i].d1 \in DOMAIN c /\ c[c[i].d1].parent = i)
    /\ (c[i].d2 # 0 => c[i].d2 \in DOMAIN c /\ c[c[i].d2].parent = i)
    /\ (c[i].parent # 0 => c[i].parent \in DOMAIN c /\ i \in {c[c[i].parent].d1, c[c[i].parent].d2})
    /\ ((c[i].d1 = 0) = (c[i].d2 = 0))
TreeMutual == Mutual([i \in 1..Len(tree) |-> tree[i]])
\* the copy is closed, mutual and the image of the reachable part; a daughter starts where its mother ended
CopyOK == pick # NoPick =>
    LET c == CopyOf(tree, pick) IN
    /\ Mutual(c)
    /\ \A i \in DOMAIN c : c[i] = tree[i]
    /\ \A i \in DOMAIN c : c[i].parent # 0 => c[i].lo = c[c[i].parent].hi
\* a tree is connected: pickling any one schnitz serialises the whole tree
WholeTree == (pick.what = "schnitz") => Graph(tree, pick) = 1..Len(tree)

Emit == pick # NoPick =>
    PrintT(ToJson([nodes |-> tree, what |-> pick.what, k |-> pick.k,
                   listed |-> [i \in 1..Len(tree) |-> i \in Listed(tree, pick)],
                   graph |-> [i \in 1..Len(tree) |-> i \in Graph(tree, pick)]]))
=============================================================================
