---------------------------- MODULE TraceLineage ----------------------------
(***************************************************************************)
(* Validation of lineages produced by the REAL py_SimulateCellLineage      *)
(* (code -> spec, C19).  Input (environment variable TRACE_FILE): a batch  *)
(* of projected lineages; each is the splitter's per-species modes, the    *)
(* volume mode, and for every cell record (schnitz) its parent / daughter  *)
(* indices, time axis (grid indices), rows (integers) and volumes (exact   *)
(* rationals: the growth laws used are dyadic).                            *)
(* Clauses evaluated on every lineage, first failing one is reported:      *)
(*   shape            time axis, rows and volumes of equal, non-zero length*)
(*   time-order       time indices strictly increasing                     *)
(*   links            mother/daughter links mutual, two distinct daughters *)
(*   daughter-start   a daughter starts at its mother's last time          *)
(*   partition        daughters' first rows: binomial/perfect species sum  *)
(*                    to the mother's last row, duplicate species copied   *)
(*   volume-split     daughters' first volumes sum to the mother's last    *)
(*                    volume (or both equal it when volume is duplicated)  *)
(*   volume-positive  every reported row has positive volume               *)
(*   nonnegative      no negative count                                    *)
(*   complete         a cell without daughters that is not dead reaches    *)
(*                    the end of the time grid                             *)
(***************************************************************************)
EXTENDS Rat, Json, IOUtils, TLC, FiniteSets

Batch == JsonDeserialize(IOEnv.TRACE_FILE)
VARIABLES tid
Ln(i) == Batch[i]
S(L, k) == L.sch[k]
N(L) == Len(L.sch)
Last(q) == q[Len(q)]

Shape(L) == \A k \in 1..N(L) : Len(S(L, k).t) >= 1 /\ Len(S(L, k).rows) = Len(S(L, k).t) /\ Len(S(L, k).v) = Len(S(L, k).t)
TimeOrder(L) == \A k \in 1..N(L) : \A i \in 1..(Len(S(L, k).t) - 1) : S(L, k).t[i] < S(L, k).t[i + 1]
Links(L) == \A k \in 1..N(L) :
    LET c == S(L, k) IN
    /\ ((c.d1 = 0) <=> (c.d2 = 0))
    /\ (c.d1 # 0 => c.d1 # c.d2 /\ c.d1 \in 1..N(L) /\ c.d2 \in 1..N(L) /\ S(L, c.d1).par = k /\ S(L, c.d2).par = k)
    /\ (c.par # 0 => c.par \in 1..N(L) /\ (S(L, c.par).d1 = k \/ S(L, c.par).d2 = k))
Mothers(L) == {k \in 1..N(L) : S(L, k).d1 # 0}
DaughterStart(L) == \A k \in Mothers(L) : S(L, S(L, k).d1).t[1] = Last(S(L, k).t) /\ S(L, S(L, k).d2).t[1] = Last(S(L, k).t)
Partition(L) == \A k \in Mothers(L) : \A s \in 1..L.ns :
    LET m == Last(S(L, k).rows)[s]
        a == S(L, S(L, k).d1).rows[1][s]
        b == S(L, S(L, k).d2).rows[1][s] IN
    IF L.modes[s] = "duplicate" THEN a = m /\ b = m ELSE a + b = m /\ a >= 0 /\ b >= 0
VolumeSplit(L) == \A k \in Mothers(L) :
    LET m == Last(S(L, k).v)
        a == S(L, S(L, k).d1).v[1]
        b == S(L, S(L, k).d2).v[1] IN
    IF L.vmode = "duplicate" THEN a = m /\ b = m ELSE RAdd(a, b) = m
VolumePositive(L) == \A k \in 1..N(L) : \A i \in 1..Len(S(L, k).v) : RLt(Zero, S(L, k).v[i])
NonNegative(L) == \A k \in 1..N(L) : \A i \in 1..Len(S(L, k).rows) : \A s \in 1..L.ns : S(L, k).rows[i][s] >= 0
Complete(L) == \A k \in 1..N(L) : (S(L, k).d1 = 0 /\ ~L.may_die) => Last(S(L, k).t) = L.nt - 1

Clause(L) == IF ~Shape(L) THEN "shape"
             ELSE IF ~TimeOrder(L) THEN "time-order"
             ELSE IF ~Links(L) THEN "links"
             ELSE IF ~DaughterStart(L) THEN "daughter-start"
             ELSE IF ~Partition(L) THEN "partition"
             ELSE IF ~VolumeSplit(L) THEN "volume-split"
             ELSE IF ~VolumePositive(L) THEN "volume-positive"
             ELSE IF ~NonNegative(L) THEN "nonnegative"
             ELSE IF ~Complete(L) THEN "complete"
             ELSE "none"

Init == tid = 1
Next == /\ tid <= Len(Batch)
        /\ LET c == Clause(Ln(tid)) IN
           PrintT(ToJson([tid |-> Ln(tid).id, verdict |-> IF c = "none" THEN "accepted" ELSE "rejected", clause |-> c,
                          cells |-> N(Ln(tid)), divisions |-> Cardinality(Mothers(Ln(tid)))]))
        /\ tid' = tid + 1
Spec == Init /\ [][Next]_tid
=============================================================================
