---------------------------- MODULE DelayQueueGen ----------------------------
(* Behaviour generator for DelayQueue: the same actions plus a history variable h that records,  *)
(* for every operation, its arguments and the abstract state expected after it.  Each completed *)
(* history is printed as one JSON line and replayed, step by step, on a real ArrayDelayQueue.    *)
EXTENDS DelayQueue, Json

CONSTANT HLen      \* number of operations per emitted history
VARIABLE h, t0

gvars == <<vars, h, t0>>

Slots(qq) == [j \in 1..NC |-> [r \in Rxn |-> qq.cells[r][(qq.start + j - 1) % NC]]]
Obs(qq) == [nqt |-> qq.nqt, slots |-> Slots(qq)]
\* property-level view of the main queue (equal to Slots(q) by the invariant Refine)
Due == [j \in 1..NC |-> [r \in Rxn |-> PendingAt(r, q.nqt + DT * (j - 1))]]

Rec(name, a1, a2, a3, got) ==
    h' = Append(h, [op |-> name, a1 |-> a1, a2 |-> a2, a3 |-> a3, got |-> got,
                    q |-> Obs(q'), due |-> Due', kind |-> auxKind', aux |-> Obs(aux'), aux2 |-> Obs(aux2'),
                    added |-> added', delivered |-> delivered'])

GInit == Init /\ h = <<>> /\ t0 = q.nqt - DT

NoGot == [r \in Rxn |-> 0]
GAdd(r, t, amt) == Add(r, t, amt) /\ Rec("add", r, t, amt, NoGot)
GRead == ReadAdvance /\ Rec("read", q.nqt, 0, 0, [r \in Rxn |-> PendingAt(r, q.nqt)])
GSetTime(t) == SetTime(t) /\ Rec("settime", t, 0, 0, NoGot)
GCopy == Copy /\ Rec("copy", 0, 0, 0, NoGot)
GClearCopy == ClearCopy /\ Rec("clearcopy", 0, 0, 0, NoGot)
GSwap == Swap /\ Rec("swap", 0, 0, 0, NoGot)
GPartition(pat) == Partition(pat) /\ Rec("partition", pat, 0, 0, NoGot)
SetTimes == {q.nqt - DT + 1, q.nqt - DT - 3, q.nqt + 2, q.nqt - DT}

\* exhaustive enumeration of all histories of length HLen
GNextExh == /\ Len(h) < HLen /\ t0' = t0
            /\ \/ \E r \in Rxn, t \in AddTimes, amt \in {1, 2} : GAdd(r, t, amt)
               \/ GRead
               \/ \E t \in SetTimes : GSetTime(t)
               \/ GCopy \/ GClearCopy \/ GSwap
               \/ \E pat \in {"lo", "hi", "alt"} : GPartition(pat)

\* random long histories (-simulate): the operation kind is drawn first so that reads, which make
\* the ring buffer wrap around, are as frequent as insertions
GNextSim == /\ Len(h) < HLen /\ t0' = t0
            /\ LET k == RandomElement(1..20) IN
               CASE k <= 8  -> \E r \in {RandomElement(Rxn)}, t \in {RandomElement(ReqTimes)},
                                  amt \in {RandomElement({1, 2})} : GAdd(r, t, amt)
                 [] k <= 14 -> GRead
                 [] k = 15  -> \E t \in {RandomElement(SetTimes)} : GSetTime(t)
                 [] k = 16  -> GCopy
                 [] k = 17  -> GClearCopy
                 [] k = 18  -> IF auxKind = "copy" THEN GSwap ELSE GRead
                 [] OTHER   -> \E pat \in {RandomElement({"lo", "hi", "alt"})} : GPartition(pat)

Emit == (Len(h) = HLen) => PrintT(ToJson([nr |-> NR, nc |-> NC, t0 |-> t0, steps |-> h]))
StartTimesDef == {0, 1, -3, 6}
=============================================================================
