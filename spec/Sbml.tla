-------------------------------- MODULE Sbml --------------------------------
(***************************************************************************)
(* SBML export / import of bioscrape models (C12, C13, C14).               *)
(*                                                                         *)
(*  - a small exact expression language (kinetic laws, rule maths) over    *)
(*    Rat: numbers, identifiers, + - * /, powers with an integer-valued    *)
(*    exponent; trees are tuples <<op, ...>> (JSON: nested arrays);        *)
(*  - MODELS: a Crn program (decl, rx with RateLaws law records extended   *)
(*    by a `general` law carrying a rate expression) + initial values +    *)
(*    rules (additive / assignment, frequency repeat | start | dt | time); *)
(*  - DOCUMENTS: the abstract content of an SBML L3 file: species          *)
(*    (amount?, concentration?), global parameters, reactions (reactant /  *)
(*    product stoichiometry lists, modifiers, kinetic-law tree, local      *)
(*    parameters, bioscrape propensity and delay annotation), rules (kind, *)
(*    variable, math, frequency annotation);                               *)
(*  - Export(m, stochastic): bioscrape's writer at design level, incl. the *)
(*    naming of the dummy parameters that numeric propensity / delay       *)
(*    arguments become (DummyVar_<Class>_<key>_<counter>), with the        *)
(*    kinetic laws the property demands (C14);                             *)
(*  - Import(doc): PROPERTY level = SBML L3 semantics on the documented    *)
(*    subset + bioscrape's annotations: an abstract model whose rates are  *)
(*    evaluated in EXPLICIT ENVIRONMENTS (locals over globals), so any     *)
(*    renaming scheme of an implementation is accepted;                    *)
(*  - Sem(am, P): the observable meaning of an abstract model at a finite  *)
(*    list of probes P (the four rate forms are functions of the state;    *)
(*    they are tabulated at the probes).                                   *)
(*                                                                         *)
(* TLC has no order on strings, so "parameters and species are written     *)
(* sorted" is not modelled as a sort: lists are kept in creation order and *)
(* ListOrderIrrelevant states that the meaning does not depend on the      *)
(* order of the species / parameter lists (the harness checks sortedness   *)
(* of the written file directly, at design level).                         *)
(***************************************************************************)
EXTENDS Crn

\* ------------------------------------------------------------------ names
SpName(i) == "S" \o ToString(i)
SpNames == {SpName(i) : i \in Sp}
SpIdx(n) == CHOOSE i \in Sp : SpName(i) = n
PName(key, r) == key \o "_r" \o ToString(r - 1)             \* user-named parameter of reaction r (harness/build.py)
RuleParName(j) == "c_rule" \o ToString(j - 1)
DummyName(cls, key, c) == "DummyVar_" \o cls \o "_" \o key \o "_" \o ToString(c)
DummyClasses == {"ConstitutivePropensity", "UnimolecularPropensity", "BimolecularPropensity", "MassActionPropensity",
                 "PositiveHillPropensity", "PositiveProportionalHillPropensity", "NegativeHillPropensity",
                 "NegativeProportionalHillPropensity", "FixedDelay", "GaussianDelay", "GammaDelay"}
DummyKeys == {"k", "K", "n", "delay", "mean", "std", "theta"}
DummyNames == {DummyName(c, k, i) : c \in DummyClasses, k \in DummyKeys, i \in 0..24}

EmptyF == [n \in {} |-> Zero]
\* list of [id, val] -> function (first occurrence wins)
PairsFun(ps) == [n \in {ps[i].id : i \in DOMAIN ps} |-> ps[CHOOSE i \in DOMAIN ps : ps[i].id = n /\ \A j \in 1..(i - 1) : ps[j].id # n].val]

\* ------------------------------------------------------------------ expressions
N(q) == <<"num", q>>
V(s) == <<"id", s>>
EAdd(a, b) == <<"add", a, b>>
ESub(a, b) == <<"sub", a, b>>
EMul(a, b) == <<"mul", a, b>>
EDiv(a, b) == <<"div", a, b>>
EPow(a, b) == <<"pow", a, b>>        \* b must evaluate to an integer

\* value at species state x (sequence over Sp) and parameter environment pe (function name -> Rat)
RECURSIVE EvalE(_, _, _)
EvalE(e, x, pe) ==
    IF e[1] = "num" THEN e[2]
    ELSE IF e[1] = "id" THEN (IF e[2] \in SpNames THEN x[SpIdx(e[2])] ELSE pe[e[2]])
    ELSE LET a == EvalE(e[2], x, pe)
             b == EvalE(e[3], x, pe) IN
         IF e[1] = "add" THEN RAdd(a, b)
         ELSE IF e[1] = "sub" THEN RSub(a, b)
         ELSE IF e[1] = "mul" THEN RMul(a, b)
         ELSE IF e[1] = "div" THEN RDiv(a, b)
         ELSE RPow(a, b[1])

RECURSIVE DefE(_, _, _)
DefE(e, x, pe) ==
    IF e[1] = "num" THEN TRUE
    ELSE IF e[1] = "id" THEN (IF e[2] \in SpNames THEN TRUE ELSE e[2] \in DOMAIN pe)
    ELSE IF DefE(e[2], x, pe) THEN
            IF DefE(e[3], x, pe) THEN
                IF e[1] = "div" THEN EvalE(e[3], x, pe) # Zero
                ELSE IF e[1] = "pow" THEN
                        LET b == EvalE(e[3], x, pe) IN
                        IF IsInt(b) THEN (IF b[1] >= 0 THEN TRUE ELSE EvalE(e[2], x, pe) # Zero) ELSE FALSE
                ELSE TRUE
            ELSE FALSE
         ELSE FALSE

RECURSIVE IdsE(_)
IdsE(e) == IF e[1] = "num" THEN {} ELSE IF e[1] = "id" THEN {e[2]} ELSE IdsE(e[2]) \cup IdsE(e[3])

RECURSIVE RenE(_, _, _)
RenE(e, old, new) == IF e[1] = "num" THEN e
                     ELSE IF e[1] = "id" THEN (IF e[2] = old THEN V(new) ELSE e)
                     ELSE <<e[1], RenE(e[2], old, new), RenE(e[3], old, new)>>

\* ------------------------------------------------------------------ laws with a `general` member
\* every law record has the fields [type, re, k, K, n, s1, d, rate, gkeys] (rate / gkeys are only read for "general")
NoRate == N(Zero)
WithRate(law) == [type |-> law.type, re |-> law.re, k |-> law.k, K |-> law.K, n |-> law.n, s1 |-> law.s1, d |-> law.d,
                  rate |-> NoRate, gkeys |-> << >>]
GenLaw(rate, keys, k, K) == [type |-> "general", re |-> << >>, k |-> k, K |-> K, n |-> One, s1 |-> 1, d |-> 1,
                             rate |-> rate, gkeys |-> keys]

IsHill(t) == t \in HillTypes
IsProp(t) == t \in {"proportionalhillpositive", "proportionalhillnegative"}

\* the four rate forms <<det, sto, vol, stovol>>; a general rate without the symbol `volume` has one value
Rate4(law, x, VV, pe) ==
    IF law.type = "general" THEN LET v == EvalE(law.rate, x, pe) IN <<v, v, v, v>>
    ELSE <<Det(law, x), Sto(law, x), Vol(law, x, VV), StoVol(law, x, VV)>>
\* a reaction of an abstract model names the parameters its law reads (pn, "" = none): the law is re-resolved in
\* the CURRENT environment, so a rule that assigns a parameter changes the rates that read it
NoPn == [k |-> "", K |-> "", n |-> ""]
Resolve(law, pn, pe) == [law EXCEPT !.k = IF pn.k = "" THEN @ ELSE pe[pn.k],
                                    !.K = IF pn.K = "" THEN @ ELSE pe[pn.K],
                                    !.n = IF pn.n = "" THEN @ ELSE pe[pn.n]]
RxRate4(rxa, x, VV, gp) == LET pe == rxa.loc @@ gp IN Rate4(Resolve(rxa.law, rxa.pn, pe), x, VV, pe)
RateDef(law, x, VV, pe) == IF law.type = "general" THEN DefE(law.rate, x, pe) ELSE Defined(law, x, VV)

\* ------------------------------------------------------------------ rule frequencies
RepeatF == [kind |-> "repeat", T |-> Zero]
\* "start" is the time-0 rule; everything else is its own class
FreqSem(f) == IF f.kind = "start" THEN [kind |-> "time", T |-> Zero] ELSE f
Fires(f, t, step) == LET g == FreqSem(f) IN
                     IF g.kind = "repeat" THEN TRUE ELSE IF g.kind = "dt" THEN step ELSE g.T = t

\* sequential application (bioscrape applies its rule list in order); state = [x, gp]
RECURSIVE ApplySeq(_, _, _, _, _)
ApplySeq(rules, x, gp, t, step) ==
    IF rules = << >> THEN [x |-> x, gp |-> gp]
    ELSE LET ru == Head(rules) IN
         IF Fires(ru.freq, t, step)
         THEN LET v == EvalE(ru.rhs, x, gp) IN
              IF ru.target \in SpNames
              THEN ApplySeq(Tail(rules), [x EXCEPT ![SpIdx(ru.target)] = v], gp, t, step)
              ELSE ApplySeq(Tail(rules), x, [gp EXCEPT ![ru.target] = v], t, step)
         ELSE ApplySeq(Tail(rules), x, gp, t, step)

\* simultaneous application of the repeated assignments (SBML: a rule set, no order)
HasRule(rules, name) == \E j \in DOMAIN rules : rules[j].target = name /\ FreqSem(rules[j].freq).kind = "repeat"
RuleOf(rules, name) == rules[CHOOSE j \in DOMAIN rules : rules[j].target = name /\ FreqSem(rules[j].freq).kind = "repeat"]
ApplySim(rules, x, gp) ==
    [x  |-> [i \in Sp |-> IF HasRule(rules, SpName(i)) THEN EvalE(RuleOf(rules, SpName(i)).rhs, x, gp) ELSE x[i]],
     gp |-> [n \in DOMAIN gp |-> IF HasRule(rules, n) THEN EvalE(RuleOf(rules, n).rhs, x, gp) ELSE gp[n]]]

\* ------------------------------------------------------------------ abstract models and their meaning
\* am = [init : Sp -> Rat, gp : name -> Rat (all global parameters), nrx : number of proper reactions,
\*       rx : Seq([sto, dsto : Sp -> Int, law, pn, loc : name -> Rat (local parameters), delay : [type, p1, p2]]),
\*       rules : Seq([target : name, rhs : expr, freq])]
NoDelay == [type |-> "none", p1 |-> Zero, p2 |-> Zero]
RuleTimes == <<[t |-> Zero, step |-> FALSE], [t |-> Zero, step |-> TRUE], [t |-> R(1, 2), step |-> FALSE],
               [t |-> I(2), step |-> FALSE], [t |-> R(7, 2), step |-> FALSE], [t |-> R(7, 2), step |-> TRUE]>>

Sem(am, P) ==
    [init    |-> am.init,
     par     |-> [n \in {q \in DOMAIN am.gp : q \notin DummyNames} |-> am.gp[n]],
     stoich  |-> [r \in 1..Len(am.rx) |-> am.rx[r].sto],
     dstoich |-> [r \in 1..Len(am.rx) |-> am.rx[r].dsto],
     rates   |-> [r \in 1..Len(am.rx) |-> [i \in 1..Len(P) |->
                      RxRate4(am.rx[r], P[i].x, P[i].V, am.gp)]],
     delay   |-> [r \in 1..Len(am.rx) |-> am.rx[r].delay],
     rules   |-> [j \in 1..Len(am.rules) |->
                      [target |-> am.rules[j].target, freq |-> FreqSem(am.rules[j].freq),
                       vals |-> [i \in 1..Len(P) |-> EvalE(am.rules[j].rhs, P[i].x, am.gp)]]],
     \* effect of the rule list at the probe times: species, (non-dummy) parameters, and the rates read afterwards
     rulefx  |-> [i \in 1..Len(P) |-> [q \in 1..Len(RuleTimes) |->
                      ApplySeq(am.rules, P[i].x, am.gp, RuleTimes[q].t, RuleTimes[q].step).x]],
     rulefxp |-> [i \in 1..Len(P) |-> [q \in 1..Len(RuleTimes) |->
                      LET st == ApplySeq(am.rules, P[i].x, am.gp, RuleTimes[q].t, RuleTimes[q].step) IN
                      [n \in {z \in DOMAIN st.gp : z \notin DummyNames} |-> st.gp[n]]]],
     rulefxr |-> [i \in 1..Len(P) |-> [q \in 1..Len(RuleTimes) |->
                      LET st == ApplySeq(am.rules, P[i].x, am.gp, RuleTimes[q].t, RuleTimes[q].step) IN
                      [r \in 1..Len(am.rx) |-> RxRate4(am.rx[r], st.x, P[i].V, st.gp)[1]]]]]

AllDefined(am, P) == \A r \in 1..Len(am.rx), i \in 1..Len(P) :
                        RateDef(am.rx[r].law, P[i].x, P[i].V, am.rx[r].loc @@ am.gp)

\* net rate equations: repeated assignments first, then sum of (immediate + delayed) stoichiometry x rate
RECURSIVE SumAM(_, _, _, _)
SumAM(am, st, s, r) ==
    IF r = 0 THEN Zero
    ELSE RAdd(RMul(I(am.rx[r].sto[s] + am.rx[r].dsto[s]),
                   RxRate4(am.rx[r], st.x, One, st.gp)[1]),
              SumAM(am, st, s, r - 1))
DerivAt(am, st) == [s \in Sp |-> SumAM(am, st, s, Len(am.rx))]
AMDeriv(am, x) == DerivAt(am, ApplySim(am.rules, x, am.gp))
AMDerivSeq(am, x) == DerivAt(am, ApplySeq(am.rules, x, am.gp, Zero, TRUE))
AMDerivDefined(am, x) ==
    LET st == ApplySim(am.rules, x, am.gp) IN
    \A r \in 1..Len(am.rx) : RateDef(am.rx[r].law, st.x, One, am.rx[r].loc @@ st.gp)

\* ------------------------------------------------------------------ models (bioscrape programs)
\* m = [prog : [decl, rx], x0 : Sp -> Rat, rules : Seq([type, target (species number), tpar, rhs, freq, haspar, pval])]
\* a rule assigns the species `target`, or, when tpar # "", the (named, global) parameter tpar
\* rx = [re, pr, dre, dpr, law, delay, named, unset]; the rule parameter (if any) is RuleParName(j) = pval
LawKeys(law) == IF law.type = "massaction" THEN <<"k">> ELSE IF law.type = "general" THEN law.gkeys ELSE <<"k", "K", "n">>
DelayKeys(t) == IF t = "fixed" THEN <<"delay">> ELSE IF t = "gaussian" THEN <<"mean", "std">>
                ELSE IF t = "gamma" THEN <<"k", "theta">> ELSE << >>
PropClass(law) ==
    IF law.type = "massaction"
    THEN (IF Len(law.re) = 0 THEN "ConstitutivePropensity" ELSE IF Len(law.re) = 1 THEN "UnimolecularPropensity"
          ELSE IF Len(law.re) = 2 THEN "BimolecularPropensity" ELSE "MassActionPropensity")
    ELSE IF law.type = "hillpositive" THEN "PositiveHillPropensity"
    ELSE IF law.type = "hillnegative" THEN "NegativeHillPropensity"
    ELSE IF law.type = "proportionalhillpositive" THEN "PositiveProportionalHillPropensity"
    ELSE "NegativeProportionalHillPropensity"
DelayClass(t) == IF t = "fixed" THEN "FixedDelay" ELSE IF t = "gaussian" THEN "GaussianDelay" ELSE "GammaDelay"

\* numeric arguments become dummy parameters, numbered by one model-wide counter in the order of the
\* checks: per reaction first the law keys (k, K, n), then the delay keys; general rates keep literals
NLawDummies(rx) == IF rx.named THEN 0 ELSE IF rx.law.type = "general" THEN 0 ELSE Len(LawKeys(rx.law))
NDummies(rx) == IF rx.named THEN 0 ELSE NLawDummies(rx) + Len(DelayKeys(rx.delay.type))
RECURSIVE CtrBefore(_, _)
CtrBefore(rxs, r) == IF r = 1 THEN 0 ELSE CtrBefore(rxs, r - 1) + NDummies(rxs[r - 1])
LawParName(rxs, r, j) ==
    LET rx == rxs[r]
        key == LawKeys(rx.law)[j] IN
    IF rx.named THEN PName(key, r) ELSE DummyName(PropClass(rx.law), key, CtrBefore(rxs, r) + j - 1)
DelayParName(rxs, r, j) ==
    LET rx == rxs[r]
        key == DelayKeys(rx.delay.type)[j] IN
    IF rx.named THEN PName("d" \o key, r)
    ELSE DummyName(DelayClass(rx.delay.type), key, CtrBefore(rxs, r) + NLawDummies(rx) + j - 1)
HasLawPars(rx) == IF rx.law.type = "general" THEN rx.named ELSE TRUE
RxPars(rxs, r) ==
    LET rx == rxs[r] IN
    (IF HasLawPars(rx) THEN [j \in 1..Len(LawKeys(rx.law)) |-> [id |-> LawParName(rxs, r, j), val |-> rx.law[LawKeys(rx.law)[j]]]]
     ELSE << >>)
    \o [j \in 1..Len(DelayKeys(rx.delay.type)) |->
            [id |-> DelayParName(rxs, r, j), val |-> IF j = 1 THEN rx.delay.p1 ELSE rx.delay.p2]]
RECURSIVE RxParsUpTo(_, _)
RxParsUpTo(rxs, r) == IF r = 0 THEN << >> ELSE RxParsUpTo(rxs, r - 1) \o RxPars(rxs, r)
RECURSIVE RuleParsUpTo(_, _)
RuleParsUpTo(rules, j) == IF j = 0 THEN << >>
                          ELSE RuleParsUpTo(rules, j - 1) \o
                               (IF rules[j].haspar THEN <<[id |-> RuleParName(j), val |-> rules[j].pval]>> ELSE << >>)
\* every parameter of the model in creation order (dummies included)
AllPars(m) == RxParsUpTo(m.prog.rx, Len(m.prog.rx)) \o RuleParsUpTo(m.rules, Len(m.rules))

RuleTarget(ru) == IF ru.tpar = "" THEN SpName(ru.target) ELSE ru.tpar
ModelAM(m) ==
    [init |-> m.x0, gp |-> PairsFun(AllPars(m)), nrx |-> Len(m.prog.rx),
     rx |-> [r \in 1..Len(m.prog.rx) |->
                LET rx == m.prog.rx[r] IN
                [sto |-> [s \in Sp |-> StoichN(rx, s)], dsto |-> [s \in Sp |-> DStoichN(rx, s)],
                 law |-> rx.law,
                 pn |-> IF rx.law.type = "general" THEN NoPn
                        ELSE [k |-> LawParName(m.prog.rx, r, 1),
                              K |-> IF IsHill(rx.law.type) THEN LawParName(m.prog.rx, r, 2) ELSE "",
                              n |-> IF IsHill(rx.law.type) THEN LawParName(m.prog.rx, r, 3) ELSE ""],
                 loc |-> EmptyF, delay |-> rx.delay]],
     rules |-> [j \in 1..Len(m.rules) |-> [target |-> RuleTarget(m.rules[j]), rhs |-> m.rules[j].rhs,
                                          freq |-> m.rules[j].freq]]]

\* ------------------------------------------------------------------ documents
\* doc = [species : Seq([id, hasAmt, amt, hasConc, conc]), params : Seq([id, val]),
\*        rx : Seq([id, reac, prod : Seq([sp, st]), mods : set of ids, kl : expr, locals : Seq([id, val]),
\*                  ann : [has, type, k, K, n, s1, d], dann : [has, type, dre, dpr : Seq(id), p1, p2]]),
\*        rules : Seq([kind : "assignment" | "rate", var, math, hasFreq, freq])]
NoAnn == [has |-> FALSE, type |-> "", k |-> "", K |-> "", n |-> "", s1 |-> "", d |-> ""]
NoDAnn == [has |-> FALSE, type |-> "", dre |-> << >>, dpr |-> << >>, p1 |-> "", p2 |-> ""]

SideDoc(side) == LET ds == AddNew(<< >>, side) IN [i \in 1..Len(ds) |-> [sp |-> SpName(ds[i]), st |-> Count(side, ds[i])]]
InSides(rx, s) == \E i \in 1..Len(rx.re \o rx.pr) : (rx.re \o rx.pr)[i] = s

\* kinetic laws the property demands: deterministic export = the deterministic rate, stochastic export =
\* the combinatorial rate (falling factorials) for mass action; Hill and general laws have one form
RECURSIVE FallKL(_, _, _, _)
FallKL(acc, sid, mlt, i) == IF i = mlt THEN acc
                            ELSE FallKL(EMul(acc, IF i = 0 THEN sid ELSE ESub(sid, N(I(i)))), sid, mlt, i + 1)
RECURSIVE MassKL(_, _, _, _)
MassKL(acc, ds, re, stoch) ==
    IF ds = << >> THEN acc
    ELSE LET s == Head(ds)
             mlt == Count(re, s)
             sid == V(SpName(s)) IN
         MassKL(IF stoch THEN FallKL(acc, sid, mlt, 0)
                ELSE EMul(acc, IF mlt > 1 THEN EPow(sid, N(I(mlt))) ELSE sid), Tail(ds), re, stoch)
HillKL(law, kid, Kid, nid) ==
    LET h == EPow(EDiv(V(SpName(law.s1)), Kid), nid)
        core == IF law.type \in {"hillpositive", "proportionalhillpositive"}
                THEN EDiv(EMul(kid, h), EAdd(N(One), h)) ELSE EDiv(kid, EAdd(N(One), h)) IN
    IF IsProp(law.type) THEN EMul(V(SpName(law.d)), core) ELSE core

KLOf(rxs, r, stoch) ==
    LET rx == rxs[r] IN
    IF rx.law.type = "general" THEN rx.law.rate
    ELSE IF rx.law.type = "massaction" THEN MassKL(V(LawParName(rxs, r, 1)), AddNew(<< >>, rx.re), rx.re, stoch)
    ELSE HillKL(rx.law, V(LawParName(rxs, r, 1)), V(LawParName(rxs, r, 2)), V(LawParName(rxs, r, 3)))

ModsOf(rx) ==
    LET cand == IF rx.law.type = "general" THEN {SpIdx(n) : n \in IdsE(rx.law.rate) \cap SpNames}
                ELSE IF IsProp(rx.law.type) THEN {rx.law.s1, rx.law.d}
                ELSE IF IsHill(rx.law.type) THEN {rx.law.s1} ELSE {} IN
    {SpName(s) : s \in {c \in cand : ~InSides(rx, c)}}

RxDoc(rxs, r, stoch) ==
    LET rx == rxs[r]
        t == rx.law.type
        dt == rx.delay.type IN
    [id |-> "r" \o ToString(r - 1), reac |-> SideDoc(rx.re), prod |-> SideDoc(rx.pr), mods |-> ModsOf(rx),
     kl |-> KLOf(rxs, r, stoch), locals |-> << >>,
     ann |-> IF t = "general" THEN NoAnn
             ELSE [has |-> TRUE, type |-> t, k |-> LawParName(rxs, r, 1),
                   K |-> IF IsHill(t) THEN LawParName(rxs, r, 2) ELSE "",
                   n |-> IF IsHill(t) THEN LawParName(rxs, r, 3) ELSE "",
                   s1 |-> IF IsHill(t) THEN SpName(rx.law.s1) ELSE "",
                   d |-> IF IsProp(t) THEN SpName(rx.law.d) ELSE ""],
     dann |-> IF dt = "none" THEN NoDAnn
              ELSE [has |-> TRUE, type |-> dt, dre |-> [i \in 1..Len(rx.dre) |-> SpName(rx.dre[i])],
                    dpr |-> [i \in 1..Len(rx.dpr) |-> SpName(rx.dpr[i])],
                    p1 |-> DelayParName(rxs, r, 1), p2 |-> IF dt = "fixed" THEN "" ELSE DelayParName(rxs, r, 2)]]

Export(m, stoch) ==
    [species |-> [i \in 1..NS |-> [id |-> SpName(i), hasAmt |-> FALSE, amt |-> Zero, hasConc |-> TRUE, conc |-> m.x0[i]]],
     params  |-> AllPars(m),
     rx      |-> [r \in 1..Len(m.prog.rx) |-> RxDoc(m.prog.rx, r, stoch)],
     rules   |-> [j \in 1..Len(m.rules) |-> [kind |-> "assignment", var |-> RuleTarget(m.rules[j]),
                                            math |-> m.rules[j].rhs, hasFreq |-> TRUE, freq |-> m.rules[j].freq]]]

\* ------------------------------------------------------------------ import (property level)
GlobF(doc) == PairsFun(doc.params)
\* a non-zero initial amount precedes the concentration
InitOf(sp) == IF sp.hasAmt THEN (IF sp.amt # Zero THEN sp.amt ELSE IF sp.hasConc THEN sp.conc ELSE sp.amt)
              ELSE IF sp.hasConc THEN sp.conc ELSE Zero
DocSpecies(doc, i) == doc.species[CHOOSE j \in DOMAIN doc.species : doc.species[j].id = SpName(i)]

RECURSIVE SideSum(_, _, _)
SideSum(side, name, j) == IF j = 0 THEN 0 ELSE (IF side[j].sp = name THEN side[j].st ELSE 0) + SideSum(side, name, j - 1)
SideCount(side, i) == SideSum(side, SpName(i), Len(side))
NameCount(names, i) == Cardinality({j \in DOMAIN names : names[j] = SpName(i)})
RECURSIVE Rep(_, _)
Rep(i, n) == IF n = 0 THEN << >> ELSE <<i>> \o Rep(i, n - 1)
RECURSIVE ExpandFrom(_, _)
ExpandFrom(side, i) == IF i > NS THEN << >> ELSE Rep(i, SideCount(side, i)) \o ExpandFrom(side, i + 1)

ImportRx(doc, r) ==
    LET d == doc.rx[r]
        loc == PairsFun(d.locals)
        env == loc @@ GlobF(doc)
        t == d.ann.type IN
    [sto  |-> [i \in Sp |-> SideCount(d.prod, i) - SideCount(d.reac, i)],
     dsto |-> IF d.dann.has THEN [i \in Sp |-> NameCount(d.dann.dpr, i) - NameCount(d.dann.dre, i)] ELSE [i \in Sp |-> 0],
     \* annotated: the named built-in law with its arguments resolved in the reaction's environment;
     \* plain: the kinetic law itself, one value in every mode, evaluated with locals over globals
     law  |-> IF d.ann.has
              THEN [type |-> t, re |-> ExpandFrom(d.reac, 1), k |-> env[d.ann.k],
                    K |-> IF IsHill(t) THEN env[d.ann.K] ELSE One, n |-> IF IsHill(t) THEN env[d.ann.n] ELSE One,
                    s1 |-> IF IsHill(t) THEN SpIdx(d.ann.s1) ELSE 1, d |-> IF IsProp(t) THEN SpIdx(d.ann.d) ELSE 1,
                    rate |-> NoRate, gkeys |-> << >>]
              ELSE GenLaw(d.kl, << >>, One, One),
     pn   |-> IF d.ann.has THEN [k |-> d.ann.k, K |-> IF IsHill(t) THEN d.ann.K ELSE "", n |-> IF IsHill(t) THEN d.ann.n ELSE ""]
              ELSE NoPn,
     loc  |-> loc,
     delay |-> IF d.dann.has
               THEN [type |-> d.dann.type, p1 |-> env[d.dann.p1], p2 |-> IF d.dann.type = "fixed" THEN Zero ELSE env[d.dann.p2]]
               ELSE NoDelay]

\* every rate rule contributes its formula once to the derivative of its variable and to nothing else:
\* a source reaction  0 -> var  with the formula as rate
RateRuleRx(ru) == [sto |-> [i \in Sp |-> IF SpName(i) = ru.var THEN 1 ELSE 0], dsto |-> [i \in Sp |-> 0],
                   law |-> GenLaw(ru.math, << >>, One, One), pn |-> NoPn, loc |-> EmptyF, delay |-> NoDelay]
RECURSIVE RulesOfKind(_, _)
RulesOfKind(rules, kind) == IF rules = << >> THEN << >>
                            ELSE (IF Head(rules).kind = kind THEN <<Head(rules)>> ELSE << >>) \o RulesOfKind(Tail(rules), kind)

Import(doc) ==
    LET rr == RulesOfKind(doc.rules, "rate")
        ar == RulesOfKind(doc.rules, "assignment") IN
    [init |-> [i \in Sp |-> InitOf(DocSpecies(doc, i))], gp |-> GlobF(doc), nrx |-> Len(doc.rx),
     rx |-> [r \in 1..Len(doc.rx) |-> ImportRx(doc, r)] \o [j \in 1..Len(rr) |-> RateRuleRx(rr[j])],
     \* every assignment rule is a repeated assignment unless bioscrape's frequency annotation says otherwise
     rules |-> [j \in 1..Len(ar) |-> [target |-> ar[j].var, rhs |-> ar[j].math,
                                     freq |-> IF ar[j].hasFreq THEN ar[j].freq ELSE RepeatF]]]

\* ------------------------------------------------------------------ C12: round trip
RoundTripHolds(m, P) == \A st \in BOOLEAN : Sem(Import(Export(m, st)), P) = Sem(ModelAM(m), P)
RevSeq(s) == [i \in 1..Len(s) |-> s[Len(s) + 1 - i]]
ListOrderIrrelevant(doc, P) ==
    Sem(Import([doc EXCEPT !.species = RevSeq(@), !.params = RevSeq(@)]), P) = Sem(Import(doc), P)

\* ------------------------------------------------------------------ C14: exported kinetic laws
EvalKL(doc, r, x) == EvalE(doc.rx[r].kl, x, PairsFun(doc.rx[r].locals) @@ GlobF(doc))
DefKL(doc, r, x) == DefE(doc.rx[r].kl, x, PairsFun(doc.rx[r].locals) @@ GlobF(doc))
DocIds(doc) == {doc.species[i].id : i \in DOMAIN doc.species} \cup {doc.params[i].id : i \in DOMAIN doc.params}
KLIdsOK(doc, r) == IdsE(doc.rx[r].kl) \subseteq DocIds(doc)
NoRepeatSp(side) == \A i, j \in DOMAIN side : i # j => side[i].sp # side[j].sp
DocStoichOK(m, doc, r) ==
    /\ NoRepeatSp(doc.rx[r].reac) /\ NoRepeatSp(doc.rx[r].prod)
    /\ \A s \in Sp : /\ SideCount(doc.rx[r].reac, s) = Count(m.prog.rx[r].re, s)
                     /\ SideCount(doc.rx[r].prod, s) = Count(m.prog.rx[r].pr, s)
KLHolds(m, XD, XS) ==
    LET am == ModelAM(m)
        dd == Export(m, FALSE)
        ds == Export(m, TRUE) IN
    \A r \in 1..Len(m.prog.rx) :
        /\ KLIdsOK(dd, r) /\ KLIdsOK(ds, r) /\ DocStoichOK(m, dd, r) /\ DocStoichOK(m, ds, r)
        /\ \A i \in DOMAIN XD : DefKL(dd, r, XD[i]) /\ EvalKL(dd, r, XD[i]) = RxRate4(am.rx[r], XD[i], One, am.gp)[1]
        /\ \A i \in DOMAIN XS : DefKL(ds, r, XS[i]) /\ EvalKL(ds, r, XS[i]) = RxRate4(am.rx[r], XS[i], One, am.gp)[2]

\* ------------------------------------------------------------------ C13: scoping and rule order
\* meaning of a document as the property states it (no reaction order, rule SET)
DocSem(doc, X) ==
    LET am == Import(doc) IN
    [init |-> am.init, par |-> am.gp, stoich |-> [r \in 1..am.nrx |-> am.rx[r].sto],
     assigned |-> {[target |-> am.rules[j].target, freq |-> FreqSem(am.rules[j].freq)] : j \in DOMAIN am.rules},
     post  |-> [i \in DOMAIN X |-> ApplySim(am.rules, X[i], am.gp)],
     deriv |-> [i \in DOMAIN X |-> AMDeriv(am, X[i])]]

\* renaming a local parameter apart (in its own reaction only) preserves the meaning
RenameLocal(doc, r, old, new) ==
    [doc EXCEPT !.rx[r].locals = [j \in DOMAIN @ |-> IF @[j].id = old THEN [id |-> new, val |-> @[j].val] ELSE @[j]],
                !.rx[r].kl = RenE(@, old, new)]
Fresh(doc, r, old) == old \o "_" \o doc.rx[r].id
ScopingLemma(doc, X) ==
    \A r \in DOMAIN doc.rx : \A j \in DOMAIN doc.rx[r].locals :
        LET old == doc.rx[r].locals[j].id IN
        DocSem(RenameLocal(doc, r, old, Fresh(doc, r, old)), X) = DocSem(doc, X)

\* design level of an implementation with ONE namespace (bioscrape): locals that collide with an already
\* known name are renamed <id>_<reaction id>, then every local is added to the global list
RECURSIVE Flatten(_, _)
Flatten(doc, r) ==
    IF r > Len(doc.rx) THEN doc
    ELSE LET RECURSIVE One1(_, _)
             One1(d, j) ==
                 IF j > Len(d.rx[r].locals) THEN d
                 ELSE LET old == d.rx[r].locals[j].id
                          known == {d.params[i].id : i \in DOMAIN d.params}
                          d1 == IF old \in known THEN RenameLocal(d, r, old, Fresh(d, r, old)) ELSE d IN
                      One1([d1 EXCEPT !.params = Append(@, d1.rx[r].locals[j])], j + 1)
             d2 == One1(doc, 1) IN
         Flatten([d2 EXCEPT !.rx[r].locals = << >>], r + 1)
FlatNamesFresh(doc) == \A r \in DOMAIN doc.rx : \A j \in DOMAIN doc.rx[r].locals :
                          LET f == Fresh(doc, r, doc.rx[r].locals[j].id) IN
                          /\ f \notin {doc.params[i].id : i \in DOMAIN doc.params}
                          /\ \A q \in DOMAIN doc.rx : \A i \in DOMAIN doc.rx[q].locals : doc.rx[q].locals[i].id # f
\* flattening preserves everything but the (enlarged) parameter list, which must still contain every global
FlattenRefines(doc, X) ==
    LET a == DocSem(Flatten(doc, 1), X)
        b == DocSem(doc, X) IN
    /\ a.init = b.init /\ a.stoich = b.stoich /\ a.assigned = b.assigned /\ a.deriv = b.deriv
    /\ \A i \in DOMAIN X : a.post[i].x = b.post[i].x
    /\ \A n \in DOMAIN b.par : n \in DOMAIN a.par /\ a.par[n] = b.par[n]

\* the order of the rule list is immaterial (rate-rule contributions are summed; assignments are simultaneous
\* and, for documents whose assignment maths do not read assigned variables, equal to bioscrape's sequential pass)
PermsOf(n) == {p \in [1..n -> 1..n] : \A i, j \in 1..n : i # j => p[i] # p[j]}
RuleOrderIndependent(doc, X) ==
    \A p \in PermsOf(Len(doc.rules)) :
        DocSem([doc EXCEPT !.rules = [i \in 1..Len(doc.rules) |-> doc.rules[p[i]]]], X) = DocSem(doc, X)
SeqEqualsSim(doc, X) == LET am == Import(doc) IN \A i \in DOMAIN X : AMDerivSeq(am, X[i]) = AMDeriv(am, X[i])
=============================================================================
