---------------------------- MODULE DelayQueue ----------------------------
(***************************************************************************)
(* bioscrape's ArrayDelayQueue (simulator.pyx:117-248).                    *)
(*                                                                         *)
(* Two levels in one module.                                               *)
(*  - PROPERTY level (what C20 states): a bag  pending[r][T]  of reaction  *)
(*    occurrences r due at absolute grid time T, counters added/delivered. *)
(*    An insertion is due at the grid time NEAREST to the requested time   *)
(*    (argmin of the distance over the slots of the current window), so    *)
(*    the earliest slot if the time has passed and the last slot if it is  *)
(*    beyond the horizon.                                                  *)
(*  - DESIGN level (what the code does): a ring buffer q.cells[r][c] with  *)
(*    start index and next-queue-time, index = floor((t-nqt)/dt + 1/2)     *)
(*    clamped, shifted by start modulo the number of columns.              *)
(* Refine is the refinement mapping between them; it is an invariant.      *)
(*                                                                         *)
(* Time is an integer number of quarter grid steps (dt = 4 units), so      *)
(* "between two grid times but never exactly half-way" is  d % 4 # 2.      *)
(* A second queue object  aux  models copy / clear_copy / partition and    *)
(* Swap continues the history on the copy.                                 *)
(***************************************************************************)
EXTENDS Integers, Sequences, FiniteSets, TLC

CONSTANTS NR,        \* number of reactions (rows)
          NC,        \* number of slots (columns)
          MaxAdded,  \* bound on the total amount inserted (state constraint)
          StartTimes \* set of initial "current time" values (quarter units)

DT == 4
Rxn == 1..NR
Col == 0..(NC-1)

VARIABLES q,        \* design: [cells : Rxn -> Col -> Nat, start : Col, nqt : Int]
          pending,  \* property: Rxn -> (absolute time) -> Nat, as a function on a finite window
          added, delivered,   \* Rxn -> Nat
          lastT,    \* time of the last delivery, or NoT
          auxKind,  \* "none" | "copy" | "partition": which of aux / aux2 are live objects
          aux,      \* a second queue [cells, start, nqt] (copy / partition part 1)
          aux2      \* partition part 2

CONSTANT WithCopies  \* BOOLEAN: include copy / clear_copy / partition / swap in Next

vars == <<q, pending, added, delivered, lastT, auxKind, aux, aux2>>
NoT == -999999

Abs(x) == IF x < 0 THEN -x ELSE x
EmptyCells == [r \in Rxn |-> [c \in Col |-> 0]]
Sum(f, S) == LET RECURSIVE S_(_)
                 S_(T) == IF T = {} THEN 0 ELSE LET x == CHOOSE x \in T : TRUE IN f[x] + S_(T \ {x})
             IN S_(S)

\* ---------------------------------------------------------------- design level
\* index computed by add_reaction; int() truncates toward zero but the clamp at 0 makes
\* truncation and floor agree; \div is floor division in TLA+.
RawIndex(qq, t) == ((t - qq.nqt) + 2) \div DT
Clamp(i) == IF i < 0 THEN 0 ELSE IF i >= NC THEN NC - 1 ELSE i
PhysCol(qq, t) == (Clamp(RawIndex(qq, t)) + qq.start) % NC

DAdd(qq, r, t, amt) == [qq EXCEPT !.cells[r][PhysCol(qq, t)] = @ + amt]
DNext(qq) == [r \in Rxn |-> qq.cells[r][qq.start]]
DAdvance(qq) == [cells |-> [r \in Rxn |-> [qq.cells[r] EXCEPT ![qq.start] = 0]],
                 start |-> (qq.start + 1) % NC,
                 nqt   |-> qq.nqt + DT]
DSetTime(qq, t) == [qq EXCEPT !.nqt = t + DT]
\* logical (drained) view of a queue: slot j = what the j-th future read-and-advance returns
Logical(qq) == [r \in Rxn |-> [j \in Col |-> qq.cells[r][(qq.start + j) % NC]]]

\* ---------------------------------------------------------------- property level
Window(nqt) == {nqt + DT * j : j \in Col}
\* the grid time of the current window nearest to t (unique: requests are never half-way)
Nearest(nqt, t) == CHOOSE T \in Window(nqt) : \A U \in Window(nqt) : Abs(t - T) <= Abs(t - U)
HalfWay(nqt, t) == (t - nqt) % DT = 2
PendingAt(r, T) == IF T \in DOMAIN pending[r] THEN pending[r][T] ELSE 0

\* ---------------------------------------------------------------- actions
Init == /\ \E t0 \in StartTimes : q = [cells |-> EmptyCells, start |-> 0, nqt |-> t0 + DT]
        /\ pending = [r \in Rxn |-> [T \in Window(q.nqt) |-> 0]]
        /\ added = [r \in Rxn |-> 0] /\ delivered = [r \in Rxn |-> 0]
        /\ lastT = NoT /\ auxKind = "none" /\ aux = q /\ aux2 = q

ReqTimes == {t \in (q.nqt - 6)..(q.nqt + DT * NC + 5) : ~HalfWay(q.nqt, t)}

Add(r, t, amt) ==
    /\ q' = DAdd(q, r, t, amt)
    /\ pending' = [pending EXCEPT ![r][Nearest(q.nqt, t)] = @ + amt]
    /\ added' = [added EXCEPT ![r] = @ + amt]
    /\ UNCHANGED <<delivered, lastT, auxKind, aux, aux2>>

\* get_next_queue_time + get_next_reactions + advance_time
ReadAdvance ==
    /\ q' = DAdvance(q)
    /\ LET T == q.nqt IN
       /\ delivered' = [r \in Rxn |-> delivered[r] + PendingAt(r, T)]
       /\ pending' = [r \in Rxn |-> [U \in Window(q.nqt + DT) |-> IF U = T THEN 0 ELSE PendingAt(r, U)]]
       /\ lastT' = T
    /\ UNCHANGED <<added, auxKind, aux, aux2>>

\* set_current_time(t): relabels the window (used by the delay simulator before it starts)
SetTime(t) ==
    /\ q' = DSetTime(q, t)
    /\ LET delta == (t + DT) - q.nqt IN
       pending' = [r \in Rxn |-> [U \in Window(t + DT) |-> PendingAt(r, U - delta)]]
    /\ lastT' = NoT
    /\ UNCHANGED <<added, delivered, auxKind, aux, aux2>>

Copy == /\ aux' = q /\ aux2' = q /\ auxKind' = "copy"
        /\ UNCHANGED <<q, pending, added, delivered, lastT>>

ClearCopy == /\ aux' = [q EXCEPT !.cells = EmptyCells] /\ aux2' = aux' /\ auxKind' = "copy"
             /\ UNCHANGED <<q, pending, added, delivered, lastT>>

\* binomial_partition(p), input driven.  The code walks PHYSICAL columns 0..NC-1, inside them
\* reactions in order, and for a cell holding n draws n uniforms; the k-th uniform of the whole
\* call is "low" (< p, goes to part 1) according to pat: "lo" all, "hi" none, "alt" odd positions.
CellsBefore(r, c) == {<<r2, c2>> \in Rxn \X Col : c2 < c \/ (c2 = c /\ r2 < r)}
DrawsBefore(r, c) == Sum([rc \in Rxn \X Col |-> q.cells[rc[1]][rc[2]]], CellsBefore(r, c))
LowCount(pat, off, n) ==   \* number of low draws among positions off+1 .. off+n
    CASE pat = "lo" -> n
      [] pat = "hi" -> 0
      [] pat = "alt" -> Cardinality({i \in (off + 1)..(off + n) : i % 2 = 1})
Partition(pat) ==
    /\ aux'  = [q EXCEPT !.cells = [r \in Rxn |-> [c \in Col |-> LowCount(pat, DrawsBefore(r, c), q.cells[r][c])]]]
    /\ aux2' = [q EXCEPT !.cells = [r \in Rxn |-> [c \in Col |-> q.cells[r][c] - aux'.cells[r][c]]]]
    /\ auxKind' = "partition"
    /\ UNCHANGED <<q, pending, added, delivered, lastT>>

\* continue the history on the copy (the copy must be a full queue in its own right)
Swap == /\ auxKind = "copy"
        /\ q' = aux /\ aux' = q
        /\ pending' = [r \in Rxn |-> [U \in Window(aux.nqt) |->
                          aux.cells[r][(aux.start + ((U - aux.nqt) \div DT)) % NC]]]
        /\ added' = [r \in Rxn |-> Sum([c \in Col |-> aux.cells[r][c]], Col)]
        /\ delivered' = [r \in Rxn |-> 0]
        /\ lastT' = NoT
        /\ UNCHANGED <<aux2, auxKind>>

\* The times offered to Add.  Generation configs use all of ReqTimes; exhaustive model-checking
\* configs substitute RepTimes (one request per equivalence class: before the window, on each
\* slot, between, beyond the horizon) - sound because NearestIsFloorClamp is checked for EVERY
\* time of ReqTimes in every reachable state.
AddTimes == ReqTimes
RepTimes == {q.nqt - 5, q.nqt + DT * NC + 5} \cup {q.nqt + DT * j : j \in Col} \cup {q.nqt + 1, q.nqt + 3}

Next == \/ \E r \in Rxn, t \in AddTimes, amt \in {1, 2} : Add(r, t, amt)
        \/ ReadAdvance
        \/ \E t \in {q.nqt - DT + 1, q.nqt - DT - 3, q.nqt + 2} : SetTime(t)
        \/ (WithCopies /\ (Copy \/ ClearCopy \/ Swap))
        \/ (WithCopies /\ \E pat \in {"lo", "hi", "alt"} : Partition(pat))

Spec == Init /\ [][Next]_vars

\* ---------------------------------------------------------------- properties
TotalAdded == Sum(added, Rxn)
Bound == TotalAdded <= MaxAdded

TypeOK == /\ q.start \in Col /\ q.nqt \in Int
          /\ \A r \in Rxn : \A c \in Col : q.cells[r][c] \in Nat

\* refinement mapping: ring buffer cell = bag entry at the corresponding absolute time
Refine == \A r \in Rxn : \A j \in Col :
             q.cells[r][(q.start + j) % NC] = PendingAt(r, q.nqt + DT * j)

\* nothing lost, nothing duplicated
ExactlyOnce == \A r \in Rxn :
                  /\ added[r] = delivered[r] + Sum(pending[r], DOMAIN pending[r])
                  /\ added[r] = delivered[r] + Sum([c \in Col |-> q.cells[r][c]], Col)

\* what the code returns at a read is what the bag says is due at that time (action property,
\* so it is evaluated on every transition, also those into already-seen states)
ReadCorrect == [][ReadAdvance => DNext(q) = [r \in Rxn |-> PendingAt(r, q.nqt)]]_vars

\* slots are delivered in increasing time order (action property)
InOrder == [][(lastT # NoT /\ lastT' # NoT) => lastT' >= lastT]_vars
InOrderStrict == [][(ReadAdvance /\ lastT # NoT) => lastT' > lastT]_vars

\* copies: same logical content at the moment of the copy, original untouched (UNCHANGED above);
\* partition: cellwise split
CopyOK == [][(Copy => aux' = q /\ q' = q) /\ (ClearCopy => Logical(aux') = EmptyCells /\ aux'.nqt = q.nqt /\ q' = q)]_vars
PartitionOK == [][(\E pat \in {"lo", "hi", "alt"} : Partition(pat)) =>
                 /\ \A r \in Rxn, c \in Col : aux'.cells[r][c] + aux2'.cells[r][c] = q.cells[r][c]
                 /\ \A r \in Rxn, c \in Col : aux'.cells[r][c] >= 0 /\ aux2'.cells[r][c] >= 0
                 /\ aux'.nqt = q.nqt /\ aux2'.nqt = q.nqt /\ aux'.start = q.start /\ aux2'.start = q.start
                 /\ q' = q]_vars
\* the independent "nearest" and the code's floor/clamp formula agree on every request
NearestIsFloorClamp == \A t \in ReqTimes : Nearest(q.nqt, t) = q.nqt + DT * Clamp(RawIndex(q, t))
=============================================================================
