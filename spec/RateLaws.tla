------------------------------ MODULE RateLaws ------------------------------
(***************************************************************************)
(* The built-in propensity types of bioscrape in their four evaluation     *)
(* modes, as documented (C01): deterministic, volume, stochastic,          *)
(* stochastic + volume.  Values are exact rationals (module Rat).          *)
(*                                                                         *)
(* A law is a record                                                       *)
(*   [type, re, k, K, n, s1, d]                                            *)
(* type \in LawTypes; re = reactant multiset as a sequence of species      *)
(* indices (mass action only); k, K rationals; n a rational exponent;      *)
(* s1, d species indices (Hill families).  A state is a sequence of        *)
(* rationals indexed by species; V a positive rational.                    *)
(***************************************************************************)
EXTENDS Rat, FiniteSets

LawTypes == {"massaction", "hillpositive", "hillnegative",
             "proportionalhillpositive", "proportionalhillnegative"}
HillTypes == LawTypes \ {"massaction"}

Count(re, s) == Cardinality({i \in 1..Len(re) : re[i] = s})
Distinct(re) == {re[i] : i \in 1..Len(re)}
Order(law) == Len(law.re)

\* falling factorial  s (s-1) ... (s-m+1)  with every factor clipped at 0
RECURSIVE FallFact(_, _)
FallFact(s, m) == IF m = 0 THEN One ELSE RMul(FallFact(s, m - 1), RMax(RSub(s, I(m - 1)), Zero))

\* product over the distinct reactants, by recursion over a set
RECURSIVE ProdOver(_, _, _, _)
ProdOver(S, re, x, stoch) ==
    IF S = {} THEN One
    ELSE LET s == CHOOSE s \in S : TRUE
             m == Count(re, s)
             f == IF stoch THEN FallFact(x[s], m) ELSE RPowN(x[s], m)
         IN RMul(f, ProdOver(S \ {s}, re, x, stoch))

MassDet(law, x) == RMul(law.k, ProdOver(Distinct(law.re), law.re, x, FALSE))
MassSto(law, x) == RMul(law.k, ProdOver(Distinct(law.re), law.re, x, TRUE))
\* order 0: multiplied by V; order r >= 1: divided by V^(r-1)
VolScale(r, val, V) == IF r = 0 THEN RMul(val, V) ELSE RDiv(val, RPowN(V, r - 1))

\* Hill term h = (c/K)^n on a concentration c; defined when the power is exactly representable
HillDefined(c, law) == HasPowQ(RDiv(c, law.K), law.n)
HillH(c, law) == RPowQ(RDiv(c, law.K), law.n)
HillCore(c, law) ==    \* the value without the proportional factor d
    LET h == HillH(c, law) IN
    IF law.type \in {"hillpositive", "proportionalhillpositive"}
    THEN RDiv(RMul(law.k, h), RAdd(One, h))
    ELSE RDiv(law.k, RAdd(One, h))
Prop(law, x) == IF law.type \in {"proportionalhillpositive", "proportionalhillnegative"} THEN x[law.d] ELSE One

Defined(law, x, V) == law.type \in {"massaction", "affine"} \/ (HillDefined(x[law.s1], law) /\ HillDefined(RDiv(x[law.s1], V), law))

\* "affine": a 'general' propensity whose rate string is  K + k*x[s1] - n*x[d]  (law.K, law.k, law.n rationals):
\* an expression is evaluated as written in every mode (no species or volume scaling), and it may be NEGATIVE
\* (e.g. a reversible reaction written as one reaction with rate kf*A - kr*B)
Affine(law, x) == RAdd(law.K, RSub(RMul(law.k, x[law.s1]), RMul(law.n, x[law.d])))
Det(law, x) == IF law.type = "massaction" THEN MassDet(law, x)
               ELSE IF law.type = "affine" THEN Affine(law, x)
               ELSE RMul(Prop(law, x), HillCore(x[law.s1], law))
Sto(law, x) == IF law.type = "massaction" THEN MassSto(law, x) ELSE Det(law, x)
Vol(law, x, V) == IF law.type = "massaction" THEN VolScale(Order(law), MassDet(law, x), V)
                  ELSE IF law.type = "affine" THEN Affine(law, x)
                  ELSE RMul(Prop(law, x), HillCore(RDiv(x[law.s1], V), law))
StoVol(law, x, V) == IF law.type = "massaction" THEN VolScale(Order(law), MassSto(law, x), V)
                     ELSE Vol(law, x, V)

\* ---------------------------------------------------------------- consistency identities (C01, M)
\* x / V component-wise
Scaled(x, V) == [i \in DOMAIN x |-> RDiv(x[i], V)]
\* dimensional consistency: for mass action and the proportional Hill laws the volume form is V
\* times the deterministic form evaluated on concentrations (a count rate is extensive); the plain
\* Hill laws are documented with a rate constant k that is NOT scaled, only the regulator is read
\* as a concentration, so for them  Vol(x, V) = Det(x / V)
DimensionOK(law, x, V) ==
    IF law.type \in {"hillpositive", "hillnegative"}
    THEN Vol(law, x, V) = Det(law, Scaled(x, V))
    ELSE Vol(law, x, V) = RMul(V, Det(law, Scaled(x, V)))
UnitVolumeOK(law, x) == Vol(law, x, One) = Det(law, x) /\ StoVol(law, x, One) = Sto(law, x)
IntegerState(x) == \A i \in DOMAIN x : IsInt(x[i]) /\ x[i][1] >= 0
\* stochastic <= deterministic on integer states, equal iff no repeated reactant or the rate is 0
StoLeDet(law, x) == (law.type = "massaction" /\ IntegerState(x)) =>
                       /\ RLe(Sto(law, x), Det(law, x))
                       /\ ((\A s \in Distinct(law.re) : Count(law.re, s) <= 1) => Sto(law, x) = Det(law, x))
                       /\ (Sto(law, x) = Zero <=> (law.k = Zero \/ \E s \in Distinct(law.re) : RLt(x[s], I(Count(law.re, s)))))
FallFactZero(s, m) == (IsInt(s) /\ s[1] >= 0) => (FallFact(s, m) = Zero <=> s[1] < m)
HillComplement(law, x) ==
    (law.type \in {"hillpositive", "hillnegative"}) =>
        LET pos == [law EXCEPT !.type = "hillpositive"]
            neg == [law EXCEPT !.type = "hillnegative"]
        IN /\ RAdd(Det(pos, x), Det(neg, x)) = law.k
           /\ RLe(Zero, Det(law, x)) /\ RLe(Det(law, x), law.k)
=============================================================================
