------------------------------- MODULE CrnGen -------------------------------
(* Program generator for Crn: programs are CONSTRUCTED BY ACTIONS (declare species, add reactions), *)
(* exhaustively for small bounds or with random choices under -simulate.  Every finished program   *)
(* is emitted with its expected stoichiometric matrices (by name), model order, and the exact net  *)
(* rate equations at a probe state.                                                                *)
EXTENDS Crn, Json

CONSTANTS MaxRx, MaxSide, MaxDSide, Mode    \* Mode \in {"exh", "sim"}

VARIABLES prog, x, pc
vars == <<prog, x, pc>>

SeqsUpTo(n) == UNION {[1..k -> Sp] : k \in 0..n}
NoRepeat(s) == \A i, j \in 1..Len(s) : i # j => s[i] # s[j]
Decls == {s \in SeqsUpTo(NS) : NoRepeat(s)}

KG == {I(2), R(1, 2), I(3)}
Pick(S) == IF Mode = "sim" THEN {RandomElement(S)} ELSE S

MassLaw(re, k) == [type |-> "massaction", re |-> SortNat(re), k |-> k, K |-> One, n |-> One, s1 |-> 1, d |-> 1]
HillLawsG == {[type |-> ty, re |-> << >>, k |-> k, K |-> KK, n |-> nn, s1 |-> s, d |-> dd] :
                ty \in HillTypes, k \in KG, KK \in {I(1), I(2)}, nn \in {I(1), I(2)}, s \in Sp, dd \in Sp}
\* general propensities with an affine rate  K + k*x[s1] - n*x[d]  (negative where the backward flux dominates);
\* as many of them as Hill laws so that the random choice meets them often
AffineLawsG == {[type |-> "affine", re |-> << >>, k |-> k, K |-> KK, n |-> nn, s1 |-> s, d |-> dd] :
                  k \in KG, KK \in {Zero, I(1)}, nn \in {I(1), I(3), R(5, 2), I(4)}, s \in Sp, dd \in Sp}
NoDelay == [type |-> "none", p1 |-> Zero, p2 |-> Zero]
DelaysG == {NoDelay, [type |-> "fixed", p1 |-> R(3, 2), p2 |-> Zero],
            [type |-> "gaussian", p1 |-> I(2), p2 |-> R(1, 2)], [type |-> "gamma", p1 |-> I(2), p2 |-> R(1, 2)]}
XG == {I(0), I(1), I(2), I(3), R(1, 2), R(5, 2)}

\* probe states of the exhaustive mode (a handful; the rate laws themselves are swept by C01)
ExhX == {[s \in Sp |-> I(s)], [s \in Sp |-> R(2 * s - 1, 2)], [s \in Sp |-> I((s + 1) % 3)]}

\* the declared species list is chosen by an action (under -simulate Init is evaluated once per run)
Init == /\ prog = [decl |-> << >>, rx |-> << >>]
        /\ x = [s \in Sp |-> One] /\ pc = "declare"
Declare == /\ pc = "declare"
           /\ \E d \in Pick(Decls) : prog' = [prog EXCEPT !.decl = d]
           /\ pc' = "build" /\ x' = x

AddRx == /\ pc = "build" /\ Len(prog.rx) < MaxRx
         /\ \E re \in Pick(SeqsUpTo(MaxSide)), pr \in Pick(SeqsUpTo(MaxSide)),
              dre \in Pick(SeqsUpTo(MaxDSide)), dpr \in Pick(SeqsUpTo(MaxDSide)) :
            \E law \in (IF Mode = "sim" THEN Pick({MassLaw(re, k) : k \in KG} \cup HillLawsG \cup AffineLawsG) ELSE {MassLaw(re, I(2))}),
              dl \in (IF Mode = "sim" THEN Pick(DelaysG)
                      ELSE IF dre = << >> /\ dpr = << >> THEN {NoDelay} ELSE {[type |-> "fixed", p1 |-> R(3, 2), p2 |-> Zero]}),
              nm \in (IF Mode = "sim" THEN Pick(BOOLEAN) ELSE {Len(re) % 2 = 0}),
              \* history: an attempt to add another reaction was REJECTED just before this one (a Hill law on a species the
              \* model does not have); a rejected attempt leaves the program as it was - "rej" is not part of its meaning
              rj \in (IF Mode = "sim" THEN Pick({FALSE, FALSE, TRUE}) ELSE {FALSE}) :
              prog' = [prog EXCEPT !.rx = Append(@, [re |-> re, pr |-> pr, dre |-> dre, dpr |-> dpr, law |-> law,
                                                     delay |-> dl, named |-> nm, unset |-> FALSE, rej |-> rj])]
         /\ UNCHANGED <<x, pc>>

\* one reaction may refer to a named parameter that never receives a value
AddUnsetRx == /\ pc = "build" /\ Len(prog.rx) < MaxRx /\ Len(prog.rx) >= 1
              /\ \A r \in 1..Len(prog.rx) : ~prog.rx[r].unset
              /\ \E re \in Pick(SeqsUpTo(1)) :
                   prog' = [prog EXCEPT !.rx = Append(@, [re |-> re, pr |-> << >>, dre |-> << >>, dpr |-> << >>,
                                                          law |-> MassLaw(re, I(1)), delay |-> NoDelay,
                                                          named |-> TRUE, unset |-> TRUE, rej |-> FALSE])]
              /\ UNCHANGED <<x, pc>>

Finish == /\ pc = "build"
          \* (IF-THEN-ELSE, not => or \/: TLC splits an action on every top-level disjunction, which
          \*  would emit the same successor several times under -simulate)
          /\ IF Mode = "exh" THEN Len(prog.rx) = MaxRx
             ELSE Len(prog.rx) >= 1 /\ (IF Len(prog.rx) = MaxRx THEN TRUE ELSE RandomElement(1..3) = 1)
          /\ \E xx \in (IF Mode = "sim" THEN Pick([Sp -> XG]) ELSE ExhX) : (RateDefined(prog, xx) = TRUE) /\ x' = xx
          /\ pc' = "done" /\ prog' = prog

Next == Declare \/ AddRx \/ AddUnsetRx \/ Finish
Spec == Init /\ [][Next]_vars

Refinement == IndexRefinesName(prog) /\ Cancels(prog)
\* the matrices and the rate equations do not depend on the rejected attempts of the history
Forget(p) == [p EXCEPT !.rx = [r \in 1..Len(p.rx) |-> [p.rx[r] EXCEPT !.rej = FALSE]]]
RejectedAttemptsLeaveNoTrace == pc = "done" =>
    /\ \A sp \in Sp, r \in 1..Len(prog.rx) : StoichN(Forget(prog).rx[r], sp) = StoichN(prog.rx[r], sp) /\ DStoichN(Forget(prog).rx[r], sp) = DStoichN(prog.rx[r], sp)
    /\ Deriv(Forget(prog), x) = Deriv(prog, x) /\ ModelOrder(Forget(prog)) = ModelOrder(prog)
\* an unset parameter can never be simulated: InitOutcome is "unspecified" whenever one is referenced
UnsetBlocks == (\E r \in 1..Len(prog.rx) : prog.rx[r].unset) <=> InitOutcome(prog) = "unspecified"

Emit == pc = "done" =>
    PrintT(ToJson([prog |-> prog, ns |-> NS, order |-> ModelOrder(prog),
                   stoich  |-> [s \in Sp |-> [r \in 1..Len(prog.rx) |-> StoichN(prog.rx[r], s)]],
                   dstoich |-> [s \in Sp |-> [r \in 1..Len(prog.rx) |-> DStoichN(prog.rx[r], s)]],
                   x |-> x, rates |-> [r \in 1..Len(prog.rx) |-> Det(prog.rx[r].law, x)],
                   deriv |-> Deriv(prog, x), init |-> InitOutcome(prog)]))
=============================================================================
