------------------------------ MODULE Lifecycle ------------------------------
(***************************************************************************)
(* Life cycle of bioscrape Model / LineageModel objects (C08, C17).        *)
(*                                                                         *)
(* A WORLD is a heap:                                                      *)
(*   objs  model objects [fam, sp, spA, par, parA, rx, rules, lin, dummy,  *)
(*         init, crx, crules, clin, pyrx, pylin, upd]                      *)
(*         - the DEFINITION (def): species names in model order (values in *)
(*           the array spA), parameter names in model order (values in the *)
(*           array parA), reaction / rule / lineage-item instances         *)
(*           [t, pn] = menu template + the parameter names it is bound to; *)
(*         - the design state: `init` (the initialized flag), the C-level  *)
(*           vectors crx / crules / clin[k] as sequences of indices into   *)
(*           the definition's lists (what _create_vectors registered at    *)
(*           the last initialisation), the python lists that pickling      *)
(*           rebuilds the vectors from (pyrx, pylin), and `upd`, the       *)
(*           species order / reaction count the stoichiometric matrices    *)
(*           were built for;                                               *)
(*   arrs  numpy array OBJECTS: arrs[a] = contents.  _add_species and      *)
(*         _add_param RE-ALLOCATE (a new array object, old one unchanged), *)
(*         set_parameter / set_species / check_species write IN PLACE;     *)
(*   itfs  simulation interfaces [m, kind, spA, parA, cur, nrx, nsp]: the  *)
(*         array objects they hold, whether the matrices they copied are   *)
(*         still the model's (cur), the sizes frozen at construction;      *)
(*   gen   the single shared generator [seed, n]: last seed and the number *)
(*         of stochastic simulations since;  gsim: the module-level        *)
(*         pointer used by the ODE right-hand side.                        *)
(*                                                                         *)
(* Every API call is a FUNCTION world -> [w, out] (out = "ok" or the       *)
(* exception class), so calls compose: Simulate = (initialise on demand ;  *)
(* build an interface ; check_interface ; run).  The module describes the  *)
(* INTENDED design; four design switches transcribe known or plausible     *)
(* deviations and TLC must REFUTE each of them (vacuity guard):            *)
(*   VecDesign  "clear" | "noclear"  _create_vectors appends without       *)
(*              clearing (LineageModel on the pinned tree)                 *)
(*   FlagDesign "reset" | "forget"   an edit keeps initialized = TRUE      *)
(*   DetDesign  "share" | "rebind"   the deterministic simulator re-binds  *)
(*              the interface's parameter array to a private copy (what    *)
(*              the code does when the model has rules; C08 compares       *)
(*              through the model, so the replay only COUNTS an interface  *)
(*              that stopped sharing - the invariant shows what is lost)   *)
(*   SimDesign  "copy" | "alias"     a simulator works on initial_state    *)
(*              itself, CopyDesign "fresh" | "shared" arrays of a copy     *)
(***************************************************************************)
EXTENDS Expr
RL == INSTANCE RateLaws

CONSTANTS NSp,          \* species are S1 .. S_NSp
          RxMenu,       \* sequence of reaction templates   (RxT below)
          RuleMenu,     \* sequence of rule templates       (RuleT)
          LinMenu,      \* sequence of lineage templates    (LinT)
          VecDesign, FlagDesign, DetDesign, SimDesign, CopyDesign

\* ------------------------------------------------------------------ values and names
Unset == I(-1)            \* species without an initial value (the code stores -1)
NaN   == <<0, 0>>         \* parameter without a value
Dirty == <<1, 0>>         \* written by a rule during a simulation: unconstrained
IsVal(v) == v[2] # 0
SpName(i) == "S" \o ToString(i)
SpNames(s) == [j \in 1..Len(s) |-> SpName(s[j])]
DummyName(cls, key, c) == "DummyVar_" \o cls \o "_" \o key \o "_" \o ToString(c)

Pos(s, x) == IF \E j \in 1..Len(s) : s[j] = x THEN CHOOSE j \in 1..Len(s) : s[j] = x ELSE 0
Has(s, x) == \E j \in 1..Len(s) : s[j] = x
Ident(n) == [j \in 1..n |-> j]
PrefixOf(s, t) == Len(s) <= Len(t) /\ \A j \in 1..Len(s) : s[j] = t[j]

\* ------------------------------------------------------------------ templates
\* parameter slot of a template: literal (nm = "", a DummyVar parameter with value lit is created)
\* or named (nm = parameter name)
Slot(key, nm, lit) == [key |-> key, nm |-> nm, lit |-> lit]
Lit(key, q) == Slot(key, "", q)
Named(key, nm) == Slot(key, nm, Zero)
\* reaction template.  slots: propensity parameters in the order create_propensity checks them
\* (massaction: k; Hill: k, K, n; general: the names of the rate string); nord: the order in which
\* _add_reaction adds the NAMED ones (Hill: K, n, k); dslots: delay parameters (fixed: delay;
\* gaussian: mean, std; gamma: k, theta).  expr: rate tree of a general propensity, EPar(j) = slot j.
RxT(re, pr, dre, dpr, ptype, cls, s1, d, slots, nord, expr, dtype, dcls, dslots) ==
    [re |-> re, pr |-> pr, dre |-> dre, dpr |-> dpr, ptype |-> ptype, cls |-> cls, s1 |-> s1, d |-> d,
     slots |-> slots, nord |-> nord, expr |-> expr, dtype |-> dtype, dcls |-> dcls, dslots |-> dslots]
\* rule template: rtype additive | assignment | ode; freq repeat | dt | start | <time>; target a species
\* number (tsp) or a parameter name (tpar, tsp = 0); rhs tree with EPar(j) = pars[j]
RuleT(rtype, freq, tsp, tpar, expr, pars) ==
    [rtype |-> rtype, freq |-> freq, tsp |-> tsp, tpar |-> tpar, expr |-> expr, pars |-> pars]
\* lineage template: kind vrule | divrule | deathrule | vevent | divevent | deathevent; ltype the API
\* type string; slots literal / named parameters of the rule or event; prop: index into RxMenu of the
\* template that supplies an event's propensity (0 for rules); free: the item mentions neither a
\* species nor a parameter; split: volume splitter options index (division items)
LinT(kind, ltype, cls, slots, expr, sp, prop, split) ==
    [kind |-> kind, ltype |-> ltype, cls |-> cls, slots |-> slots, expr |-> expr, sp |-> sp, prop |-> prop, split |-> split]
LinKinds == <<"vrule", "deathrule", "divrule", "vevent", "divevent", "deathevent">>
KindNo(k) == Pos(LinKinds, k)
\* python lists that are appended by the create_* call itself (the others are rebuilt by _create_vectors)
EagerKinds == {"vrule", "deathrule"}

Inst(t, pn) == [t |-> t, pn |-> pn]

\* ------------------------------------------------------------------ world
NoUpd == [sp |-> << >>, nrx |-> 0, some |-> FALSE]
EmptyLin == [k \in 1..6 |-> << >>]
NewObj(fam, spA, parA) ==
    [fam |-> fam, sp |-> << >>, spA |-> spA, par |-> << >>, parA |-> parA, rx |-> << >>, rules |-> << >>,
     lin |-> EmptyLin, dummy |-> 0, init |-> FALSE, crx |-> << >>, crules |-> << >>, clin |-> EmptyLin,
     pyrx |-> 0, pylin |-> [k \in 1..6 |-> 0], upd |-> NoUpd]
EmptyWorld == [objs |-> << >>, arrs |-> << >>, itfs |-> << >>, gen |-> [seed |-> 0, n |-> 0], gsim |-> 0]
WithNewObj(w, fam) ==
    LET a == Len(w.arrs) IN
    [w EXCEPT !.arrs = @ \o << << >>, << >> >>, !.objs = Append(@, NewObj(fam, a + 1, a + 2))]

SpVals(w, o) == w.arrs[w.objs[o].spA]
ParVals(w, o) == w.arrs[w.objs[o].parA]
ParVal(w, o, nm) == ParVals(w, o)[Pos(w.objs[o].par, nm)]
Res(w, out) == [w |-> w, out |-> out]
Flag(ob) == IF FlagDesign = "forget" THEN ob.init ELSE FALSE      \* the value an edit leaves in `initialized`

\* ------------------------------------------------------------------ edits
\* Model._add_species: the flag is reset even when the species exists; a new species re-allocates
AddSp1(w, o, name) ==
    LET ob == w.objs[o] IN
    IF Has(ob.sp, name) THEN [w EXCEPT !.objs[o].init = Flag(ob)]
    ELSE [w EXCEPT !.arrs = Append(@, Append(w.arrs[ob.spA], Unset)),
                   !.objs[o] = [ob EXCEPT !.init = Flag(ob), !.sp = Append(@, name), !.spA = Len(w.arrs) + 1]]
RECURSIVE AddSpSeq(_, _, _)
AddSpSeq(w, o, names) == IF names = << >> THEN w ELSE AddSpSeq(AddSp1(w, o, Head(names)), o, Tail(names))

\* Model._add_param
AddPar1(w, o, name) ==
    LET ob == w.objs[o] IN
    IF Has(ob.par, name) THEN [w EXCEPT !.objs[o].init = Flag(ob)]
    ELSE [w EXCEPT !.arrs = Append(@, Append(w.arrs[ob.parA], NaN)),
                   !.objs[o] = [ob EXCEPT !.init = Flag(ob), !.par = Append(@, name), !.parA = Len(w.arrs) + 1]]
RECURSIVE AddParSeq(_, _, _)
AddParSeq(w, o, names) == IF names = << >> THEN w ELSE AddParSeq(AddPar1(w, o, Head(names)), o, Tail(names))

WritePar(w, o, name, v) == [w EXCEPT !.arrs[w.objs[o].parA][Pos(w.objs[o].par, name)] = v]
WriteSp(w, o, name, v) == [w EXCEPT !.arrs[w.objs[o].spA][Pos(w.objs[o].sp, name)] = v]

\* set_parameter(name, v): adds an unknown name; set_params({name: v}): ignores an unknown name
SetPar(w, o, name, v, how) ==
    IF Has(w.objs[o].par, name) THEN WritePar(w, o, name, v)
    ELSE IF how = "set_parameter" THEN WritePar(AddPar1(w, o, name), o, name, v) ELSE w
\* set_species({name: v}) ignores an unknown name
SetSp(w, o, name, v) == IF Has(w.objs[o].sp, name) THEN WriteSp(w, o, name, v) ELSE w

\* _param_dict_check over the slots of one object: every literal becomes a DummyVar parameter numbered by
\* the model's counter; returns the world and the parameter names the slots are bound to
RECURSIVE Bind(_, _, _, _, _)
Bind(w, o, slots, cls, acc) ==
    IF slots = << >> THEN [w |-> w, pn |-> acc]
    ELSE LET s == Head(slots) IN
         IF s.nm # "" THEN Bind(w, o, Tail(slots), cls, Append(acc, s.nm))
         ELSE LET nm == DummyName(cls, s.key, w.objs[o].dummy)
                  w1 == WritePar(AddPar1(w, o, nm), o, nm, s.lit)
              IN Bind([w1 EXCEPT !.objs[o].dummy = @ + 1], o, Tail(slots), cls, Append(acc, nm))
NamedIn(slots, order) == LET s == [j \in 1..Len(order) |-> slots[order[j]]] IN
                         SelectSeq([j \in 1..Len(s) |-> s[j].nm], LAMBDA n : n # "")

\* Model.create_reaction
AddRx(w, o, t) ==
    LET T == RxMenu[t]
        w1 == AddSpSeq(w, o, SpNames(T.re \o T.pr))
        b1 == Bind([w1 EXCEPT !.objs[o].init = Flag(w1.objs[o])], o, T.slots, T.cls, << >>)
        w2 == AddSpSeq(b1.w, o, SpNames(T.dre \o T.dpr))
        b2 == Bind(w2, o, T.dslots, T.dcls, << >>)
        w3 == AddParSeq(AddParSeq(b2.w, o, NamedIn(T.slots, T.nord)), o, NamedIn(T.dslots, Ident(Len(T.dslots))))
    IN [w3 EXCEPT !.objs[o].rx = Append(@, Inst(t, b1.pn \o b2.pn)), !.objs[o].init = Flag(w3.objs[o])]
\* species a template needs to exist already (regulators and names inside expressions are not declared by the call)
RECURSIVE SpOf(_)
SpOf(e) == IF e.a = << >> THEN (IF e.k = "sp" THEN {e.i} ELSE {})
           ELSE SpOf(e.a[1]) \cup (IF Len(e.a) > 1 THEN SpOf(e.a[2]) ELSE {})
RxNeeds(T) == (IF T.s1 > 0 THEN {T.s1} ELSE {}) \cup (IF T.d > 0 THEN {T.d} ELSE {}) \cup SpOf(T.expr)
HasSpecies(w, o, S) == \A i \in S : Has(w.objs[o].sp, SpName(i))

\* Model.create_rule: parameters of the right-hand side, then a target that is no species
AddRule(w, o, u) ==
    LET T == RuleMenu[u]
        names == T.pars \o (IF T.tsp = 0 THEN <<T.tpar>> ELSE << >>)
        w1 == AddParSeq([w EXCEPT !.objs[o].init = Flag(w.objs[o])], o, names)
    IN [w1 EXCEPT !.objs[o].rules = Append(@, Inst(u, T.pars))]
RuleNeeds(T) == SpOf(T.expr) \cup (IF T.tsp > 0 THEN {T.tsp} ELSE {})

\* LineageModel.create_*_rule / create_*_event.  Events: propensity literals, event literals, then the
\* named parameters of the event and of the propensity.  A rule that mentions no parameter and no
\* species reaches no call that resets the flag: add_lineage_rule itself must reset it.
AddLin(w, o, l) ==
    LET T == LinMenu[l]
        k == KindNo(T.kind)
        P == IF T.prop > 0 THEN RxMenu[T.prop] ELSE RxMenu[1]
        b0 == IF T.prop > 0 THEN Bind(w, o, P.slots, P.cls, << >>) ELSE [w |-> w, pn |-> << >>]
        b1 == Bind(b0.w, o, T.slots, T.cls, << >>)
        w2 == AddParSeq(b1.w, o, NamedIn(T.slots, Ident(Len(T.slots))))
        w3 == IF T.prop > 0 THEN AddParSeq(w2, o, NamedIn(P.slots, P.nord)) ELSE w2
        w4 == [w3 EXCEPT !.objs[o].init = Flag(w3.objs[o])]
    IN [w4 EXCEPT !.objs[o].lin[k] = Append(@, Inst(l, b1.pn \o b0.pn)),
                  !.objs[o].pylin[k] = IF T.kind \in EagerKinds THEN @ + 1 ELSE @]
LinNeeds(T) == SpOf(T.expr) \cup (IF T.sp > 0 THEN {T.sp} ELSE {})
               \cup (IF T.prop > 0 THEN RxNeeds(RxMenu[T.prop]) ELSE {})

\* ------------------------------------------------------------------ initialisation
\* _create_vectors: clear and refill from the definition's lists
Refill(old, n) == IF VecDesign = "noclear" THEN old \o Ident(n) ELSE Ident(n)
\* Model._initialize: vectors, matrices (new array objects: every interface built earlier holds the old
\* ones), check_parameters (raises, flag untouched), check_species (unset -> 0 in place), flag
Init1(w, o) ==
    LET ob == w.objs[o]
        ob1 == [ob EXCEPT !.crx = Refill(ob.crx, Len(ob.rx)), !.pyrx = Len(ob.rx),
                          !.crules = Refill(ob.crules, Len(ob.rules)),
                          !.clin = [k \in 1..6 |-> Refill(ob.clin[k], Len(ob.lin[k]))],
                          !.pylin = [k \in 1..6 |-> Len(ob.lin[k])],
                          !.upd = [sp |-> ob.sp, nrx |-> Len(ob.rx), some |-> TRUE]]
        w1 == [w EXCEPT !.objs[o] = ob1,
                        !.itfs = [i \in DOMAIN w.itfs |-> IF w.itfs[i].m = o THEN [w.itfs[i] EXCEPT !.cur = FALSE] ELSE w.itfs[i]]]
    IN IF \E j \in 1..Len(ob.par) : ParVals(w, o)[j] = NaN THEN Res(w1, "ValueError")
       ELSE Res([w1 EXCEPT !.arrs[ob.spA] = [j \in DOMAIN @ |-> IF @[j] = Unset THEN Zero ELSE @[j]],
                           !.objs[o].init = TRUE], "ok")

\* ------------------------------------------------------------------ interfaces and simulation
\* ModelCSimInterface(m) / SafeModelCSimInterface / LineageCSimInterface: initialise on demand, then hold the
\* model's CURRENT array objects and matrices
MkItf(w, o, kind) ==
    LET r == IF w.objs[o].init THEN Res(w, "ok") ELSE Init1(w, o)
        ob == r.w.objs[o]
    IN [w |-> r.w, out |-> r.out,
        it |-> [m |-> o, kind |-> kind, spA |-> ob.spA, parA |-> ob.parA, cur |-> TRUE,
                nrx |-> ob.upd.nrx, nsp |-> Len(ob.upd.sp)]]
Build(w, o, kind) ==
    LET b == MkItf(w, o, kind) IN
    IF b.out # "ok" THEN Res(b.w, b.out) ELSE Res([b.w EXCEPT !.itfs = Append(@, b.it)], "ok")

\* parameters that a REGISTERED rule assigns
AssignedBy(ob) == {RuleMenu[ob.rules[ob.crules[k]].t].tpar : k \in {k \in DOMAIN ob.crules : RuleMenu[ob.rules[ob.crules[k]].t].tsp = 0}}
\* everything a simulator reads: registered vectors resolved to instances, the sizes and array CONTENTS of
\* the interface, generator, mode
ReadTuple(w, it, mode) ==
    LET ob == w.objs[it.m] IN
    [rx |-> [k \in 1..it.nrx |-> IF k <= Len(ob.crx) THEN ob.rx[ob.crx[k]] ELSE Inst(0, << >>)],
     rules |-> [k \in DOMAIN ob.crules |-> ob.rules[ob.crules[k]]],
     lin |-> [q \in 1..6 |-> [k \in DOMAIN ob.clin[q] |-> ob.lin[q][ob.clin[q][k]]]],
     sp |-> ob.upd.sp, x0 |-> w.arrs[it.spA], par |-> ob.par, pv |-> w.arrs[it.parA],
     gen |-> w.gen, mode |-> mode]
\* the same tuple as a function of the definition alone
Canon(w, o, mode) ==
    LET ob == w.objs[o] IN
    [rx |-> ob.rx, rules |-> ob.rules, lin |-> ob.lin, sp |-> ob.sp, x0 |-> SpVals(w, o), par |-> ob.par,
     pv |-> ParVals(w, o), gen |-> w.gen, mode |-> mode]

\* run a simulator on an interface record; via = index in itfs (0: a temporary interface)
Run(w, it, mode, via) ==
    LET ob == w.objs[it.m]
        dirty == [j \in DOMAIN w.arrs[it.parA] |-> IF ob.par[j] \in AssignedBy(ob) THEN Dirty ELSE w.arrs[it.parA][j]]
        w1 == [w EXCEPT !.arrs[it.parA] = dirty,
                        !.gen = IF mode = "det" THEN @ ELSE [@ EXCEPT !.n = @ + 1],
                        !.gsim = IF mode = "det" THEN via ELSE @]
        w2 == IF SimDesign = "alias" /\ mode # "det"
              THEN [w1 EXCEPT !.arrs[it.spA] = [j \in DOMAIN @ |-> Dirty]] ELSE w1
        \* the deterministic simulator restores the parameter values it saved before integrating when the
        \* model has rules; "rebind" does so by giving the interface a private copy (the pinned tree)
        w3 == IF mode = "det" /\ via > 0 /\ Len(ob.crules) > 0 /\ DetDesign = "rebind"
              THEN [w2 EXCEPT !.arrs = Append(@, w.arrs[it.parA]), !.itfs[via].parA = Len(w2.arrs) + 1]
              ELSE w2
    IN w3

KindFor(fam, mode, safe) == IF mode = "cell" THEN (IF safe THEN "safelineage" ELSE "lineage")
                            ELSE (IF safe THEN "safe" ELSE "plain")
\* py_simulate_model(Model = m, ...) / py_SimulateSingleCell(Model = m): temporary interface
SimModel(w, o, mode, safe) ==
    LET b == MkItf(w, o, KindFor(w.objs[o].fam, mode, safe)) IN
    IF b.out # "ok" THEN [w |-> b.w, out |-> b.out, read |-> Canon(b.w, o, mode), canon |-> Canon(b.w, o, mode)]
    ELSE [w |-> Run(b.w, b.it, mode, 0), out |-> "ok", read |-> ReadTuple(b.w, b.it, mode), canon |-> Canon(b.w, o, mode)]
\* ... (Interface = itf): check_interface refuses a model that is not initialised
SimItf(w, i, mode) ==
    LET it == w.itfs[i] IN
    IF ~w.objs[it.m].init
    THEN [w |-> w, out |-> "RuntimeError", read |-> Canon(w, it.m, mode), canon |-> Canon(w, it.m, mode)]
    ELSE [w |-> Run(w, it, mode, i), out |-> "ok", read |-> ReadTuple(w, it, mode), canon |-> Canon(w, it.m, mode)]

Seed(w, s) == [w EXCEPT !.gen = [seed |-> s, n |-> 0]]

\* ------------------------------------------------------------------ copies
\* pickle.loads(pickle.dumps(m)) / copy.deepcopy(m): same definition and flag, NEW array objects; the C vectors
\* are rebuilt from the pickled python lists (propensities / delays as of the last initialisation, the full
\* current rule list), no interface is copied
CopyObj(w, o) ==
    LET ob == w.objs[o]
        a == Len(w.arrs)
        c == [ob EXCEPT !.spA = IF CopyDesign = "shared" THEN ob.spA ELSE a + 1,
                        !.parA = IF CopyDesign = "shared" THEN ob.parA ELSE a + 2,
                        !.crx = Ident(ob.pyrx), !.crules = Ident(Len(ob.rules)),
                        !.clin = [k \in 1..6 |-> Ident(ob.pylin[k])]]
    IN [w EXCEPT !.arrs = @ \o <<w.arrs[ob.spA], w.arrs[ob.parA]>>, !.objs = Append(@, c)]

\* the meaning of an object: its definition with values
Sem(w, o) == LET ob == w.objs[o] IN
    [fam |-> ob.fam, sp |-> ob.sp, x0 |-> SpVals(w, o), par |-> ob.par, pv |-> ParVals(w, o),
     rx |-> ob.rx, rules |-> ob.rules, lin |-> ob.lin, dummy |-> ob.dummy]

\* ------------------------------------------------------------------ garbage collection (canonical heaps)
\* array objects that nothing references are dropped and the rest renumbered in order of first reference
RECURSIVE Dedup(_, _)
Dedup(s, acc) == IF s = << >> THEN acc
                 ELSE Dedup(Tail(s), IF Has(acc, Head(s)) THEN acc ELSE Append(acc, Head(s)))
RECURSIVE FlatPairs(_)
FlatPairs(s) == IF s = << >> THEN << >> ELSE <<Head(s).spA, Head(s).parA>> \o FlatPairs(Tail(s))
Compact(w) ==
    LET live == Dedup(FlatPairs(w.objs) \o FlatPairs(w.itfs), << >>) IN
    [w EXCEPT !.arrs = [j \in 1..Len(live) |-> w.arrs[live[j]]],
              !.objs = [o \in DOMAIN w.objs |-> [w.objs[o] EXCEPT !.spA = Pos(live, @), !.parA = Pos(live, @)]],
              !.itfs = [i \in DOMAIN w.itfs |-> [w.itfs[i] EXCEPT !.spA = Pos(live, @), !.parA = Pos(live, @)]]]

\* ------------------------------------------------------------------ state predicates (M)
\* after a successful initialisation - and as long as the flag stays set - the C vectors are exactly the
\* vectors derived from the definition (nothing stale, nothing twice), the matrices are current, every
\* parameter has a value and no species is unset
VectorsCurrent(w, o) ==
    LET ob == w.objs[o] IN
    /\ ob.crx = Ident(Len(ob.rx)) /\ ob.crules = Ident(Len(ob.rules)) /\ ob.pyrx = Len(ob.rx)
    /\ \A k \in 1..6 : ob.clin[k] = Ident(Len(ob.lin[k]))
    /\ ob.upd = [sp |-> ob.sp, nrx |-> Len(ob.rx), some |-> TRUE]
    /\ \A j \in 1..Len(ob.par) : ParVals(w, o)[j] # NaN
    /\ \A j \in 1..Len(ob.sp) : SpVals(w, o)[j] # Unset
InitialisedMeansCurrent(w) == \A o \in DOMAIN w.objs : w.objs[o].init => VectorsCurrent(w, o)
\* an interface that check_interface accepts and whose matrices are still the model's sees the model:
\* same sizes, and the SAME array objects (so every in-place write of the model reaches it)
AcceptedSeesModel(w) == \A i \in DOMAIN w.itfs :
    LET it == w.itfs[i]  ob == w.objs[it.m] IN
    (it.cur /\ ob.init) => /\ it.nrx = Len(ob.rx) /\ it.nsp = Len(ob.sp)
                           /\ it.spA = ob.spA /\ it.parA = ob.parA
\* no two models share an array object
ArraysDisjoint(w) == \A o, p \in DOMAIN w.objs : o # p =>
    {w.objs[o].spA, w.objs[o].parA} \cap {w.objs[p].spA, w.objs[p].parA} = {}
\* species values up to the normalisation unset -> 0 that initialisation performs
NormX(x) == [j \in DOMAIN x |-> IF x[j] = Unset THEN Zero ELSE x[j]]
\* a simulation leaves the initial condition and every parameter no registered rule assigns unchanged
SimKeeps(w, w2, o) ==
    LET ob == w2.objs[o] IN
    /\ (SpVals(w2, o) = SpVals(w, o) \/ SpVals(w2, o) = NormX(SpVals(w, o)))
    /\ w2.objs[o].par = w.objs[o].par
    /\ \A j \in 1..Len(ob.par) : (ob.par[j] \notin AssignedBy(ob)) => ParVals(w2, o)[j] = ParVals(w, o)[j]
\* the other objects keep their meaning
OthersKeep(w, w2, o) == \A p \in DOMAIN w.objs : p # o => Sem(w2, p) = Sem(w, p)
=============================================================================
