INIT GInit
NEXT GNextSim
CONSTANTS
  NR = 2
  NC = 4
  MaxAdded = 100
  StartTimes <- StartTimesDef
  WithCopies = TRUE
  HLen = 40
INVARIANT Emit
INVARIANT Refine
INVARIANT ExactlyOnce
CHECK_DEADLOCK FALSE
