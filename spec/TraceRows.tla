------------------------------ MODULE TraceRows ------------------------------
(***************************************************************************)
(* Rows-only validation (code -> spec, C06) - needs NO hook: only the rows *)
(* a stochastic simulation reports.  For every pair of consecutive rows    *)
(* a -> b of a real run on a CLOSED network (every reaction has reactants  *)
(* and does not increase the total count, so the reachable set is finite)  *)
(* the specification must contain a feasible path: a sequence of firings,  *)
(* each ENABLED (positive stochastic propensity, and in safe mode its net  *)
(* consumption available) in the state where it fires, that turns a into   *)
(* b.  This is lattice membership AND order feasibility; it also gives     *)
(* absorption (Lambda(a) = 0 forces b = a) and non-negativity.  Because a  *)
(* feasible path never needs to repeat a state, exploring the finite       *)
(* reachable set is complete: a pair without a path is a violation, not an *)
(* inconclusive result.                                                    *)
(***************************************************************************)
EXTENDS SsaCore, Json, IOUtils, TLC

Batch == JsonDeserialize(IOEnv.TRACE_FILE)
VARIABLES tid

Enabled(T, st) == LET a == Props(T.prog, st, T.safe, T.vol, T.V) IN {r \in 1..NRx(T.prog) : a[r] # Zero}
RECURSIVE Reach(_, _, _)
Reach(T, frontier, seen) ==
    IF frontier = {} THEN seen
    ELSE LET fresh == {y \in UNION {{AddVec(st, Col(T.prog, r, TRUE)) : r \in Enabled(T, st)} : st \in frontier} : y \notin seen} IN
         Reach(T, fresh, seen \cup fresh)
Feasible(T, a, b) == a = b \/ b \in Reach(T, {a}, {a})

FirstBad(T) == LET bad == {i \in 1..(Len(T.rows) - 1) : ~Feasible(T, T.rows[i], T.rows[i + 1])} IN
               IF bad = {} THEN 0 ELSE CHOOSE i \in bad : \A j \in bad : i <= j
Clause(T) == IF Len(T.rows) = 0 THEN "no-rows"
             ELSE IF T.rows[1] # T.x0 THEN "first-row-not-initial"
             ELSE IF \E i \in 1..Len(T.rows) : ~NonNeg(T.rows[i]) THEN "negative"
             ELSE IF FirstBad(T) # 0 THEN "no-feasible-path"
             ELSE "none"

Init == tid = 1
Next == /\ tid <= Len(Batch)
        /\ LET T == Batch[tid]
               c == Clause(T) IN
           PrintT(ToJson([tid |-> T.id, verdict |-> IF c = "none" THEN "accepted" ELSE "rejected", clause |-> c,
                          at |-> IF c = "no-feasible-path" THEN FirstBad(T) ELSE 0, rows |-> Len(T.rows)]))
        /\ tid' = tid + 1
Spec == Init /\ [][Next]_tid
=============================================================================
