------------------------------ MODULE SensGen ------------------------------
(***************************************************************************)
(* Model generator for C18.  Networks are built by actions (mass action of *)
(* order 0..3 with repeats, the four Hill laws with an integer exponent,   *)
(* general rational / exponential / logarithmic / time-dependent rates),   *)
(* then a rational interior state, parameter values >= 1/10 and a time are *)
(* chosen.  Every finished model is emitted with its exact Jacobian, its   *)
(* exact sensitivity to EVERY parameter, and the Taylor coefficients that  *)
(* give each difference scheme's truncation error.  A model whose numbers  *)
(* leave the 32-bit-safe range is abandoned (never emitted).               *)
(***************************************************************************)
EXTENDS Sens, Json

CONSTANTS NS, MaxRx, Mode          \* Mode \in {"exh", "sim"}

VARIABLES rxs, roles, env, tg, pc
vars == <<rxs, roles, env, tg, pc>>

Species == 1..NS
Pick(S) == IF Mode = "sim" THEN {RandomElement(S)} ELSE S
SeqsUpTo(n) == UNION {[1..k -> Species] : k \in 0..n}
NonDec(s) == \A i \in 1..(Len(s) - 1) : s[i] <= s[i + 1]
Net(re, pr) == [s \in Species |-> RL!Count(pr, s) - RL!Count(re, s)]
NP == Len(roles)

Rx(type, re, pr, s1, d, ki, Ki, ni, e) ==
    [type |-> type, re |-> re, pr |-> pr, s1 |-> s1, d |-> d, ki |-> ki, Ki |-> Ki, ni |-> ni, e |-> e, net |-> Net(re, pr)]

\* ---- general rate templates over species a, b and parameters q+1, q+2
P(q) == EPar(q)
Tpl(name, a, b, q) ==
    CASE name = "mm"       -> EBin("div", EBin("mul", P(q + 1), ESp(a)), EBin("add", P(q + 2), ESp(b)))
      [] name = "hill2"    -> EBin("div", EBin("mul", P(q + 1), EBin("pow", ESp(a), ENum(I(2)))),
                                   EBin("add", EBin("pow", P(q + 2), ENum(I(2))), EBin("pow", ESp(a), ENum(I(2)))))
      [] name = "expdecay" -> EBin("mul", P(q + 1), EUn("exp", EUn("neg", EBin("mul", P(q + 2), ESp(a)))))
      [] name = "expratio" -> EBin("mul", EBin("mul", P(q + 1), ESp(a)), EUn("exp", EUn("neg", EBin("div", ESp(b), P(q + 2)))))
      [] name = "log"      -> EBin("mul", P(q + 1), EUn("log", EBin("add", ENum(One), EBin("div", ESp(a), P(q + 2)))))
      [] name = "time"     -> EBin("mul", EBin("mul", P(q + 1), EBin("pow", ET, ENum(I(2)))), ESp(a))
      [] name = "inv"      -> EBin("div", P(q + 1), EBin("add", ENum(One), EBin("mul", ESp(a), ESp(b))))
      [] name = "poly"     -> EBin("mul", EBin("mul", P(q + 1), ESp(a)), EBin("pow", ESp(b), ENum(I(2))))
TplRoles(name) == CASE name \in {"mm", "hill2", "expratio", "log"} -> <<"k", "K">>
                    [] name = "expdecay" -> <<"k", "c">>
                    [] OTHER -> <<"k">>
Templates == {"mm", "hill2", "expdecay", "expratio", "log", "time", "inv", "poly"}

\* ---- grids (parameters >= 1/10, interior states)
XG == {I(1), I(2), I(3), R(1, 2), R(3, 2), R(1, 64)}    \* 1/64 < 2h: the backward stencil points leave the positive orthant
GridOf(role) == CASE role = "k" -> {R(1, 10), R(1, 2), I(1), I(2), I(3)}
                  [] role = "K" -> {R(1, 2), I(1), I(2)}
                  [] role = "n" -> {I(1), I(2), I(3)}
                  [] role = "c" -> {R(1, 10), R(1, 2), I(1)}
TG == {I(0), R(1, 2), I(2)}
NoEnv == [x |-> [s \in Species |-> One], p |-> << >>, t |-> Zero, V |-> One]

NoTg == [J |-> << >>, Jc |-> << >>, Z |-> << >>, Zc |-> << >>]
Init == rxs = << >> /\ roles = << >> /\ env = NoEnv /\ tg = NoTg /\ pc = "build"

AddMass == /\ pc = "build" /\ Len(rxs) < MaxRx
           /\ \E re \in Pick({s \in SeqsUpTo(3) : NonDec(s)}), pr \in Pick(SeqsUpTo(2)) :
                 /\ rxs' = Append(rxs, Rx("massaction", re, pr, 1, 1, NP + 1, 0, 0, ENum(Zero)))
                 /\ roles' = roles \o <<"k">>
           /\ UNCHANGED <<env, tg, pc>>

AddHill == /\ pc = "build" /\ Len(rxs) < MaxRx
           /\ \E ty \in Pick(RL!HillTypes), s \in Pick(Species), off \in Pick(1..(NS - 1)),
                re \in Pick(SeqsUpTo(1)), pr \in Pick(SeqsUpTo(2)) :
                 LET dd == IF ty \in {"proportionalhillpositive", "proportionalhillnegative"}
                           THEN ((s - 1 + off) % NS) + 1 ELSE s IN      \* proportional species differs from the regulator
                 /\ rxs' = Append(rxs, Rx(ty, re, pr, s, dd, NP + 1, NP + 2, NP + 3, ENum(Zero)))
                 /\ roles' = roles \o <<"k", "K", "n">>
           /\ UNCHANGED <<env, tg, pc>>

AddGeneral == /\ pc = "build" /\ Len(rxs) < MaxRx
              /\ \E nm \in Pick(Templates), a \in Pick(Species), b \in Pick(Species),
                   re \in Pick(SeqsUpTo(1)), pr \in Pick(SeqsUpTo(2)) :
                    /\ rxs' = Append(rxs, Rx("general", re, pr, a, b, 0, 0, 0, Tpl(nm, a, b, NP)))
                    /\ roles' = roles \o TplRoles(nm)
              /\ UNCHANGED <<env, tg, pc>>

\* a Hill constant K is chosen relative to its regulator (s1/K in {1/2, 1, 2}: the higher Taylor coefficients
\* of (s1/K)^n / (1 + (s1/K)^n) then fit the 32-bit-safe range more often); still K >= 1/4
ParamFor(q, xx) ==
    IF \E r \in 1..Len(rxs) : IsLaw(rxs[r]) /\ rxs[r].Ki = q
    THEN LET r == CHOOSE r \in 1..Len(rxs) : IsLaw(rxs[r]) /\ rxs[r].Ki = q IN
         RMul(xx[rxs[r].s1], RandomElement({R(1, 2), I(1), I(2)}))
    ELSE RandomElement(GridOf(roles[q]))

\* ---- everything the record needs, computed once at Finish
Targets(en) ==
    LET jcols == [j \in Species |-> JetCol(rxs, en, NS, <<"sp", j>>)] IN
    [J  |-> Jac(rxs, en, NS),
     Jc |-> [i \in Species |-> [j \in Species |-> jcols[j][i]]],
     Z  |-> [q \in 1..NP |-> Zq(rxs, en, NS, q)],
     Zc |-> [q \in 1..NP |->
                IF roles[q] = "n"
                THEN LET r == CHOOSE r \in 1..Len(rxs) : rxs[r].ni = q
                         b == HillNBound(LawOf(rxs[r], en), en.x) IN
                     [i \in Species |-> [m \in 1..(JetOrder + 1) |->
                         IF b[m] = BigQ THEN BadV("big") ELSE QV(RMul(I(AbsI(rxs[r].net[i])), b[m]))]]
                ELSE JetCol(rxs, en, NS, <<"par", q>>)]]
AllOk(tgv) == /\ \A i \in Species, j \in Species : tgv.J[i][j].st = "ok" /\ JetOk(tgv.Jc[i][j])
             /\ \A q \in 1..NP, i \in Species : tgv.Z[q][i].st = "ok" /\ JetOk(tgv.Zc[q][i])
HillOk(en) == \A r \in 1..Len(rxs) : IsLaw(rxs[r]) => RL!Defined(LawOf(rxs[r], en), en.x, One)

Finish == /\ pc = "build" /\ Len(rxs) >= 1
          /\ IF Mode = "exh" THEN Len(rxs) = MaxRx
             ELSE (IF Len(rxs) = MaxRx THEN TRUE ELSE RandomElement(1..3) = 1)
          \* (pp is bound by \E: a LET definition would be re-evaluated, i.e. re-drawn, at every use)
          /\ \E xx \in Pick([Species -> XG]), tt \in Pick(TG) : \E pp \in {[q \in 1..NP |-> ParamFor(q, xx)]} :
               LET en == [x |-> xx, p |-> pp, t |-> tt, V |-> One] IN
               \* a tiny state (1/64 < 2h) is offered only to species that no Hill law reads as regulator or proportional
               \* species and no general template reads: there a stencil point below 0 leaves the domain of the law itself
               /\ (\A r \in 1..Len(rxs) : rxs[r].type = "massaction" \/ (RLe(R(1, 2), xx[rxs[r].s1]) /\ RLe(R(1, 2), xx[rxs[r].d]))) = TRUE
               /\ (HillOk(en)) = TRUE
               /\ \E tgv \in {Targets(en)} : (AllOk(tgv)) = TRUE /\ tg' = tgv
               /\ env' = en
          /\ pc' = "done" /\ UNCHANGED <<rxs, roles>>

Next == AddMass \/ AddHill \/ AddGeneral \/ Finish
Spec == Init /\ [][Next]_vars

\* ---------------------------------------------------------------- what TLC checks (M)
Done == pc = "done"
\* the three routes to every derivative agree
ThreeRoutes == Done =>
    \A r \in 1..Len(rxs) :
        LET rx == rxs[r]  tr == RateTree(rx) IN
        /\ TreeIsLaw(rx, env)
        /\ \A j \in Species :
              LET sym == Eval(D(tr, <<"sp", j>>), env)
                  jet == Jet(tr, env, <<"sp", j>>, 1) IN
              /\ (sym.st = "ok" /\ jet[2].st = "ok") => sym = jet[2]
              \* (a value the 32-bit-safe arithmetic cannot represent has status # "ok" and is not compared)
              /\ (IsLaw(rx) /\ sym.st = "ok") => sym = QV(LawDx(LawOf(rx, env), env.x, j))
        /\ \A q \in 1..NP :
              LET sym == Eval(D(tr, <<"par", q>>), env)
                  jet == Jet(tr, env, <<"par", q>>, 1) IN
              /\ (sym.st = "ok" /\ jet[2].st = "ok") => sym = jet[2]
              /\ (IsLaw(rx) /\ q = rx.ki /\ sym.st = "ok") => sym = OkV(LawDp(LawOf(rx, env), env.x, "k"))
              /\ (IsLaw(rx) /\ q = rx.Ki /\ sym.st = "ok") => sym = OkV(LawDp(LawOf(rx, env), env.x, "K"))
              /\ (IsLaw(rx) /\ q = rx.ni /\ sym.st = "ok") => sym = OkV(LawDp(LawOf(rx, env), env.x, "n"))
              /\ (q \notin {rx.ki, rx.Ki, rx.ni} /\ ~Mentions(tr, <<"par", q>>)) => sym = ZeroV
\* for polynomial right-hand sides (mass action only) every scheme, applied literally with h = 1/10 at the
\* emitted state, returns exactly the finite Taylor sum, and its error is the next term(s)
PolyModel == \A r \in 1..Len(rxs) : rxs[r].type = "massaction"
RECURSIVE RhsTree(_, _)
RhsTree(i, r) == IF r = 0 THEN ENum(Zero)
                 ELSE MkAdd(MkMul(ENum(I(rxs[r].net[i])), RateTree(rxs[r])), RhsTree(i, r - 1))
StencilExact == (Done /\ PolyModel) =>
    \A i \in Species, j \in Species, k \in 1..4 :
        LET c == tg.Jc[i][j]
            h == R(1, 10)
            direct == StencilDirectV(Schemes[k], RhsTree(i, Len(rxs)), env, j, h)
            series == SeriesV(Schemes[k], c, h) IN
        (direct.st = "ok" /\ series.st = "ok") => direct = series

\* ---------------------------------------------------------------- emission (G)
SVList(js) == [m \in 1..Len(js) |-> SVSeq(js[m].v)]
Emit == Done =>
    PrintT(ToJson([ns |-> NS, np |-> NP, roles |-> roles,
                   rx |-> [r \in 1..Len(rxs) |-> [type |-> rxs[r].type, re |-> rxs[r].re, pr |-> rxs[r].pr, s1 |-> rxs[r].s1,
                                                   d |-> rxs[r].d, ki |-> rxs[r].ki, Ki |-> rxs[r].Ki, ni |-> rxs[r].ni,
                                                   e |-> Enc(rxs[r].e), net |-> rxs[r].net,
                                                   rate |-> SVSeq(Eval(RateTree(rxs[r]), env).v)]],
                   x |-> env.x, p |-> env.p, t |-> env.t,
                   J |-> [i \in Species |-> [j \in Species |-> SVSeq(tg.J[i][j].v)]],
                   Jc |-> [i \in Species |-> [j \in Species |-> SVList(tg.Jc[i][j])]],
                   Z |-> [q \in 1..NP |-> [i \in Species |-> SVSeq(tg.Z[q][i].v)]],
                   Zc |-> [q \in 1..NP |-> [i \in Species |-> SVList(tg.Zc[q][i])]],
                   sc |-> [k \in 1..4 |-> [name |-> Schemes[k], coef |-> [m \in 1..JetOrder |-> StencilCoef(Schemes[k], m)]]]]))
=============================================================================
