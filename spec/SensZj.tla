------------------------------- MODULE SensZj -------------------------------
(* The perturb -> evaluate -> restore sequence of SensitivityAnalysis.compute_Zj on the parameter   *)
(* array it SHARES with the model (analysis.py:152-210), one action per statement group.            *)
(*   M      the model's parameter array (what Model.set_params writes, what the caller sees)        *)
(*   pd     the local dictionary params_dict                                                         *)
(*   log    history of evaluations: <<tag, parameter array at the evaluation>>                       *)
(* Invariants: at the end of every history M equals the original array (C18 "leaves the model's      *)
(* parameter values as they were"); every evaluation tagged +kh happened with exactly the named      *)
(* parameter shifted by k*h and all others original.                                                  *)
(* Calls are made in sequence on ONE model: between two calls the user may re-parameterise the model *)
(* (Model.set_params).  Each entry-point call (py_get_jacobian / py_get_sensitivity_to_parameter)    *)
(* builds a fresh SensitivityAnalysis, whose constructor snapshots the parameters current at THAT    *)
(* moment (Design = "fresh").  The deviation Design = "cached" (the analysis object, and with it the  *)
(* snapshot, survives from the first call) must be refuted: it evaluates at, and writes back, the    *)
(* parameters of the first call.                                                                      *)
EXTENDS Rat, TLC

CONSTANTS NPar, NState, Method,     \* Method: 1 fourth-order, 2 central, 3 forward, 4 backward
          MaxCalls, Design          \* calls in sequence on one model; "fresh" | "cached" snapshot

VARIABLES M, pd, orig, target, i, pc, log,
          user,     \* the parameters the user last gave the model: what every call must differentiate at and leave behind
          calls
vars == <<M, pd, orig, target, i, pc, log, user, calls>>

H == R(1, 4)
PG == {R(1, 10), I(1), I(2)}
Shift(f, q, k) == [f EXCEPT ![q] = RAdd(@, RMul(I(k), H))]

Init == /\ orig \in [1..NPar -> PG] /\ target \in 1..NPar
        /\ M = orig /\ pd = orig /\ i = 0 /\ pc = "f0" /\ log = << >> /\ user = orig /\ calls = 1

\* _evaluate_model(x, params_dict): set_params(params_dict), then the derivative is read
Eval0 == /\ pc = "f0" /\ M' = pd /\ log' = Append(log, <<0, pd>>) /\ pc' = "loop" /\ i' = 1 /\ UNCHANGED <<pd, orig, target, user, calls>>
Loop == /\ pc = "loop"
        /\ IF i > NState THEN pc' = "done" ELSE pc' = "plus"
        /\ UNCHANGED <<M, pd, orig, target, i, log, user, calls>>
Step(from, to, k) ==    \* params_dict[p] += k h; set_params; f = evaluate (set_params again)
        /\ pc = from /\ pd' = Shift(pd, target, k) /\ M' = Shift(pd, target, k)
        /\ log' = Append(log, <<k, Shift(pd, target, k)>>) /\ pc' = to /\ UNCHANGED <<orig, target, i, user, calls>>
Reset(from, to) ==      \* params_dict = dict(original); set_params
        /\ pc = from /\ pd' = orig /\ M' = orig /\ pc' = to /\ UNCHANGED <<orig, target, i, log, user, calls>>
ResetLocal(from, to) == \* params_dict = dict(original)   (the model is written by the next statement)
        /\ pc = from /\ pd' = orig /\ pc' = to /\ UNCHANGED <<M, orig, target, i, log, user, calls>>
Plus == Step("plus", "r1", 1)
R1 == Reset("r1", "minus")
Minus == Step("minus", "r2", -1)
R2 == /\ Reset("r2", IF Method = 1 THEN "plus2" ELSE "store")
Plus2 == Step("plus2", "r3", 2)
R3 == ResetLocal("r3", "minus2")
Minus2 == Step("minus2", "r4", -2)
R4 == Reset("r4", "store")
Store == /\ pc = "store" /\ i' = i + 1 /\ pc' = "loop" /\ UNCHANGED <<M, pd, orig, target, log, user, calls>>
\* between two calls: Model.set_params(new values), then the next entry-point call; the snapshot is taken again
\* by the constructor of the fresh analysis object (or, in the deviation, kept from the first call)
NextCall == /\ pc = "done" /\ calls < MaxCalls
            /\ \E np \in [1..NPar -> PG], tq \in 1..NPar :
                  /\ user' = np /\ M' = np /\ target' = tq
                  /\ orig' = IF Design = "cached" THEN orig ELSE np
                  /\ pd' = IF Design = "cached" THEN orig ELSE np
            /\ calls' = calls + 1 /\ i' = 0 /\ pc' = "f0" /\ log' = << >>

Next == Eval0 \/ Loop \/ Plus \/ R1 \/ Minus \/ R2 \/ Plus2 \/ R3 \/ Minus2 \/ R4 \/ Store \/ NextCall
Spec == Init /\ [][Next]_vars

Restored == pc = "done" => M = user
RestoredBetweenStates == pc = "store" => (M = user /\ pd = user)
EvalPoints == \A n \in 1..Len(log) : log[n][2] = Shift(user, target, log[n][1])
EvalCount == pc = "done" => Len(log) = 1 + NState * (IF Method = 1 THEN 4 ELSE 2)
=============================================================================
