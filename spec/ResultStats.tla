--------------------------- MODULE ResultStats ---------------------------
(* X02 - coverage of the specification beyond the listed properties: the summary statistics of a stochastic      *)
(* simulation result (SSAResult.py_empirical_distribution, py_first_moment, py_second_moment,                     *)
(* py_standard_deviation, py_correlations).                                                                      *)
(*                                                                                                               *)
(* A result is a table of T rows (reported at the times 0, 1, .., T-1) and NSp species with small integer        *)
(* counts.  The machine first fills the table row by row (one action per reported row, like the simulators),     *)
(* then a query chooses a window [s2/2, e2/2] in HALF time units (so that window ends between two grid times     *)
(* are included) and an ordered selection of species.  The statistics of the query are defined over the rows     *)
(* whose time lies in the closed window:                                                                         *)
(*   P(v)      = #{rows with selected counts = v} / N           (empirical distribution)                        *)
(*   Mean(s)   = (sum x_s) / N                                                                                   *)
(*   M2(a, b)  = (sum x_a x_b) / N                                                                               *)
(*   Var(s)    = M2(s, s) - Mean(s)^2      (population variance; the standard deviation is its root)            *)
(*   Cov(a, b) = M2(a, b) - Mean(a) Mean(b) (the correlation is Cov / (sd_a sd_b) where both are positive)       *)
(* All values are emitted as integer numerators over the denominators N and N^2.                                 *)
EXTENDS Integers, Sequences, FiniteSets, FiniteSetsExt, TLC, Json

CONSTANTS T, NSp, MaxC

VARIABLES table,   \* sequence of rows, each a sequence of NSp counts
          q        \* the query: [s2, e2, sel] or NoQ

vars == <<table, q>>
NoQ == [s2 |-> 0, e2 |-> 0, sel |-> <<>>]

Rows == [1..NSp -> 0..MaxC]
Sels == {<<a>> : a \in 1..NSp} \cup {<<a, b>> : a, b \in 1..NSp}     \* ordered, repetition allowed

Init == table = <<>> /\ q = NoQ

Report(r) == /\ Len(table) < T /\ q = NoQ
             /\ table' = Append(table, r)
             /\ q' = q

Query(s2, e2, sel) == /\ Len(table) = T /\ q = NoQ
                      /\ s2 <= e2
                      /\ \E t \in 1..T : 2 * (t - 1) >= s2 /\ 2 * (t - 1) <= e2     \* a window without rows has no statistics
                      /\ q' = [s2 |-> s2, e2 |-> e2, sel |-> sel]
                      /\ table' = table

Next == \/ \E r \in Rows : Report(r)
        \/ \E s2, e2 \in 0..(2 * (T - 1)), sel \in Sels : Query(s2, e2, sel)

Spec == Init /\ [][Next]_vars

----------------------------------------------------------------------------
Win == {t \in 1..T : 2 * (t - 1) >= q.s2 /\ 2 * (t - 1) <= q.e2}
N == Cardinality(Win)

SumOver(S, F(_)) == MapThenSumSet(F, S)

Sum1(s) == LET F(t) == table[t][s] IN SumOver(Win, F)
Sum2(a, b) == LET F(t) == table[t][a] * table[t][b] IN SumOver(Win, F)

VarNum(s) == N * Sum2(s, s) - Sum1(s) * Sum1(s)                 \* Var = VarNum / N^2
CovNum(a, b) == N * Sum2(a, b) - Sum1(a) * Sum1(b)              \* Cov = CovNum / N^2

Proj(t) == [i \in 1..Len(q.sel) |-> table[t][q.sel[i]]]
Support == {Proj(t) : t \in Win}
Count(v) == Cardinality({t \in Win : Proj(t) = v})

----------------------------------------------------------------------------
(* properties of the statistics themselves (TLC, every table / window / selection of the bound) *)
Asked == q # NoQ

DistTotal == Asked => SumOver(Support, Count) = N

\* the mean of a selected species is the mean of its marginal distribution
MarginalMean == Asked => \A i \in 1..Len(q.sel) :
                    LET vals == {v[i] : v \in Support}
                        F(x) == x * Cardinality({t \in Win : table[t][q.sel[i]] = x})
                    IN SumOver(vals, F) = Sum1(q.sel[i])

VarNonNeg == Asked => \A s \in 1..NSp : VarNum(s) >= 0
VarZeroIffConstant == Asked => \A s \in 1..NSp : (VarNum(s) = 0) <=> (\A t, u \in Win : table[t][s] = table[u][s])
CauchySchwarz == Asked => \A a, b \in 1..NSp : CovNum(a, b) * CovNum(a, b) <= VarNum(a) * VarNum(b)
Symmetric == Asked => \A a, b \in 1..NSp : Sum2(a, b) = Sum2(b, a) /\ CovNum(a, b) = CovNum(b, a)
SelfCov == Asked => \A a \in 1..NSp : CovNum(a, a) = VarNum(a)

\* vacuity probe (must be REFUTED): some query has a window that leaves out rows on both sides
InnerWindowReachable == ~(Asked /\ 1 \notin Win /\ T \notin Win)

----------------------------------------------------------------------------
Emit == Asked =>
    PrintT(ToJson([table |-> table, s2 |-> q.s2, e2 |-> q.e2, sel |-> q.sel, n |-> N,
                   rows |-> {t - 1 : t \in Win},
                   sum1 |-> [s \in 1..NSp |-> Sum1(s)],
                   sum2 |-> [a \in 1..NSp |-> [b \in 1..NSp |-> Sum2(a, b)]],
                   varnum |-> [s \in 1..NSp |-> VarNum(s)],
                   covnum |-> [a \in 1..NSp |-> [b \in 1..NSp |-> CovNum(a, b)]],
                   dist |-> {<<v, Count(v)>> : v \in Support}]))
=============================================================================
