------------------------------ MODULE RateProbe ------------------------------
(* Probe machine for C01: choose a law, choose an evaluation point, evaluate the four modes.   *)
(* TLC enumerates the whole grid, checks the consistency identities of RateLaws at every       *)
(* point, and emits each point with its four expected values for replay against the code.     *)
EXTENDS RateLaws, TLC, Json

CONSTANTS NS, MaxOrder, XGrid, KGrid, KKGrid, NGrid, VGrid

VARIABLES law, pt, pc
vars == <<law, pt, pc>>

NonDec(s) == \A i \in 1..(Len(s) - 1) : s[i] <= s[i + 1]
MSets == {s \in UNION {[1..n -> 1..NS] : n \in 0..MaxOrder} : NonDec(s)}

MassLaws == {[type |-> "massaction", re |-> ms, k |-> kk, K |-> One, n |-> One, s1 |-> 1, d |-> 1] :
                ms \in MSets, kk \in KGrid}
HillLaws == {[type |-> ty, re |-> << >>, k |-> kk, K |-> KK, n |-> nn, s1 |-> s, d |-> 2] :
                ty \in HillTypes, kk \in KGrid, KK \in KKGrid, nn \in NGrid, s \in {1, 2}}

Involved(l) == IF l.type = "massaction" THEN Distinct(l.re)
               ELSE IF l.type \in {"hillpositive", "hillnegative"} THEN {l.s1} ELSE {l.s1, l.d}
\* species the law does not read are pinned to 1, so the grid is not multiplied by irrelevant values
Points(l) == {x \in [1..NS -> XGrid] : \A i \in 1..NS : i \notin Involved(l) => x[i] = One}

NoPt == [x |-> [i \in 1..NS |-> One], V |-> One, det |-> Zero, vol |-> Zero, sto |-> Zero, stovol |-> Zero]

Init == law \in (MassLaws \cup HillLaws) /\ pt = NoPt /\ pc = "choose"

Eval == /\ pc = "choose"
        /\ \E x \in Points(law), V \in VGrid :
              /\ (Defined(law, x, V) = TRUE)
              /\ pt' = [x |-> x, V |-> V, det |-> Det(law, x), vol |-> Vol(law, x, V),
                        sto |-> Sto(law, x), stovol |-> StoVol(law, x, V)]
        /\ pc' = "done" /\ law' = law

Next == Eval
Spec == Init /\ [][Next]_vars

Identities == pc = "done" =>
    /\ DimensionOK(law, pt.x, pt.V)
    /\ UnitVolumeOK(law, pt.x)
    /\ StoLeDet(law, pt.x)
    /\ HillComplement(law, pt.x)
    /\ \A s \in 1..NS, m \in 0..MaxOrder : FallFactZero(pt.x[s], m)
\* a reaction's reactants are a multiset: the rate does not depend on the order in which they are written
\* (A+B+A is 2A+B); the harness builds every law with its reactants written in several of these orders
WrittenOrders(re) == {w \in [1..Len(re) -> 1..NS] : \A sp \in 1..NS : Count(w, sp) = Count(re, sp)}
OrderInvariant == (pc = "done" /\ law.type = "massaction") =>
    \A w \in WrittenOrders(law.re) :
        LET lw == [law EXCEPT !.re = w] IN
        /\ Det(lw, pt.x) = pt.det /\ Vol(lw, pt.x, pt.V) = pt.vol
        /\ Sto(lw, pt.x) = pt.sto /\ StoVol(lw, pt.x, pt.V) = pt.stovol
NonNegative == pc = "done" => RLe(Zero, pt.det) /\ RLe(Zero, pt.sto) /\ RLe(Zero, pt.vol) /\ RLe(Zero, pt.stovol)

Emit == pc = "done" => PrintT(ToJson([law |-> law, pt |-> pt]))

\* grids (the cfg cannot hold tuples)
XGridDef == {I(0), I(1), I(2), I(3), I(5), R(1, 2), R(5, 2)}
XGridSmall == {I(0), I(1), I(3), R(5, 2)}
KGridDef == {I(2), R(1, 2), I(3)}
KKGridDef == {R(1, 2), I(1), I(2), I(3)}
NGridDef == {I(1), I(2), I(3), R(1, 2), R(3, 2)}
VGridDef == {R(1, 2), I(1), I(2), I(3)}
VGridSq == {R(1, 4), I(1), I(4)}
\* thorough tier
XGridBig == {I(0), I(1), I(2), I(3), I(4), I(5), R(1, 2), R(3, 2), R(5, 2)}
KGridBig == {I(2), R(1, 2), I(3), R(7, 4), I(5)}
KKGridBig == {R(1, 2), I(1), I(2), I(3), R(1, 4), I(4)}
NGridBig == {I(1), I(2), I(3), R(1, 2), R(3, 2)}
VGridBig == {R(1, 2), I(1), I(2), I(3), I(4), I(5)}
=============================================================================
