------------------------------- MODULE Priors -------------------------------
(***************************************************************************)
(* The seven built-in prior families of pid_interfaces.py as what they are *)
(* named after (C16): support and log-density, the latter as a symbolic    *)
(* value in log-linear form.  A prior is a record [fam, p1, p2]; shapes of *)
(* gamma and beta are positive integers here (normalising constants are    *)
(* then rational).                                                         *)
(***************************************************************************)
EXTENDS SymVal

Families == {"uniform", "gaussian", "exponential", "gamma", "beta", "log-uniform", "log-gaussian"}

RECURSIVE Fact(_)
Fact(n) == IF n <= 1 THEN 1 ELSE n * Fact(n - 1)

InSupport(pr, x) ==
    CASE pr.fam = "uniform"      -> RLe(pr.p1, x) /\ RLe(x, pr.p2)
      [] pr.fam = "gaussian"     -> TRUE
      [] pr.fam = "exponential"  -> RLe(Zero, x)
      \* closed supports where the density at the end point is finite and positive (shape 1), as in the
      \* standard definitions (gamma(1, b) is the exponential; beta(1, b) has density b at 0)
      [] pr.fam = "gamma"        -> RLt(Zero, x) \/ (x = Zero /\ pr.p1 = One)
      [] pr.fam = "beta"         -> (RLt(Zero, x) /\ RLt(x, One)) \/ (x = Zero /\ pr.p1 = One) \/ (x = One /\ pr.p2 = One)
      [] pr.fam = "log-uniform"  -> RLe(pr.p1, x) /\ RLe(x, pr.p2)
      [] pr.fam = "log-gaussian" -> RLt(Zero, x)

\* boundary points whose membership the property leaves open (density 0 or a closed/open convention)
\* At every other end point (gamma with shape > 1 at 0, beta with a > 1 at 0 or b > 1 at 1, log-gaussian at 0) the
\* density is 0: "log-density minus infinity" and "rejected" are the same observable (non-finite), so those points are
\* simply outside InSupport.  No point is left unjudged.
OnBoundary(pr, x) == FALSE

Sq(q) == RMul(q, q)
Half == R(1, 2)

LogDensity(pr, x) ==
    CASE pr.fam = "uniform" ->            \* 1/(b-a)
            SNeg(Ln(RSub(pr.p2, pr.p1)))
      [] pr.fam = "gaussian" ->           \* -1/2 ln 2pi - ln sigma - (x-mu)^2/(2 sigma^2)
            SAdd(SAdd(SScale(R(-1, 2), Ln2Pi), SNeg(Ln(pr.p2))),
                 SConst(RNeg(RDiv(Sq(RSub(x, pr.p1)), RMul(I(2), Sq(pr.p2))))))
      [] pr.fam = "exponential" ->        \* ln lambda - lambda x
            SAdd(Ln(pr.p1), SConst(RNeg(RMul(pr.p1, x))))
      [] pr.fam = "gamma" ->              \* alpha ln beta - ln (alpha-1)! + (alpha-1) ln x - beta x
            LET al == pr.p1[1] IN
            SAdd(SAdd(SScale(I(al), Ln(pr.p2)), SNeg(Ln(I(Fact(al - 1))))),
                 SAdd(SScale(I(al - 1), Ln(x)), SConst(RNeg(RMul(pr.p2, x)))))
      [] pr.fam = "beta" ->               \* (a-1) ln x + (b-1) ln(1-x) - ln B(a,b)
            LET a == pr.p1[1]  b == pr.p2[1]
                B == R(Fact(a - 1) * Fact(b - 1), Fact(a + b - 1)) IN
            SAdd(SAdd(SScale(I(a - 1), Ln(x)), SScale(I(b - 1), Ln(RSub(One, x)))), SNeg(Ln(B)))
      [] pr.fam = "log-uniform" ->        \* 1/(x ln(b/a))
            SAdd(SNeg(Ln(x)), SNeg(LnLn(RDiv(pr.p2, pr.p1))))
      [] pr.fam = "log-gaussian" ->       \* -ln x - ln sigma - 1/2 ln 2pi - (ln x - mu)^2/(2 sigma^2)
            LET c == RNeg(RInv(RMul(I(2), Sq(pr.p2)))) IN        \* -1/(2 sigma^2)
            SAdd(SAdd(SAdd(SNeg(Ln(x)), SNeg(Ln(pr.p2))), SScale(R(-1, 2), Ln2Pi)),
                 SAdd(SAdd(SScale(c, LnSq(x)), SScale(RMul(RMul(I(-2), pr.p1), c), Ln(x))),
                      SConst(RMul(c, Sq(pr.p1)))))

\* one component of a prior vector: [pr, x, positive]
\* a boundary point (OnBoundary) is never demanded to be rejected nor to be accepted
Rejects(c) == (~InSupport(c.pr, c.x) /\ ~OnBoundary(c.pr, c.x)) \/ (c.positive /\ RLt(c.x, Zero))
Open(c) == OnBoundary(c.pr, c.x) /\ ~(c.positive /\ RLt(c.x, Zero))

RECURSIVE SumLD(_)
SumLD(vec) == IF vec = << >> THEN Empty ELSE SAdd(LogDensity(Head(vec).pr, Head(vec).x), SumLD(Tail(vec)))
AnyRejects(vec) == \E i \in 1..Len(vec) : Rejects(vec[i])
AnyOpen(vec) == \E i \in 1..Len(vec) : Open(vec[i])
=============================================================================
