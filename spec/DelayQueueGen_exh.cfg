INIT GInit
NEXT GNextExh
CONSTANTS
  NR = 2
  NC = 3
  MaxAdded = 100
  StartTimes <- StartTimesDef
  WithCopies = TRUE
  HLen = 2
INVARIANT Emit
INVARIANT Refine
INVARIANT ExactlyOnce
CHECK_DEADLOCK FALSE
