------------------------------ MODULE TraceSsa ------------------------------
(***************************************************************************)
(* Trace validation (code -> spec) for the stochastic simulators.          *)
(*                                                                         *)
(* Input: a JSON file (environment variable TRACE_FILE) with a batch of    *)
(* executions of the REAL simulators run with real seeds; each execution   *)
(* is the program it ran (a Crn program record as emitted by Ssa.tla), the *)
(* mode, and one event per loop iteration recorded by the guarded hook H3  *)
(* after the state change:                                                 *)
(*   k   "fire" | "skip" | "queue" (delay loop: a queue slot was delivered)*)
(*       | "vstep" (volume loop: volume step)                              *)
(*   r   the reaction that fired (1-based; 0 otherwise)                    *)
(*   i0, i1  rows recorded so far before / after the iteration             *)
(*   x   the state after the iteration (integers)                          *)
(*   z   for every reaction whether its propensity was exactly 0           *)
(*   dq  fire in the delay loop: 1 if the delayed part was queued          *)
(*   q   queue: delivered amount per reaction                              *)
(* plus the reported rows.  The trace spec re-uses the operators of        *)
(* SsaCore/Crn/RateLaws: an event is accepted only if the corresponding    *)
(* action of the specification is enabled in the current state and yields  *)
(* the logged state.  Every C06 clause is evaluated at every step:         *)
(*   fire-disabled     the fired reaction has stochastic propensity 0      *)
(*   fire-unsupplied   safe mode and the net consumption is not available  *)
(*   wrong-column      the state change is not the reaction's column       *)
(*   zero-pattern      the code's zero propensities differ from the spec's *)
(*   moved-on-skip     state changed without a firing / delivery           *)
(*   absorbing         total propensity zero but something fired           *)
(*   row-not-prestate  a reported row is not the state before the event    *)
(*   index-gap / rows-missing   row bookkeeping                            *)
(*   over-delivery     the queue delivered more than was pending           *)
(*   negative          a guarded network left the non-negative orthant     *)
(* One verdict per trace is printed as JSON; a rejected trace names the    *)
(* failing clause and the event index.                                     *)
(***************************************************************************)
EXTENDS SsaCore, Json, IOUtils, TLC

Batch == JsonDeserialize(IOEnv.TRACE_FILE)
NTr == Len(Batch)

VARIABLES tid, l, x, pend, last, done
vars == <<tid, l, x, pend, last, done>>

T == Batch[tid]
P == T.prog
Zeros(p) == [r \in 1..NRx(p) |-> 0]
IsVol == T.kind = "volume"
IsDelay == T.kind = "delay"
V == T.V
A(st) == Props(P, st, T.safe, IsVol, V)

Init == tid = 1 /\ l = 1 /\ x = Batch[1].x0 /\ pend = Zeros(Batch[1].prog) /\ last = 0 /\ done = FALSE

\* networks for which non-negativity is guaranteed by design (see NeedsSafe in Ssa.tla)
Guarded == T.safe \/ (MassActionOnly(P) /\ \A r \in 1..NRx(P) : P.rx[r].dre = << >>)

RowsOK(ev) == \A i \in (ev.i0 + 1)..ev.i1 : T.rows[i] = x
ZeroPattern(ev, a) == \A r \in 1..NRx(P) : (ev.z[r] = 1) <=> (a[r] = Zero)

RECURSIVE Deliver(_, _, _)
Deliver(st, q, r) == IF r = 0 THEN st ELSE Deliver(AddVec(st, ScaleVec(q[r], DCol(P, r))), q, r - 1)

\* the name of the first clause an event violates, or "ok"
Check(ev) ==
    LET a == A(x) IN
    IF ev.i0 # last THEN "index-gap"
    ELSE IF ~RowsOK(ev) THEN "row-not-prestate"
    ELSE IF ev.k \in {"fire", "skip"} /\ ~ZeroPattern(ev, a) THEN "zero-pattern"
    ELSE IF ev.k = "fire" THEN
        (IF Lambda(a) = Zero THEN "absorbing"
         ELSE IF ev.r < 1 \/ ev.r > NRx(P) THEN "no-such-reaction"
         ELSE IF a[ev.r] = Zero THEN "fire-disabled"
         ELSE IF T.safe /\ ~Supplied(P.rx[ev.r], x) THEN "fire-unsupplied"
         ELSE IF ev.x # AddVec(x, Col(P, ev.r, ~(IsDelay /\ ev.dq = 1))) THEN "wrong-column"
         ELSE IF Guarded /\ ~IsDelay /\ ~NonNeg(ev.x) THEN "negative"
         ELSE "ok")
    ELSE IF ev.k = "queue" THEN
        (IF \E r \in 1..NRx(P) : ev.q[r] > pend[r] \/ ev.q[r] < 0 THEN "over-delivery"
         ELSE IF ev.x # Deliver(x, ev.q, NRx(P)) THEN "wrong-delivery"
         ELSE "ok")
    ELSE (IF ev.x # x THEN "moved-on-skip" ELSE "ok")

Verdict(v, clause, at) == PrintT(ToJson([tid |-> T.id, verdict |-> v, clause |-> clause, at |-> at, events |-> Len(T.ev)]))

Advance == IF tid < NTr
           THEN /\ tid' = tid + 1 /\ l' = 1 /\ x' = Batch[tid + 1].x0 /\ pend' = Zeros(Batch[tid + 1].prog)
                /\ last' = 0 /\ done' = FALSE
           ELSE /\ done' = TRUE /\ UNCHANGED <<tid, l, x, pend, last>>

Step == /\ ~done /\ l <= Len(T.ev)
        /\ LET ev == T.ev[l]
               c == Check(ev) IN
           IF c = "ok"
           THEN /\ x' = ev.x /\ l' = l + 1 /\ last' = ev.i1
                /\ pend' = IF ev.k = "fire" /\ IsDelay /\ ev.dq = 1 THEN [pend EXCEPT ![ev.r] = @ + 1]
                           ELSE IF ev.k = "queue" THEN [r \in 1..NRx(P) |-> pend[r] - ev.q[r]]
                           ELSE pend
                /\ UNCHANGED <<tid, done>>
           ELSE Verdict("rejected", c, l) /\ Advance

\* every integer conservation law w (w . column = 0 for all reactions, immediate+delayed) holds on every row
Dot(w, v) == LET RECURSIVE D(_)
                 D(i) == IF i = 0 THEN 0 ELSE w[i] * v[i] + D(i - 1)
             IN D(NS)
Laws == {w \in [1..NS -> -2..2] : \A r \in 1..NRx(P) : Dot(w, Col(P, r, TRUE)) = 0}
Conserved == IsDelay \/ \A w \in Laws : \A i \in 1..Len(T.rows) : Dot(w, T.rows[i]) = Dot(w, T.x0)

EndOfTrace == /\ ~done /\ l > Len(T.ev)
              /\ IF last # Len(T.rows) THEN Verdict("rejected", "rows-missing", l)
                 ELSE IF ~Conserved THEN Verdict("rejected", "conservation-law", l)
                 ELSE IF IsDelay /\ T.pending # pend THEN Verdict("rejected", "queue-accounting", l)
                 ELSE Verdict("accepted", "none", l)
              /\ Advance

Next == Step \/ EndOfTrace
Spec == Init /\ [][Next]_vars
=============================================================================
