---- MODULE MC_DelayQueue ----
EXTENDS DelayQueue
CONSTANT MaxDepth
StartTimesDef == {0, 1, -3}
DepthBound == TLCGet("level") <= MaxDepth
====
