-------------------------------- MODULE Crn --------------------------------
(***************************************************************************)
(* Chemical reaction networks as bioscrape programs (model definitions):   *)
(* declared species list, reactions with immediate and delayed sides, a    *)
(* rate law each (module RateLaws) and a delay; initial state.             *)
(*                                                                         *)
(* Two definitions of the stoichiometric matrices (C03):                   *)
(*  - by NAME (the property):  Stoich[r][s] = #s in products - #s in       *)
(*    reactants, DelayStoich likewise on the delayed sides;                *)
(*  - by INDEX (the design, Model.create_reaction / _add_species /         *)
(*    _create_stochiometric_matrices): species get indices in order of     *)
(*    first mention, each reaction accumulates an update dictionary one    *)
(*    mention at a time, and the dictionaries are written into a matrix    *)
(*    with one row per index.                                              *)
(* IndexRefinesName states that the second, read through the index map,    *)
(* is the first.  Deriv is the net rate equation.                          *)
(*                                                                         *)
(* A reaction is [re, pr, dre, dpr, law, delay, named, unset] with sides   *)
(* sequences of species numbers 1..NS, law a RateLaws record whose .re is  *)
(* the reactant multiset (sorted) for mass action, delay = [type, p1, p2]. *)
(***************************************************************************)
EXTENDS RateLaws, TLC

CONSTANT NS

Sp == 1..NS

SortNat(s) ==   \* sorted copy of a short sequence of naturals (multiset in canonical order)
    LET RECURSIVE Ins(_, _)
        Ins(x, t) == IF t = << >> THEN <<x>>
                     ELSE IF x <= Head(t) THEN <<x>> \o t ELSE <<Head(t)>> \o Ins(x, Tail(t))
        RECURSIVE Srt(_)
        Srt(t) == IF t = << >> THEN << >> ELSE Ins(Head(t), Srt(Tail(t)))
    IN Srt(s)

\* ---------------------------------------------------------------- by name
StoichN(rx, s) == Count(rx.pr, s) - Count(rx.re, s)
DStoichN(rx, s) == Count(rx.dpr, s) - Count(rx.dre, s)
NetN(rx, s) == StoichN(rx, s) + DStoichN(rx, s)

\* ---------------------------------------------------------------- by index (design)
\* order of first mention: declared species, then for each reaction reactants, products, delayed
\* reactants, delayed products; finally the species of the initial-condition dictionary (all of Sp)
RECURSIVE AddNew(_, _)
AddNew(order, ms) == IF ms = << >> THEN order
                     ELSE IF \E i \in 1..Len(order) : order[i] = Head(ms) THEN AddNew(order, Tail(ms))
                          ELSE AddNew(Append(order, Head(ms)), Tail(ms))
RECURSIVE MentionsOf(_)
MentionsOf(rxs) == IF rxs = << >> THEN << >>
                   ELSE Head(rxs).re \o Head(rxs).pr \o Head(rxs).dre \o Head(rxs).dpr \o MentionsOf(Tail(rxs))
\* bioscrape requires a species that occurs only inside a rate law (Hill regulator, proportional species)
\* to be declared before the reaction is created; the builder declares them after the listed ones
RECURSIVE LawSpecies(_)
LawSpecies(rxs) == IF rxs = << >> THEN << >>
                   ELSE LET l == Head(rxs).law IN
                        (IF l.type = "massaction" THEN << >>
                         ELSE IF l.type \in {"proportionalhillpositive", "proportionalhillnegative", "affine"} THEN <<l.s1, l.d>> ELSE <<l.s1>>)
                        \o LawSpecies(Tail(rxs))
ModelOrder(prog) == AddNew(AddNew(AddNew(prog.decl, LawSpecies(prog.rx)), MentionsOf(prog.rx)), [i \in 1..NS |-> i])
IndexOf(order, s) == CHOOSE i \in 1..Len(order) : order[i] = s

\* the update dictionary of one side pair, accumulated mention by mention: d[r] -= 1, d[p] += 1
RECURSIVE Accum(_, _, _)
Accum(d, ms, delta) == IF ms = << >> THEN d
                       ELSE LET s == Head(ms) IN
                            Accum([d EXCEPT ![s] = @ + delta], Tail(ms), delta)
UpdDict(re, pr) == Accum(Accum([s \in Sp |-> 0], re, -1), pr, 1)
\* matrix with rows in model order: row i, column r
MatrixI(prog, delayed) ==
    LET order == ModelOrder(prog) IN
    [i \in 1..NS |-> [r \in 1..Len(prog.rx) |->
        LET rx == prog.rx[r]
            d == IF delayed THEN UpdDict(rx.dre, rx.dpr) ELSE UpdDict(rx.re, rx.pr)
        IN d[order[i]]]]

IndexRefinesName(prog) ==
    LET order == ModelOrder(prog)
        MI == MatrixI(prog, FALSE)
        MD == MatrixI(prog, TRUE) IN
    /\ Len(order) = NS /\ \A s \in Sp : \E i \in 1..NS : order[i] = s
    /\ \A s \in Sp, r \in 1..Len(prog.rx) :
          /\ MI[IndexOf(order, s)][r] = StoichN(prog.rx[r], s)
          /\ MD[IndexOf(order, s)][r] = DStoichN(prog.rx[r], s)

\* a species on both sides cancels
Cancels(prog) == \A r \in 1..Len(prog.rx), s \in Sp :
    (Count(prog.rx[r].re, s) = Count(prog.rx[r].pr, s)) => StoichN(prog.rx[r], s) = 0

\* ---------------------------------------------------------------- rate equations
RECURSIVE SumRx(_, _, _, _)
SumRx(prog, x, s, r) == IF r = 0 THEN Zero
                        ELSE RAdd(RMul(I(NetN(prog.rx[r], s)), Det(prog.rx[r].law, x)), SumRx(prog, x, s, r - 1))
Deriv(prog, x) == [s \in Sp |-> SumRx(prog, x, s, Len(prog.rx))]
RateDefined(prog, x) == \A r \in 1..Len(prog.rx) : Defined(prog.rx[r].law, x, One)

\* invariance of the rate equations under the declaration order is immediate at name level
\* (Deriv does not mention decl); at index level it is IndexRefinesName.

InitOutcome(prog) == IF \E r \in 1..Len(prog.rx) : prog.rx[r].unset THEN "unspecified" ELSE "ok"
=============================================================================
