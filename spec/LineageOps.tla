----------------------------- MODULE LineageOps -----------------------------
(***************************************************************************)
(* Operations on recorded lineages (bioscrape/types.pyx:2734-2871), beyond *)
(* the listed properties:                                                  *)
(*   Lineage.truncate_lineage(start, end)   a NEW lineage with the cells   *)
(*        that overlap the window, each cut to the time points inside it,  *)
(*        links re-pointed to the new cells (None where the relative was   *)
(*        dropped); the original lineage is untouched                      *)
(*   Lineage.get_schnitzes_by_generation()   cells grouped by depth below  *)
(*        a parentless cell, in listing order                              *)
(*   Schnitz.get_sub_lineage()               the cell and all descendants  *)
(*        in breadth-first order (daughter 1 before daughter 2)            *)
(* Trees are built by Divide as in LifecycleTree.tla; a cell has the       *)
(* integer time points lo..hi, a daughter starts where its mother ended.   *)
(* Window ends are given in quarters (q4 = 4 * time) so that windows that  *)
(* fall strictly between two grid points (kept cell, no time point left)   *)
(* are explored.  Operations compose: op2 is applied to the result of op1. *)
(***************************************************************************)
EXTENDS Integers, Sequences, FiniteSets, TLC, Json

CONSTANTS MaxNodes, MaxLen, MaxT

VARIABLES tree,     \* sequence of [parent, d1, d2, lo, hi]  (0 = None)
          op        \* [what, s4, e4, k] or NoOp while the tree is being built
vars == <<tree, op>>
Node(p, a, b, lo, hi) == [parent |-> p, d1 |-> a, d2 |-> b, lo |-> lo, hi |-> hi]
NoOp == [what |-> "", s4 |-> 0, e4 |-> 0, k |-> 0]

Init == /\ \E n \in 1..MaxLen : tree = <<Node(0, 0, 0, 0, n)>>
        /\ op = NoOp

Divide(i, n1, n2) ==
    /\ op = NoOp /\ tree[i].d1 = 0 /\ Len(tree) + 2 <= MaxNodes
    /\ LET a == Len(tree) + 1
           b == Len(tree) + 2 IN
       tree' = [tree EXCEPT ![i].d1 = a, ![i].d2 = b] \o <<Node(i, 0, 0, tree[i].hi, tree[i].hi + n1), Node(i, 0, 0, tree[i].hi, tree[i].hi + n2)>>
    /\ UNCHANGED op

Choose(w, s4, e4, k) == /\ op = NoOp /\ op' = [what |-> w, s4 |-> s4, e4 |-> e4, k |-> k] /\ UNCHANGED tree

Next == \/ \E i \in 1..Len(tree), n1, n2 \in 1..MaxLen : Divide(i, n1, n2)
        \/ \E s4 \in 0..(4 * MaxT), e4 \in 0..(4 * MaxT) : s4 <= e4 /\ Choose("truncate", s4, e4, 0)
        \/ Choose("generations", 0, 0, 0)
        \/ \E k \in 1..Len(tree) : Choose("sublineage", 0, 0, k)
Spec == Init /\ [][Next]_vars

\* ---------------------------------------------------------------- truncate_lineage
\* a truncated lineage keeps the indices of the original; dropped cells are marked (kept = FALSE) and skipped when listing
Kept(n, s4, e4) == ~(4 * n.hi < s4 \/ 4 * n.lo > e4)
Times(n, s4, e4) == {x \in n.lo..n.hi : s4 <= 4 * x /\ 4 * x <= e4}
Trunc(t, s4, e4) ==
    [i \in 1..Len(t) |->
        LET n == t[i]
            Lk(j) == IF j # 0 /\ Kept(t[j], s4, e4) THEN j ELSE 0 IN
        IF Kept(n, s4, e4)
        THEN [kept |-> TRUE, parent |-> Lk(n.parent), d1 |-> Lk(n.d1), d2 |-> Lk(n.d2), times |-> Times(n, s4, e4)]
        ELSE [kept |-> FALSE, parent |-> 0, d1 |-> 0, d2 |-> 0, times |-> {}]]
AsTrunc(t) == [i \in 1..Len(t) |-> [kept |-> TRUE, parent |-> t[i].parent, d1 |-> t[i].d1, d2 |-> t[i].d2, times |-> t[i].lo..t[i].hi]]
Listing(c) == {i \in DOMAIN c : c[i].kept}

\* links of the result stay inside the result and are mutual as far as both ends were kept
TruncClosed(c) == \A i \in Listing(c) : \A j \in {c[i].parent, c[i].d1, c[i].d2} \ {0} : j \in Listing(c)
TruncMutual(c) == \A i \in Listing(c) :
    /\ (c[i].d1 # 0 => c[c[i].d1].parent = i)
    /\ (c[i].d2 # 0 => c[c[i].d2].parent = i)
    /\ (c[i].parent # 0 => i \in {c[c[i].parent].d1, c[c[i].parent].d2})
InWindow(c, s4, e4) == \A i \in Listing(c) : \A x \in c[i].times : s4 <= 4 * x /\ 4 * x <= e4
\* nothing inside the window is lost: every time point of every cell of the original that lies in the window is reported
NothingLost(t, c, s4, e4) == \A i \in 1..Len(t) : \A x \in t[i].lo..t[i].hi :
    (s4 <= 4 * x /\ 4 * x <= e4) => (c[i].kept /\ x \in c[i].times)

TruncOK == op.what = "truncate" =>
    LET c == Trunc(tree, op.s4, op.e4) IN
    /\ TruncClosed(c) /\ TruncMutual(c) /\ InWindow(c, op.s4, op.e4) /\ NothingLost(tree, c, op.s4, op.e4)
    \* a window that covers the whole recording changes nothing
    /\ ((op.s4 = 0 /\ \A i \in 1..Len(tree) : 4 * tree[i].hi <= op.e4) => c = AsTrunc(tree))
\* a kept cell may have no time point left (window strictly between two grid points): the case exists
EmptyCellReachable == ~(op.what = "truncate" /\ \E i \in 1..Len(tree) : Kept(tree[i], op.s4, op.e4) /\ Times(tree[i], op.s4, op.e4) = {})

\* ---------------------------------------------------------------- generations
RECURSIVE Depth(_, _)
Depth(c, i) == IF c[i].parent = 0 THEN 0 ELSE 1 + Depth(c, c[i].parent)
\* the code walks the listing once; a cell is filed one level below the level that holds its parent at that moment
Generations(c) ==
    LET L == Listing(c)
        D == {Depth(c, i) : i \in L} IN
    [d \in D |-> {i \in L : Depth(c, i) = d}]
GenOK == op.what = "generations" =>
    LET c == AsTrunc(tree)
        g == Generations(c) IN
    /\ UNION {g[d] : d \in DOMAIN g} = Listing(c)
    /\ \A d \in DOMAIN g : \A i \in g[d] : (d = 0) = (c[i].parent = 0)
    /\ \A d \in DOMAIN g : \A i \in g[d] : d > 0 => c[i].parent \in g[d - 1]
    /\ DOMAIN g = 0..(Cardinality(DOMAIN g) - 1)

\* ---------------------------------------------------------------- sub-lineage (breadth first, daughter 1 first)
RECURSIVE Bfs(_, _, _)
Bfs(t, queue, k) == IF k > Len(queue) THEN queue
                    ELSE LET n == t[queue[k]] IN
                         Bfs(t, queue \o (IF n.d1 # 0 THEN <<n.d1>> ELSE << >>) \o (IF n.d2 # 0 THEN <<n.d2>> ELSE << >>), k + 1)
SubLineage(t, k) == Bfs(t, <<k>>, 1)
RECURSIVE Below(_, _)
Below(t, S) == LET T == S \cup UNION {{t[i].d1, t[i].d2} \ {0} : i \in S} IN IF T = S THEN S ELSE Below(t, T)
SubOK == op.what = "sublineage" =>
    LET q == SubLineage(tree, op.k) IN
    /\ {q[j] : j \in 1..Len(q)} = Below(tree, {op.k})
    /\ \A a, b \in 1..Len(q) : a # b => q[a] # q[b]
    \* a mother is listed before her daughters
    /\ \A a \in 1..Len(q) : (q[a] # op.k) => \E b \in 1..(a - 1) : q[b] = tree[q[a]].parent

\* ---------------------------------------------------------------- emission
SetSeq(S) == LET RECURSIVE F(_, _)
                 F(x, hi) == IF x > hi THEN << >> ELSE (IF x \in S THEN <<x>> ELSE << >>) \o F(x + 1, hi) IN
             F(0, MaxT + MaxNodes * MaxLen)
Emit == op # NoOp =>
    PrintT(ToJson([nodes |-> tree, what |-> op.what, s4 |-> op.s4, e4 |-> op.e4, k |-> op.k,
                   trunc |-> IF op.what = "truncate"
                             THEN LET c == Trunc(tree, op.s4, op.e4) IN
                                  [i \in 1..Len(tree) |-> [kept |-> c[i].kept, parent |-> c[i].parent, d1 |-> c[i].d1, d2 |-> c[i].d2, times |-> SetSeq(c[i].times)]]
                             ELSE << >>,
                   \* generations of the truncated lineage as well (cells whose mother was dropped become roots)
                   gens |-> LET c == IF op.what = "truncate" THEN Trunc(tree, op.s4, op.e4) ELSE AsTrunc(tree)
                                g == Generations(c) IN
                            [d \in 1..Cardinality(DOMAIN g) |-> SetSeq(g[d - 1])],
                   sub |-> IF op.what = "sublineage" THEN SubLineage(tree, op.k) ELSE << >>]))
=============================================================================
