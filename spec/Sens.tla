-------------------------------- MODULE Sens --------------------------------
(***************************************************************************)
(* Analytic Jacobian and parameter sensitivities of the rate equations     *)
(* (C18) and the algebra of the four difference schemes of analysis.py.    *)
(*                                                                         *)
(* A reaction is [type, re, s1, d, ki, Ki, ni, e, net]: type a built-in    *)
(* law of RateLaws ("massaction", Hill families) or "general"; re the      *)
(* reactant multiset of mass action; s1, d species of a Hill law; ki, Ki,  *)
(* ni the indices of its parameters k, K, n in the model's parameter       *)
(* vector (0: unused); e the rate as an Expr tree (for a built-in law the  *)
(* tree LawExpr transcribes the documented formula; TLC checks that it     *)
(* evaluates to RateLaws!Det); net the net stoichiometric column.          *)
(*                                                                         *)
(*   J[i][j] = SUM_r net_r[i] * d rate_r / d x_j                           *)
(*   Z[q][i] = SUM_r net_r[i] * d rate_r / d p_q                           *)
(* with the derivatives taken three ways that TLC proves equal wherever    *)
(* all are defined: Eval(Expr!D(tree, v)) (symbolic), the first Taylor     *)
(* coefficient of Expr!Jet (power-series arithmetic) and, for built-in     *)
(* laws, the closed forms LawDx / LawDp written out below.                 *)
(*                                                                         *)
(* Difference schemes.  For f(x0 + s) = SUM_m c_m s^m a scheme returns     *)
(* SUM_m StencilCoef(scheme, m) c_m h^(m-1): the m = 1 term is the         *)
(* derivative, the rest is the truncation error (exactly, for polynomial   *)
(* rates).  StencilOf applies a scheme literally to exact shifted          *)
(* evaluations; TLC checks StencilOf = StencilSeries on polynomials.       *)
(***************************************************************************)
EXTENDS Expr

RL == INSTANCE RateLaws

Schemes == <<"fourth_order_central_difference", "central_difference", "forward_difference", "backward_difference">>
JetOrder == 5

\* ---------------------------------------------------------------- rate trees of the built-in laws
RECURSIVE MonoTree(_, _)        \* product of the reactants, one factor x_s^m per distinct species
MonoTree(S, re) ==
    IF S = {} THEN ENum(One)
    ELSE LET s == CHOOSE s \in S : \A u \in S : s <= u
             m == RL!Count(re, s)
             rest == MonoTree(S \ {s}, re)
             fac == IF m = 1 THEN ESp(s) ELSE EBin("pow", ESp(s), ENum(I(m))) IN
         IF rest = ENum(One) THEN fac ELSE EBin("mul", fac, rest)
HillRatio(rx) == EBin("pow", EBin("div", ESp(rx.s1), EPar(rx.Ki)), EPar(rx.ni))          \* (s1/K)^n
LawExpr(rx) ==
    CASE rx.type = "massaction" ->
            IF rx.re = << >> THEN EPar(rx.ki) ELSE EBin("mul", EPar(rx.ki), MonoTree(RL!Distinct(rx.re), rx.re))
      [] rx.type = "hillpositive" ->
            EBin("div", EBin("mul", EPar(rx.ki), HillRatio(rx)), EBin("add", ENum(One), HillRatio(rx)))
      [] rx.type = "hillnegative" ->
            EBin("div", EPar(rx.ki), EBin("add", ENum(One), HillRatio(rx)))
      [] rx.type = "proportionalhillpositive" ->
            EBin("mul", ESp(rx.d), EBin("div", EBin("mul", EPar(rx.ki), HillRatio(rx)), EBin("add", ENum(One), HillRatio(rx))))
      [] rx.type = "proportionalhillnegative" ->
            EBin("mul", ESp(rx.d), EBin("div", EPar(rx.ki), EBin("add", ENum(One), HillRatio(rx))))
      [] OTHER -> rx.e
IsLaw(rx) == rx.type # "general"
LawOf(rx, env) == [type |-> rx.type, re |-> rx.re, k |-> env.p[rx.ki],
                   K |-> IF rx.Ki = 0 THEN One ELSE env.p[rx.Ki], n |-> IF rx.ni = 0 THEN One ELSE env.p[rx.ni],
                   s1 |-> rx.s1, d |-> rx.d]
RateTree(rx) == IF IsLaw(rx) THEN LawExpr(rx) ELSE rx.e
\* the tree of a built-in law means the documented closed form
\* (a value outside the 32-bit-safe range of Expr!Eval has status # "ok" and is not compared)
TreeIsLaw(rx, env) == (IsLaw(rx) /\ Eval(LawExpr(rx), env).st = "ok") => Eval(LawExpr(rx), env) = QV(RL!Det(LawOf(rx, env), env.x))

\* ---------------------------------------------------------------- closed-form derivatives of the built-in laws
RECURSIVE MonoD(_, _, _, _)     \* d/dx_j of PROD x_s^m_s
MonoD(S, re, x, j) ==
    IF S = {} THEN One
    ELSE LET s == CHOOSE s \in S : TRUE
             m == RL!Count(re, s) IN
         RMul(IF s = j THEN RMul(I(m), RPowN(x[s], m - 1)) ELSE RPowN(x[s], m), MonoD(S \ {s}, re, x, j))
HillParts(law, x) ==            \* h = (s1/K)^n, den = 1 + h
    LET h == RL!HillH(x[law.s1], law) IN [h |-> h, den |-> RAdd(One, h)]
\* d core / d s1 for the two Hill cores  k h/(1+h)  and  k/(1+h):  +- k n h / (s1 (1+h)^2)
CoreDs(law, x) == LET hp == HillParts(law, x)
                      mag == RDiv(RMul(RMul(law.k, law.n), hp.h), RMul(x[law.s1], RMul(hp.den, hp.den))) IN
                  IF law.type \in {"hillpositive", "proportionalhillpositive"} THEN mag ELSE RNeg(mag)
IsProp(law) == law.type \in {"proportionalhillpositive", "proportionalhillnegative"}
LawDx(law, x, j) ==
    IF law.type = "massaction"
    THEN (IF RL!Count(law.re, j) = 0 THEN Zero ELSE RMul(law.k, MonoD(RL!Distinct(law.re), law.re, x, j)))
    ELSE RAdd(IF j = law.s1 THEN RMul(RL!Prop(law, x), CoreDs(law, x)) ELSE Zero,
              IF IsProp(law) /\ j = law.d THEN RL!HillCore(x[law.s1], law) ELSE Zero)
\* which \in {"k", "K", "n"}; the n-derivative carries ln(s1/K) and is a SymVal
LawDp(law, x, which) ==
    IF law.type = "massaction" THEN SConst(RL!ProdOver(RL!Distinct(law.re), law.re, x, FALSE))
    ELSE LET hp == HillParts(law, x)
             pos == law.type \in {"hillpositive", "proportionalhillpositive"}
             pr == RL!Prop(law, x)
             den2 == RMul(hp.den, hp.den) IN
         CASE which = "k" -> SConst(RMul(pr, IF pos THEN RDiv(hp.h, hp.den) ELSE RInv(hp.den)))
           [] which = "K" -> LET mag == RDiv(RMul(RMul(law.k, law.n), hp.h), RMul(law.K, den2)) IN
                             SConst(RMul(pr, IF pos THEN RNeg(mag) ELSE mag))
           [] which = "n" -> LET mag == RDiv(RMul(law.k, hp.h), den2) IN
                             SScale(RMul(pr, IF pos THEN mag ELSE RNeg(mag)), Ln(RDiv(x[law.s1], law.K)))

\* ---------------------------------------------------------------- Jacobian and sensitivities
DVal(rx, env, v) == IF Mentions(RateTree(rx), v) THEN Eval(D(RateTree(rx), v), env) ELSE ZeroV
\* SUM_r net_r[i] * val[r]
RECURSIVE NetSum(_, _, _, _)
NetSum(rxs, val, i, r) ==
    IF r = 0 THEN ZeroV
    ELSE IF rxs[r].net[i] = 0 THEN NetSum(rxs, val, i, r - 1)
    ELSE Ap2("add", Ap2("mul", QV(I(rxs[r].net[i])), val[r]), NetSum(rxs, val, i, r - 1))
\* column of derivatives along v: [i |-> SUM_r net_r[i] d rate_r / dv]
DCol(rxs, env, ns, v) == LET dv == [r \in 1..Len(rxs) |-> DVal(rxs[r], env, v)] IN
                         [i \in 1..ns |-> NetSum(rxs, dv, i, Len(rxs))]
\* J[i][j] = DCol along species j, entry i
JacCols(rxs, env, ns) == [j \in 1..ns |-> DCol(rxs, env, ns, <<"sp", j>>)]
Jac(rxs, env, ns) == LET cols == JacCols(rxs, env, ns) IN [i \in 1..ns |-> [j \in 1..ns |-> cols[j][i]]]
Zq(rxs, env, ns, q) == DCol(rxs, env, ns, <<"par", q>>)

\* Taylor coefficients c_0 .. c_N of every rate equation along v: [i |-> jet of f_i]
RateJet(rx, env, v) == IF Mentions(RateTree(rx), v) THEN Jet(RateTree(rx), env, v, JetOrder)
                       ELSE JConst(Eval(RateTree(rx), env), JetOrder)
RECURSIVE NetJetSum(_, _, _, _)
NetJetSum(rxs, jets, i, r) ==
    IF r = 0 THEN JConst(ZeroV, JetOrder)
    ELSE IF rxs[r].net[i] = 0 THEN NetJetSum(rxs, jets, i, r - 1)
    ELSE JMap2("add", JScale(QV(I(rxs[r].net[i])), jets[r]), NetJetSum(rxs, jets, i, r - 1))
JetCol(rxs, env, ns, v) == LET jets == [r \in 1..Len(rxs) |-> RateJet(rxs[r], env, v)] IN
                           [i \in 1..ns |-> NetJetSum(rxs, jets, i, Len(rxs))]

\* Hill exponent as the variable: f(n) = C * sigma(+- n L), L = ln(s1/K), sigma the logistic function, whose
\* derivatives up to order 6 are bounded by 1 in absolute value (sup 0.25, 0.097, 0.125, 0.127, 0.25, 0.46);
\* |L| <= max(r, 1/r) - 1.  Upper bounds of |c_m| = |f^(m)| / m!:
RECURSIVE FactN(_)
FactN(m) == IF m <= 1 THEN 1 ELSE m * FactN(m - 1)
LnUpper(r) == RSub(RMax(r, RInv(r)), One)
HillNBound(law, x) ==
    LET C == RAbs(RMul(law.k, RL!Prop(law, x)))
        L == LnUpper(RDiv(x[law.s1], law.K)) IN
    [m \in 1..(JetOrder + 1) |-> LET p == CPow(L, m - 1) IN
                                 IF p = BigQ THEN BigQ ELSE RDiv(RMul(C, p), I(FactN(m - 1)))]

\* ---------------------------------------------------------------- difference schemes
Pow2(m) == RPowN(I(2), m)[1]
StencilCoef(scheme, m) ==
    CASE scheme = "forward_difference" -> One
      [] scheme = "backward_difference" -> IF m % 2 = 1 THEN One ELSE I(-1)
      [] scheme = "central_difference" -> IF m % 2 = 1 THEN One ELSE Zero
      [] scheme = "fourth_order_central_difference" -> IF m % 2 = 1 THEN R(16 - Pow2(m + 1), 12) ELSE Zero
\* value the scheme returns, from Taylor coefficients c (c[m + 1] = c_m), m = 1 .. N
RECURSIVE SeriesFrom(_, _, _, _)
SeriesFrom(scheme, c, h, m) ==
    IF m > Len(c) - 1 THEN Zero
    ELSE RAdd(RMul(RMul(StencilCoef(scheme, m), c[m + 1]), RPowN(h, m - 1)), SeriesFrom(scheme, c, h, m + 1))
StencilSeries(scheme, c, h) == SeriesFrom(scheme, c, h, 1)
\* the scheme applied literally (as compute_J does) to a function F of the shift, exact rationals
StencilOf(scheme, F(_), h) ==
    CASE scheme = "forward_difference" -> RDiv(RSub(F(h), F(Zero)), h)
      [] scheme = "backward_difference" -> RDiv(RSub(F(Zero), F(RNeg(h))), h)
      [] scheme = "central_difference" -> RDiv(RSub(F(h), F(RNeg(h))), RMul(I(2), h))
      [] scheme = "fourth_order_central_difference" ->
            RDiv(RAdd(RSub(RMul(I(8), F(h)), F(RMul(I(2), h))), RSub(F(RMul(I(-2), h)), RMul(I(8), F(RNeg(h))))), RMul(I(12), h))
\* the same on a tree along species j, in checked arithmetic (status "big" instead of an overflow)
Shifted(env, j, s) == [env EXCEPT !.x[j] = RAdd(@, s)]
StencilDirectV(scheme, e, env, j, h) ==
    LET F(k) == Eval(e, Shifted(env, j, RMul(I(k), h)))
        Sub(a, b) == Ap2("sub", a, b)
        Mul8(a) == Ap2("mul", QV(I(8)), a) IN
    CASE scheme = "forward_difference" -> Ap2("div", Sub(F(1), F(0)), QV(h))
      [] scheme = "backward_difference" -> Ap2("div", Sub(F(0), F(-1)), QV(h))
      [] scheme = "central_difference" -> Ap2("div", Sub(F(1), F(-1)), QV(RMul(I(2), h)))
      [] scheme = "fourth_order_central_difference" ->
            Ap2("div", Ap2("add", Sub(Mul8(F(1)), F(2)), Sub(F(-2), Mul8(F(-1)))), QV(RMul(I(12), h)))
SeriesV(scheme, c, h) ==        \* c: Taylor jet (values)
    VSumSeq([m \in 1..(Len(c) - 1) |-> Ap2("mul", QV(RMul(StencilCoef(scheme, m), RPowN(h, m - 1))), c[m + 1])])
\* truncation error of a scheme on a polynomial of degree <= 4: 0 for the fourth-order scheme,
\* c_3 h^2 (= h^2 f'''/6) for the central one, c_2 h + c_3 h^2 + c_4 h^3 (forward)
TruncationIsNextTerm(scheme, c, h) ==
    LET err == RSub(StencilSeries(scheme, c, h), c[2]) IN
    CASE scheme = "fourth_order_central_difference" -> err = Zero
      [] scheme = "central_difference" -> err = RMul(c[4], RPowN(h, 2))
      [] scheme = "forward_difference" -> err = RAdd(RMul(c[3], h), RAdd(RMul(c[4], RPowN(h, 2)), RMul(c[5], RPowN(h, 3))))
      [] scheme = "backward_difference" -> err = RAdd(RNeg(RMul(c[3], h)), RSub(RMul(c[4], RPowN(h, 2)), RMul(c[5], RPowN(h, 3))))
=============================================================================
