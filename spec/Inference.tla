------------------------------ MODULE Inference ------------------------------
(***************************************************************************)
(* C15 - the inference cost is the stated posterior on correctly aligned   *)
(* data.                                                                   *)
(*                                                                         *)
(* PROPERTY LEVEL (what C15 says, nothing else)                            *)
(*   a scenario is: a model (parameter defaults, species defaults), the    *)
(*   estimated parameters with their priors, the norm order p, the list of *)
(*   measured species, and per trajectory a time grid, an initial-         *)
(*   condition dictionary, a parameter-condition dictionary (each with its *)
(*   OWN key set) and a data frame (column name -> column of rationals).    *)
(*     Data(n, t, s)  = row t of the column NAMED s of frame n             *)
(*     PropPart(n,th) = SUM_{t, measured s} |Data(n,t,s) - sim_n(t)[s]|^p  *)
(*     cost(th)       = logprior(th) - (SUM_n PropPart(n,th))^(1/p)        *)
(*   with sim_n the solution from trajectory n's initial condition under   *)
(*   defaults (+) theta (+) condition_n; Rejected outside the prior's      *)
(*   support.  It has no argument but the scenario and theta.              *)
(*                                                                         *)
(* DESIGN LEVEL (the code's sequence of writes into the SHARED parameter   *)
(* array; one action per write)                                            *)
(*   Construct -> ( Begin(th) -> PriorCheck -> ResetDefaults -> SetTheta   *)
(*                  -> ( SetInit(n) -> SetCondition(n) -> Simulate(n) ->   *)
(*                       Accumulate )*  -> Finish )*                       *)
(*   The machine runs a SET of named designs in lock step so that one      *)
(*   behaviour carries the prediction of every design:                     *)
(*     "fixed"    data by column name and row; the keys any condition      *)
(*                touches are restored before trajectory n's condition is  *)
(*                written                                                  *)
(*     "leak"     data by name; conditions written into the shared array   *)
(*                and never restored within an evaluation (bioscrape as    *)
(*                pinned, inference.pyx get_log_likelihood)                *)
(*     "reshape"  (species x time) list of columns re-read row-major as    *)
(*                (time x species) (bioscrape as pinned, extract_data)     *)
(*     "code"     both (the pinned tree)                                   *)
(*     "noreset"  "leak" without ResetDefaults (negative control)          *)
(*   TLC: "fixed" refines the property level over ALL evaluation histories *)
(*   (the reachable graph closes: no history bound); "leak"/"reshape"/     *)
(*   "noreset" are refuted - the counterexamples are the defects.          *)
(*                                                                         *)
(* Models: family F1 (solution linear in t, exact and rational)            *)
(*   0 -> X at rate theta1 + b,  0 -> Y at rate theta2*c,  Z reaction-free *)
(*   kind "free": no reaction at all (exact for the stochastic cost too).  *)
(*   theta1, theta2 are estimated; c, b are condition parameters.          *)
(***************************************************************************)
EXTENDS Priors, TLC

CONSTANTS Designs        \* subset of {"fixed", "leak", "reshape", "code", "noreset"}

Species == {"X", "Y", "Z"}
ThetaNames == {"theta1", "theta2"}
CondNames == {"c", "b"}
ParamNames == ThetaNames \cup CondNames

DExtract(d) == IF d \in {"reshape", "code"} THEN "reshape" ELSE "byname"
DCond(d) == IF d \in {"fixed", "reshape"} THEN "restore" ELSE "leak"
DReset0(d) == d # "noreset"

\* ---- dictionaries: functions whose domain is a finite set of strings
Over(f, g) == [k \in DOMAIN f |-> IF k \in DOMAIN g THEN g[k] ELSE f[k]]      \* f overridden by g
DictOn(f, S) == [k \in (DOMAIN f \cap S) |-> f[k]]

\* ---- addition over the least common denominator (Rat.RAdd multiplies the denominators before
\*      normalising, which overflows TLC's 32-bit integers for sums of cubes over a common lattice)
LAdd(a, b) == LET g == GCD(a[2], b[2]) IN Norm(a[1] * (b[2] \div g) + b[1] * (a[2] \div g), (a[2] \div g) * b[2])
RECURSIVE LSum(_, _)
LSum(f, k) == IF k = 0 THEN Zero ELSE LAdd(LSum(f, k - 1), f[k])
AbsPow(q, p) == RPowN(RAbs(q), p)

(***************************************************************************)
(* Property level                                                          *)
(***************************************************************************)
NT(sc) == Len(sc.trajs)
TLen(sc) == Len(sc.trajs[1].grid)
NM(sc) == Len(sc.meas)

\* the solution family F1 and its certificate (checked by TLC: Sol solves x' = Rate, x(0) = x0)
Rate(kind, P, s) == IF kind = "free" THEN Zero
                    ELSE CASE s = "X" -> RAdd(P["theta1"], P["b"])
                           [] s = "Y" -> RMul(P["theta2"], P["c"])
                           [] OTHER -> Zero
Sol(kind, P, x, s, dt) == RAdd(x[s], RMul(Rate(kind, P, s), dt))
Certificate(kind, P, x, dts) ==
    \A s \in Species : /\ Sol(kind, P, x, s, Zero) = x[s]
                       /\ \A d1, d2 \in dts : RSub(Sol(kind, P, x, s, d2), Sol(kind, P, x, s, d1)) = RMul(Rate(kind, P, s), RSub(d2, d1))

ThetaDict(sc, th) == [k \in {sc.est[i] : i \in DOMAIN sc.est} |-> th[CHOOSE i \in DOMAIN sc.est : sc.est[i] = k]]
ParamsOf(sc, n, th) == Over(Over(sc.defaults, ThetaDict(sc, th)), sc.trajs[n].cond)   \* theta overrides the model, the condition overrides both
StartOf(sc, n) == Over(sc.sp0, sc.trajs[n].x0)

Data(sc, n, t, s) == sc.trajs[n].frame[s][t]                    \* by column NAME and ROW
D(sc) == [n \in 1..NT(sc) |-> [t \in 1..TLen(sc) |-> [j \in 1..NM(sc) |-> Data(sc, n, t, sc.meas[j])]]]

PropPart(sc, n, th) ==
    LET P == ParamsOf(sc, n, th)
        x == StartOf(sc, n)
        g == sc.trajs[n].grid
        T == Len(g)
        M == NM(sc)
        term == [i \in 1..(T * M) |->
                    LET t == ((i - 1) \div M) + 1
                        s == sc.meas[((i - 1) % M) + 1]
                    IN AbsPow(RSub(Data(sc, n, t, s), Sol(sc.kind, P, x, s, RSub(g[t], g[1]))), sc.p)]
    IN LSum(term, T * M)
\* one exact partial sum per trajectory; the total S is their sum (added by the harness in exact
\* fractions: with p = 3 and four trajectories the common numerator does not fit 32 bits)
PropParts(sc, th) == [n \in 1..NT(sc) |-> PropPart(sc, n, th)]

PriorVec(sc, th) == [i \in DOMAIN sc.est |-> [pr |-> sc.prior[i].pr, x |-> th[i], positive |-> sc.prior[i].positive]]
Outcome(sc, th) == IF AnyRejects(PriorVec(sc, th)) THEN "rejected" ELSE IF AnyOpen(PriorVec(sc, th)) THEN "open" ELSE "value"
LogPrior(sc, th) == [i \in DOMAIN sc.est |-> SVSeq(LogDensity(sc.prior[i].pr, th[i]))]   \* per component, see PriorProbe
PropEval(sc, th) == [outcome |-> Outcome(sc, th),
                     parts |-> IF Outcome(sc, th) = "rejected" THEN << >> ELSE PropParts(sc, th)]

\* permutations of the measurement list and of the trajectories (with their grids, conditions, frames)
Perms(k) == {f \in [1..k -> 1..k] : \A i, j \in 1..k : (i # j) => (f[i] # f[j])}
IdPerm(k) == [i \in 1..k |-> i]
PermuteSc(sc, pm, pn) == [sc EXCEPT !.meas = [j \in 1..NM(sc) |-> sc.meas[pm[j]]],
                                    !.trajs = [i \in 1..NT(sc) |-> sc.trajs[pn[i]]]]
PermInvariantAt(sc, th, pm, pn) ==
    LET s2 == PermuteSc(sc, pm, pn) IN
    /\ Outcome(s2, th) = Outcome(sc, th)
    /\ \A i \in 1..NT(sc) : PropPart(s2, i, th) = PropPart(sc, pn[i], th)
    /\ \A i \in 1..NT(sc), t \in 1..TLen(sc), j \in 1..NM(sc) : D(s2)[i][t][j] = D(sc)[pn[i]][t][pm[j]]

(***************************************************************************)
(* Design level                                                            *)
(***************************************************************************)
VARIABLES cur,    \* the scenario the current object was constructed from
          obj,    \* what the constructor stores: data tensor per design, initial states, conditions, default snapshot
          st,     \* per design: shared parameter array P, its value after SetTheta (base), interface state x, result ans, error per trajectory
          pc, n, th,
          last,   \* per design: outcome of the evaluation just finished (and the array it leaves behind)
          memo    \* {<<theta, result>>} of the current object: "a function of theta alone" without reference to the property level
mvars == <<cur, obj, st, pc, n, th, last, memo>>

\* extract_data as pinned: the columns are collected as a list (species x time) and np.reshape'd to (time x species)
CodeD(sc) == [i \in 1..NT(sc) |->
                LET T == TLen(sc)
                    M == NM(sc)
                    flat == [k \in 1..(M * T) |-> Data(sc, i, ((k - 1) % T) + 1, sc.meas[((k - 1) \div T) + 1])]
                IN [t \in 1..T |-> [j \in 1..M |-> flat[(t - 1) * M + j]]]]

MachineInit == /\ cur = << >> /\ obj = << >> /\ st = << >> /\ n = 0 /\ th = << >> /\ last = << >> /\ memo = {}

\* InferenceSetup.__init__: prepare_*_conditions, extract_data, PIDInterface (default snapshot), ModelLikelihood (initial states)
Construct(scn) ==
    /\ pc = "new"
    /\ cur' = scn
    /\ obj' = [data |-> [d \in Designs |-> IF DExtract(d) = "byname" THEN D(scn) ELSE CodeD(scn)],
               init |-> [i \in 1..NT(scn) |-> StartOf(scn, i)],
               conds |-> [i \in 1..NT(scn) |-> scn.trajs[i].cond],
               hascond |-> scn.pcform # "none",
               defaults |-> scn.defaults]
    /\ st' = [d \in Designs |-> [P |-> scn.defaults, base |-> scn.defaults, x |-> scn.sp0, ans |-> << >>, err |-> << >>]]
    /\ pc' = "idle" /\ n' = 0 /\ th' = << >> /\ last' = << >> /\ memo' = {}

\* the VALUE of an evaluation (the array P it leaves behind is design-level state, not part of the value)
ValueOf(r) == [d \in DOMAIN r |-> [outcome |-> r[d].outcome, parts |-> r[d].parts]]

Begin(t) == /\ pc = "idle"
            /\ th' = t /\ pc' = "prior" /\ last' = << >>
            /\ UNCHANGED <<cur, obj, st, n, memo>>

PriorCheck ==
    /\ pc = "prior"
    /\ IF Outcome(cur, th) = "rejected"
       THEN LET r == [d \in Designs |-> [outcome |-> "rejected", parts |-> << >>, P |-> st[d].P]] IN
            /\ last' = r /\ memo' = memo \cup {<<th, ValueOf(r)>>} /\ pc' = "done"
       ELSE /\ pc' = "reset" /\ UNCHANGED <<last, memo>>
    /\ UNCHANGED <<cur, obj, st, n, th>>

\* pid_interfaces.get_likelihood_function: LL.set_init_params(self.default_parameters)
ResetDefaults ==
    /\ pc = "reset"
    /\ st' = [d \in Designs |-> IF DReset0(d) THEN [st[d] EXCEPT !.P = obj.defaults] ELSE st[d]]
    /\ pc' = "theta" /\ UNCHANGED <<cur, obj, n, th, last, memo>>

\* LL.set_init_params(params_dict)
SetTheta ==
    /\ pc = "theta"
    /\ st' = [d \in Designs |-> LET P2 == Over(st[d].P, ThetaDict(cur, th)) IN [st[d] EXCEPT !.P = P2, !.base = P2, !.err = << >>]]
    /\ n' = 1 /\ pc' = "init" /\ UNCHANGED <<cur, obj, th, last, memo>>

\* csim.set_initial_state(get_initial_state(n))
SetInit ==
    /\ pc = "init"
    /\ st' = [d \in Designs |-> [st[d] EXCEPT !.x = obj.init[n]]]
    /\ pc' = "cond" /\ UNCHANGED <<cur, obj, n, th, last, memo>>

\* if get_initial_params(n) is not None: set_init_params(get_initial_params(n))
CondKeys == UNION {DOMAIN obj.conds[i] : i \in DOMAIN obj.conds}
SetCondition ==
    /\ pc = "cond"
    /\ st' = [d \in Designs |->
                IF obj.hascond = FALSE THEN st[d]
                ELSE IF DCond(d) = "restore"
                     THEN [st[d] EXCEPT !.P = Over(Over(@, DictOn(st[d].base, CondKeys)), obj.conds[n])]
                     ELSE [st[d] EXCEPT !.P = Over(@, obj.conds[n])]]
    /\ pc' = "sim" /\ UNCHANGED <<cur, obj, n, th, last, memo>>

\* propagator.simulate(csim, timepoints): starts at the trajectory's first time point
Simulate ==
    /\ pc = "sim"
    /\ LET g == cur.trajs[n].grid IN
       st' = [d \in Designs |-> [st[d] EXCEPT !.ans = [t \in 1..Len(g) |-> [s \in Species |-> Sol(cur.kind, st[d].P, st[d].x, s, RSub(g[t], g[1]))]]]]
    /\ pc' = "acc" /\ UNCHANGED <<cur, obj, n, th, last, memo>>

\* error += |measurements[n,t,i] - ans[t, meas_indices[i]]|^p  (the code keeps one accumulator; the spec keeps the
\* exact partial sum of each trajectory, see PropParts)
Accumulate ==
    /\ pc = "acc"
    /\ LET T == TLen(cur)
           M == NM(cur)
       IN st' = [d \in Designs |->
                   LET term == [i \in 1..(T * M) |->
                                   LET t == ((i - 1) \div M) + 1
                                       j == ((i - 1) % M) + 1
                                   IN AbsPow(RSub(obj.data[d][n][t][j], st[d].ans[t][cur.meas[j]]), cur.p)]
                   IN [st[d] EXCEPT !.err = Append(@, LSum(term, T * M))]]
    /\ IF n = NT(cur) THEN pc' = "finish" /\ n' = n ELSE pc' = "init" /\ n' = n + 1
    /\ UNCHANGED <<cur, obj, th, last, memo>>

Finish ==
    /\ pc = "finish"
    /\ LET r == [d \in Designs |-> [outcome |-> "value", parts |-> st[d].err, P |-> st[d].P]] IN
       /\ last' = r /\ memo' = memo \cup {<<th, ValueOf(r)>>}
    /\ pc' = "done" /\ UNCHANGED <<cur, obj, st, n, th>>

EvalStep == PriorCheck \/ ResetDefaults \/ SetTheta \/ SetInit \/ SetCondition \/ Simulate \/ Accumulate \/ Finish

(***************************************************************************)
(* What TLC checks                                                         *)
(***************************************************************************)
\* design => property, per design (the evaluation just finished, after ANY history)
RefinesFor(d) == (pc = "done") => (/\ last[d].outcome = PropEval(cur, th).outcome
                                    /\ last[d].parts = PropEval(cur, th).parts)
Refines == \A d \in Designs : RefinesFor(d)
RefinesFixed == ("fixed" \in Designs) => RefinesFor("fixed")
\* the stored tensor is the data by column name and row
DataAlignedFor(d) == (pc \notin {"hdr", "traj", "plan", "new"}) => (obj.data[d] = D(cur))
DataAligned == \A d \in Designs : DataAlignedFor(d)
DataAlignedFixed == ("fixed" \in Designs) => DataAlignedFor("fixed")
\* the value is a function of theta alone: unchanged by earlier evaluations (every design is judged, also the leaky ones)
FunctionOfTheta == \A a, b \in memo : (a[1] = b[1]) => (a[2] = b[2])
\* minus infinity outside the support, and only there
MinusInf == (pc = "done") => \A d \in Designs : (last[d].outcome = "rejected") <=> AnyRejects(PriorVec(cur, th))
\* the closed form used by Simulate solves the rate equations
OdeCertificate == (pc = "sim") => \A d \in Designs : Certificate(cur.kind, st[d].P, st[d].x, {RSub(cur.trajs[n].grid[t], cur.trajs[n].grid[1]) : t \in 1..TLen(cur)})
=============================================================================
