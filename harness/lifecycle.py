"""Replay machinery shared by C08 and C17 (spec/Lifecycle.tla, spec/LifecycleGen.tla).

An interpreter of the spec's actions on real Model / LineageModel objects, the abstraction function
project(), and the comparison of a projection with the spec's expected record.  Nothing here computes an
expected value: templates, probe, rates, rule effects, vector sizes, array contents all come from TLC.
Only worker processes may call the functions that import bioscrape."""
import math

from .rat import f
from .props.c02 import render, STYLES, sv_float

FULL, MINIMAL = STYLES[0], dict(STYLES[1], step="Heaviside", cap=False, dec=False, pow="^")
KEYS = {  # lineage kind -> (C vector, python list, definition list) keys of LineageModel.py_verif_state()
    "vrule": ("n_c_volume_rules", "n_volume_rules", "n_volume_rules"),
    "deathrule": ("n_c_death_rules", "n_death_rules", "n_death_rules"),
    "divrule": ("n_c_division_rules", "n_division_rules", "n_division_rules_list"),
    "vevent": ("n_c_volume_events", "n_volume_events", "n_volume_events_list"),
    "divevent": ("n_c_division_events", "n_division_events", "n_division_events_list"),
    "deathevent": ("n_c_death_events", "n_death_events", "n_death_events_list"),
}
TP_N, TP_END = 9, 2.0


def is_val(q):
    return int(q[1]) != 0


def is_nan(q):
    return int(q[1]) == 0 and int(q[0]) == 0


def spn(i):
    return "S%d" % i


# --------------------------------------------------------------------------- rendering of templates

def slot_value(s):
    return s["nm"] if s["nm"] else f(s["lit"])


def expr_text(enc, parnames, nsp, style=FULL):
    return render(enc, {"sp": [spn(i + 1) for i in range(nsp)], "par": list(parnames)}, style, False)


def prop_args(T, nsp, for_event=False):
    """(propensity type, dictionary) of a reaction template"""
    sl = {s["key"]: slot_value(s) for s in T["slots"]}
    t = T["ptype"]
    if t == "massaction":
        d = {"k": sl["k"]}
        if for_event:
            d["species"] = "*".join(spn(i) for i in T["re"])
        return t, d
    if t == "general":
        return t, {"rate": expr_text(T["expr"], [s["nm"] for s in T["slots"]], nsp)}
    d = {"k": sl["k"], "K": sl["K"], "n": sl["n"], "s1": spn(T["s1"])}
    if t.startswith("proportional"):
        d["d"] = spn(T["d"])
    return t, d


def rx_args(T, nsp):
    ptype, pd = prop_args(T, nsp)
    re_, pr_ = [spn(i) for i in T["re"]], [spn(i) for i in T["pr"]]
    if T["dtype"] == "none":
        return (re_, pr_, ptype, pd)
    dd = {s["key"]: slot_value(s) for s in T["dslots"]}
    return (re_, pr_, ptype, pd, T["dtype"], [spn(i) for i in T["dre"]], [spn(i) for i in T["dpr"]], dd)


_SHARED = {}


def shared_dicts(args):
    """The caller's dictionaries are INPUTS of create_reaction: a program that keeps one dictionary per distinct content
    and passes the same object for every reaction with that content (a shared rate constant in a loop) builds the same
    model as one that writes a fresh dictionary each time.  Content-equal propensity / delay dictionaries are one object."""
    import json
    args = list(args)
    for pos in (3, 7):
        if len(args) > pos and isinstance(args[pos], dict):
            key = json.dumps(args[pos], sort_keys=True, default=str)
            args[pos] = _SHARED.setdefault(key, args[pos])
    return tuple(args)


def rule_args(T, nsp):
    if T["rtype"] == "ode":
        return ("ode", {"equation": expr_text(T["expr"], T["pars"], nsp), "target": spn(T["tsp"])}, "dt")
    tgt = spn(T["tsp"]) if T["tsp"] else T["tpar"]
    style = MINIMAL if T["rtype"] == "additive" else FULL
    return (T["rtype"], {"equation": "%s = %s" % (tgt, expr_text(T["expr"], T["pars"], nsp, style))}, T["freq"])


def splitter(m, opt, nsp):
    from bioscrape.lineage import LineageVolumeSplitter
    o = {"default": opt["default"]}
    if opt["volume"]:
        o["volume"] = opt["volume"]
    for i, md in enumerate(opt["sp"]):
        if md:
            o[spn(i + 1)] = md
    return LineageVolumeSplitter(m, options=o)


def lin_add(m, T, menu):
    """one lineage rule / event through LineageModel's own API"""
    import bioscrape.lineage as bl
    nsp = menu["nsp"]
    kind, lt = T["kind"], T["ltype"]
    sl = {s["key"]: slot_value(s) for s in T["slots"]}
    named = [s["nm"] for s in T["slots"]]
    if kind == "vrule":
        if lt in ("assignment", "ode"):
            return m.create_volume_rule(lt, {"equation": expr_text(T["expr"], named, nsp)})
        return m.create_volume_rule(lt, dict(sl))
    if kind == "divrule":
        vs = splitter(m, menu["split"][T["split"] - 1], nsp)
        if lt == "general":
            return m.create_division_rule(lt, {"equation": expr_text(T["expr"], named, nsp)}, vs)
        return m.create_division_rule(lt, dict(sl), vs)
    if kind == "deathrule":
        if lt == "general":
            # create_death_rule("general") is unreachable by its documented name (missing comma in the list of
            # accepted spellings): the rule object goes through add_lineage_rule, which is what the call does
            return m.add_lineage_rule(bl.GeneralDeathRule(), {"equation": expr_text(T["expr"], named, nsp)}, "death")
        d = dict(sl)
        if lt == "species":
            d = {"specie": spn(T["sp"]), "threshold": sl["threshold"], "comp": ">"}
        else:
            d["comp"] = ">"
        return m.create_death_rule(lt, d)
    ptype, pd = prop_args(menu["rx"][T["prop"] - 1], nsp, for_event=True)
    if kind == "vevent":
        ep = {"equation": expr_text(T["expr"], named, nsp)} if lt.startswith("general") else dict(sl)
        return m.create_volume_event(lt, ep, ptype, pd)
    if kind == "divevent":
        return m.create_division_event(lt, {}, ptype, pd, splitter(m, menu["split"][T["split"] - 1], nsp))
    if kind == "deathevent":
        return m.create_death_event(lt, {}, ptype, pd)
    raise ValueError(kind)


# --------------------------------------------------------------------------- the interpreter of actions

class World:
    """real objects of one history: models (1-based like the spec), interfaces, time grid"""

    def __init__(self, menu, fam):
        import numpy as np
        self.menu, self.fam = menu, fam
        self.objs, self.itfs = [], []
        self.tp = np.linspace(0.0, TP_END, TP_N)
        self.nsp = menu["nsp"]

    def new_model(self):
        if self.fam == "lineage":
            from bioscrape.lineage import LineageModel
            m = LineageModel(initialize_model=False)
        else:
            from bioscrape.types import Model
            m = Model(initialize_model=False)
        self.objs.append(m)
        return m

    def pre(self, pre):
        m = self.new_model()
        for i in pre["sp"]:
            m._add_species(spn(i))
        for t in pre["rx"]:
            m.create_reaction(*shared_dicts(rx_args(self.menu["rx"][t - 1], self.nsp)))
        for u in pre["rules"]:
            m.create_rule(*rule_args(self.menu["rules"][u - 1], self.nsp))
        for l in pre["lin"]:
            lin_add(m, self.menu["lin"][l - 1], self.menu)
        for nm, v in pre["set"]:
            m.set_parameter(nm, f(v))
        for i in pre["sp"]:
            m.set_species({spn(i): float(i + 2)})
        if pre["init"]:
            m.py_initialize()
        return m

    def simulate(self, m, itf, mode, safe):
        """-> observation dict (rows, ...) of one simulation through the model or an interface"""
        import numpy as np
        from bioscrape.simulator import py_simulate_model
        if mode == "cell":
            from bioscrape.lineage import py_SimulateSingleCell
            if itf is None:
                r = py_SimulateSingleCell(self.tp, Model=m, safe=safe, return_dataframes=False)
            else:
                r = py_SimulateSingleCell(self.tp, interface=itf, return_dataframes=False)
            return {"rows": np.array(r.py_get_result(), dtype=float), "vol": np.array(r.py_get_volume(), dtype=float),
                    "t": np.array(r.py_get_timepoints(), dtype=float), "flags": [int(r.py_get_divided()), int(r.py_get_dead())]}
        kw = {"det": dict(stochastic=False), "sto": dict(stochastic=True), "vol": dict(stochastic=True, volume=1.0),
              "delay": dict(stochastic=True, delay=True), "dvol": dict(stochastic=True, delay=True, volume=1.5)}[mode]
        if itf is None:
            r = py_simulate_model(self.tp, Model=m, safe=safe, return_dataframe=False, **kw)
        else:
            r = py_simulate_model(self.tp, Interface=itf, return_dataframe=False, **kw)
        out = {"rows": np.array(r.py_get_result(), dtype=float)}
        if mode in ("vol", "dvol"):
            out["vol"] = np.array(r.py_get_volume(), dtype=float)
        return out

    def do(self, st):
        """perform one step of a history; -> (outcome, observation or None)"""
        import copy
        import pickle
        import bioscrape.random as br
        op = st["op"]
        m = self.objs[st["o"] - 1] if st["o"] else None
        obs = None
        try:
            if op == "addsp":
                m._add_species(st["s"])
            elif op == "addpar":
                m._add_param(st["s"])
            elif op == "setpar":
                if st["t"] == "set_parameter":
                    m.set_parameter(st["s"], f(st["q"]))
                else:
                    m.set_params({st["s"]: f(st["q"])})
            elif op == "setsp":
                m.set_species({st["s"]: f(st["q"])})
            elif op == "addrx":
                m.create_reaction(*shared_dicts(rx_args(self.menu["rx"][st["n"] - 1], self.nsp)))
            elif op == "addrule":
                m.create_rule(*rule_args(self.menu["rules"][st["n"] - 1], self.nsp))
            elif op == "addlin":
                lin_add(m, self.menu["lin"][st["n"] - 1], self.menu)
            elif op == "init":
                m.py_initialize()
            elif op == "build":
                self.itfs.append(self.build(m, st["t"]))
            elif op == "seed":
                br.py_seed_random(int(st["n"]))
            elif op == "copy":
                self.objs.append(pickle.loads(pickle.dumps(m)) if st["t"] == "pickle" else copy.deepcopy(m))
            elif op == "sim":
                if int(st["q"][0]):
                    br.py_seed_random(int(st["q"][0]))
                itf = self.itfs[st["n"] - 1] if st["n"] else None
                obs = self.simulate(m, itf, st["t"], st["s"] == "safe")
            elif op == "pairsim":
                m2 = self.objs[st["n"] - 1]
                sd = int(st["q"][0])
                br.py_seed_random(sd)
                a = self.simulate(m, None, st["t"], st["s"] == "safe")
                br.py_seed_random(sd)
                b = self.simulate(m2, None, st["t"], st["s"] == "safe")
                obs = {"pair": (a, b)}
            else:
                raise KeyError("unknown op " + op)
        except Exception as e:  # noqa - the exception class is the observation
            return type(e).__name__, {"error": repr(e)[:200]}
        return "ok", obs

    def build(self, m, kind):
        from bioscrape.simulator import ModelCSimInterface, SafeModelCSimInterface
        if kind == "plain":
            return ModelCSimInterface(m)
        if kind == "safe":
            return SafeModelCSimInterface(m)
        from bioscrape.lineage import LineageCSimInterface, SafeLineageCSimInterface
        return LineageCSimInterface(m) if kind == "lineage" else SafeLineageCSimInterface(m)


def same_obs(a, b, exact):
    """two simulation observations agree (bitwise for stochastic modes, 1e-12 for the integrator)"""
    import numpy as np
    if set(a) != set(b):
        return "result kinds %r / %r" % (sorted(a), sorted(b))
    for k in a:
        x, y = a[k], b[k]
        if k == "flags":
            if list(x) != list(y):
                return "divided/dead flags %r / %r" % (x, y)
            continue
        if x.shape != y.shape:
            return "%s shapes %r / %r" % (k, x.shape, y.shape)
        ok = np.array_equal(x, y, equal_nan=True) if exact else np.allclose(x, y, rtol=1e-12, atol=1e-12, equal_nan=True)
        if not ok:
            i = np.argwhere(~np.isclose(x, y, rtol=0 if exact else 1e-12, atol=0 if exact else 1e-12, equal_nan=True))
            i = tuple(int(v) for v in i[0]) if len(i) else ()
            return "%s differ first at %r: %r / %r" % (k, i, x[i] if i else None, y[i] if i else None)
    return None


# --------------------------------------------------------------------------- fresh model from a definition

def fresh_model(exp, menu, fam):
    """a model built AT ONCE from the spec's definition record (the expected projection of an object)"""
    nsp = menu["nsp"]
    species = [s["n"] for s in exp["sp"]]
    reactions = [rx_args(menu["rx"][r["t"] - 1], nsp) for r in exp["rx"]]
    rules = [rule_args(menu["rules"][r["t"] - 1], nsp) for r in exp["rules"]]
    pars = [(p["n"], f(p["v"])) for p in exp["par"] if not p["n"].startswith("DummyVar_") and is_val(p["v"])]
    ic = {s["n"]: f(s["v"]) for s in exp["sp"] if f(s["v"]) != -1.0}
    if fam == "lineage":
        from bioscrape.lineage import LineageModel
        m = LineageModel(species=species, reactions=reactions, rules=rules, initial_condition_dict=ic, initialize_model=False)
        for q in range(6):
            pass
        # lineage items in the order of their kinds (the definition keeps one list per kind)
        for q in range(6):
            for it in exp["lin"][q]:
                lin_add(m, menu["lin"][it["t"] - 1], menu)
        for n, v in pars:
            m.set_parameter(n, v)
        m.py_initialize()
    else:
        from bioscrape.types import Model
        m = Model(species=species, reactions=reactions, parameters=pars, rules=rules, initial_condition_dict=ic)
        for n, v in pars:
            m.set_parameter(n, v)
    return m


# --------------------------------------------------------------------------- abstraction function

def base_state(m):
    """the 19 fields of Model.__getstate__ (LineageModel puts its own 22 fields in front)"""
    st = m.__getstate__()
    return st[-19:], st[:-19]


def _probe_vec(names, probe):
    import numpy as np
    x = np.zeros(max(len(names), 1))
    for j, n in enumerate(names):
        x[j] = f(probe["x"][int(n[1:]) - 1])
    return x


def _bare_rates(p, x, pv, probe):
    V, t = f(probe["V"]), f(probe["t"])
    return [float(p.py_get_propensity(x.copy(), pv.copy(), t)),
            float(p.py_verif_get_stochastic_propensity(x.copy(), pv.copy(), t)),
            float(p.py_get_volume_propensity(x.copy(), pv.copy(), V, t)),
            float(p.py_verif_get_stochastic_volume_propensity(x.copy(), pv.copy(), V, t))]


SCRIPT = [0.37, 0.62, 0.81, 0.23, 0.55, 0.12, 0.91, 0.44, 0.68, 0.29] * 8


def delay_obs(dl, pvals, nsp):
    """delay type and the VALUES of the parameters the delay object is bound to.  The binding is observed through
    the public py_get_delay on probe parameter vectors (a sample is affine in (mean, std), resp. linear in theta
    and non-linear in k); the draws come from the scripted stream so that the shared generator is not advanced."""
    import numpy as np
    import bioscrape.random as br
    cls = type(dl).__name__
    x = np.zeros(max(nsp, 1))
    n = len(pvals)

    def sample(vec):
        br.py_verif_script(SCRIPT)
        try:
            return float(dl.py_get_delay(x, np.array(vec, dtype=float)))
        finally:
            br.py_verif_script(None)
    if cls == "NoDelay":
        return {"type": "none"}
    if cls == "FixedDelay":
        return {"type": "fixed", "p1": sample(pvals)}
    nan = float("nan")
    if cls == "GaussianDelay":
        g = []
        for j in range(n):
            e = [0.0] * n
            e[j] = 1.0
            g.append(sample(e))
        mi = [j for j in range(n) if g[j] == 1.0]
        si = [j for j in range(n) if g[j] != 0.0 and g[j] != 1.0]
        if len(mi) != 1 or len(si) != 1:
            return {"type": "gaussian", "p1": nan, "p2": nan, "note": "binding not identifiable %r" % (g,)}
        return {"type": "gaussian", "p1": float(pvals[mi[0]]), "p2": float(pvals[si[0]])}
    if cls == "GammaDelay":
        b = sample([1.0] * n)
        ki, ti = [], []
        for j in range(n):
            e = [1.0] * n
            e[j] = 2.0
            v = sample(e)
            if abs(v - 2 * b) <= 1e-9 * abs(b):
                ti.append(j)
            elif abs(v - b) > 1e-9 * abs(b):
                ki.append(j)
        if len(ki) != 1 or len(ti) != 1:
            return {"type": "gamma", "p1": nan, "p2": nan, "note": "binding not identifiable"}
        return {"type": "gamma", "p1": float(pvals[ki[0]]), "p2": float(pvals[ti[0]])}
    return {"type": cls, "p1": nan, "p2": nan}


def project(m, menu, fam):
    """project(model): species list in model order with values, parameters, hook vector sizes, matrices,
    per reaction class / update dictionaries / four rate forms at the probe / delay binding, interface rates
    when initialised, rules and their effect at the probe, lineage counts and event propensities"""
    import numpy as np
    probe = menu["probe"]
    base, ext = base_state(m)
    names = m.get_species_list()
    sd = m.get_species_dictionary()
    pnames = m.get_param_list()
    pdict = m.get_parameter_dictionary()
    vs = m.py_verif_state()
    out = {"sp": [[n, float(sd[n])] for n in names], "par": [[n, float(pdict[n])] for n in pnames], "vs": vs,
           "dummy": int(base[2]), "has_delay": bool(base[3])}
    U, D = m.py_get_update_array(), m.py_get_delay_update_array()
    out["upd"] = None if U is None else {"shape": list(U.shape), "dshape": list(D.shape), "U": U.tolist(), "D": D.tolist()}
    pv = np.array(m.get_parameter_values(), dtype=float).copy()
    x = _probe_vec(names, probe)
    rx = []
    for (p, dl, ud, dud) in m.get_reactions():
        e = {"cls": type(p).__name__, "ud": {k: int(v) for k, v in ud.items() if k}, "dud": {k: int(v) for k, v in dud.items() if k}}
        try:
            e["rates"] = _bare_rates(p, x, pv, probe)
        except Exception as ex:  # noqa
            e["rates"] = None
            e["rates_err"] = repr(ex)[:120]
        try:
            e["delay"] = delay_obs(dl, pv, len(names))
        except Exception as ex:  # noqa
            e["delay"] = {"type": "?", "err": repr(ex)[:120]}
        rx.append(e)
    out["rx"] = rx
    out["defs"] = [len(base[17]), len(base[18]), len(base[14]), len(base[15])]   # reaction / rule definitions, update lists
    out["ulists"] = [[{k: int(v) for k, v in d.items() if k} for d in base[14]], [{k: int(v) for k, v in d.items() if k} for d in base[15]]]
    if vs["initialized"]:
        from bioscrape.simulator import ModelCSimInterface
        try:
            itf = ModelCSimInterface(m)
            V, t = f(probe["V"]), f(probe["t"])
            vals = [itf.py_verif_propensities(md, x.copy(), V, t) for md in ("det", "sto", "vol", "stovol")]
            out["irates"] = [[float(vals[k][r]) for k in range(4)] for r in range(len(vals[0]))]
            out["inrules"] = int(itf.py_get_number_of_rules())
        except Exception as ex:  # noqa
            out["irates_err"] = repr(ex)[:160]
    out["rules"] = [[r[0], dict(r[1]), str(r[2]) if len(r) > 2 else "repeated"] for r in m.get_rules()]
    if len(names) == menu["nsp"]:
        xr, pr = x.copy(), pv.copy()
        try:
            for ro in base[6]:
                ro.py_execute_rule(xr, pr, f(probe["t"]), f(probe["dt"]), True)
            out["rulefx"] = {"x": {n: float(xr[j]) for j, n in enumerate(names)}, "pv": {n: float(pr[j]) for j, n in enumerate(pnames)}}
        except Exception as ex:  # noqa
            out["rulefx_err"] = repr(ex)[:160]
    if fam == "lineage":
        lin = {}
        lists = {"vevent": ext[6], "divevent": ext[7], "divrule": ext[8], "deathevent": ext[9]}
        for kind in ("vevent", "divevent", "deathevent"):
            rr = []
            for tup in lists[kind]:
                try:
                    rr.append(_bare_rates(tup[1], x, pv, probe))
                except Exception as ex:  # noqa
                    rr.append(None)
            lin[kind] = rr
        out["lin_event_rates"] = lin
        out["counts"] = {"rules": list(m.py_get_rule_counts()), "events": list(m.py_get_event_counts()),
                         "nlp": int(m.py_get_num_lineage_propensities()) if ext[10] is not None else 0}
        if vs["initialized"] and ext[10] is not None:
            rr = []
            for p in m.py_get_lineage_propensities():
                try:
                    rr.append(_bare_rates(p, x, pv, probe))
                except Exception:  # noqa
                    rr.append(None)
            out["lin_registered_rates"] = rr
    return out


def project_itf(itf):
    return {"x0": [float(v) for v in itf.py_get_initial_state()], "pv": [float(v) for v in itf.py_get_param_values()],
            "nrx": int(itf.py_get_num_reactions()), "nsp": int(itf.py_get_num_species())}


# --------------------------------------------------------------------------- comparison with the spec

def _veq(got, q, what, bad, tol=1e-12):
    """a real value against the spec's value (NaN = no value, Dirty = unconstrained)"""
    if not is_val(q):
        if is_nan(q) and not math.isnan(got):
            bad.append((what, "%r where no value was given" % got))
        return
    want = f(q)
    if not (abs(got - want) <= tol + 1e-12 * abs(want)):
        bad.append((what, "%r, expected %r" % (got, want)))


def _rates_cmp(got, exp, what, bad):
    if not exp["ok"] or got is None:
        if exp["ok"] and got is None:
            bad.append((what, "rate could not be evaluated"))
        return
    for k, md in enumerate(("det", "sto", "vol", "stovol")):
        want, scale = sv_float(exp["v"][k])
        if not (abs(got[k] - want) <= 1e-9 * max(scale, abs(want)) + 1e-12):
            bad.append((what + ":" + md, "%r, expected %r" % (got[k], want)))


def compare(obs, exp, menu, fam):
    """differences between project(real object) and the spec's Proj record: list of (aspect, detail)"""
    bad = []
    drift = []
    nsp = menu["nsp"]
    # species: model order and values
    if [s[0] for s in obs["sp"]] != [s["n"] for s in exp["sp"]]:
        bad.append(("species-order", "%r, expected %r" % ([s[0] for s in obs["sp"]], [s["n"] for s in exp["sp"]])))
    else:
        for (n, v), s in zip(obs["sp"], exp["sp"]):
            _veq(v, s["v"], "species-value:" + n, bad)
    # parameters: dictionary (property level), order (design level)
    on, en = [p[0] for p in obs["par"]], [p["n"] for p in exp["par"]]
    if sorted(on) != sorted(en):
        bad.append(("parameter-names", "%r, expected %r" % (on, en)))
    else:
        if on != en:
            drift.append("parameter order %r / %r" % (on, en))
        ev = {p["n"]: p["v"] for p in exp["par"]}
        for n, v in obs["par"]:
            _veq(v, ev[n], "parameter-value:" + n, bad)
    # flag and vector sizes (hook H4)
    vs = obs["vs"]
    for key, want in (("initialized", exp["init"]), ("n_c_propensities", exp["ncp"]), ("n_c_delays", exp["ncp"]),
                      ("n_c_repeat_rules", exp["ncr"]), ("n_propensities", exp["npp"]), ("n_delays", exp["npp"]),
                      ("n_reaction_list", len(exp["rx"])), ("n_repeat_rules", len(exp["rules"]))):
        if vs[key] != want:
            bad.append(("vector:" + key, "%r, expected %r" % (vs[key], want)))
    if obs["dummy"] != exp["dummy"]:
        bad.append(("dummy-counter", "%r, expected %r" % (obs["dummy"], exp["dummy"])))
    if obs["defs"] != [len(exp["rx"]), len(exp["rules"]), len(exp["rx"]), len(exp["rx"])]:
        bad.append(("definition-lists", "lengths %r for %d reactions, %d rules" % (obs["defs"], len(exp["rx"]), len(exp["rules"]))))
    want_delay = any(menu["rx"][r["t"] - 1]["dtype"] != "none" for r in exp["rx"])
    if obs["has_delay"] != want_delay:
        bad.append(("has-delay", "%r, expected %r" % (obs["has_delay"], want_delay)))
    # matrices: built for upd.sp / upd.nrx at the last initialisation
    upd = exp["upd"]
    if not upd["some"]:
        if obs["upd"] is not None:
            bad.append(("matrices", "update arrays exist before any initialisation"))
    elif obs["upd"] is None:
        bad.append(("matrices", "no update arrays after an initialisation"))
    else:
        shape = [len(upd["sp"]), upd["nrx"]]
        if obs["upd"]["shape"] != shape or obs["upd"]["dshape"] != shape:
            bad.append(("matrices", "shape %r / %r, expected %r" % (obs["upd"]["shape"], obs["upd"]["dshape"], shape)))
        else:
            for r in range(upd["nrx"]):
                T = menu["rx"][exp["rx"][r]["t"] - 1]
                for j, n in enumerate(upd["sp"]):
                    i = int(n[1:]) - 1
                    if obs["upd"]["U"][j][r] != T["stoich"][i] or obs["upd"]["D"][j][r] != T["dstoich"][i]:
                        bad.append(("matrices", "reaction %d species %s: %r / %r, expected %r / %r" % (
                            r, n, obs["upd"]["U"][j][r], obs["upd"]["D"][j][r], T["stoich"][i], T["dstoich"][i])))
    # reactions: class, update dictionaries, rate forms, delay binding
    if len(obs["rx"]) == len(exp["rx"]):
        for k, (o, e) in enumerate(zip(obs["rx"], exp["rx"])):
            T = menu["rx"][e["t"] - 1]
            cls = T["cls"] or "GeneralPropensity"
            if o["cls"] != cls:
                bad.append(("propensity-class", "reaction %d: %s, expected %s" % (k, o["cls"], cls)))
            for key, st in (("ud", T["stoich"]), ("dud", T["dstoich"])):
                side = (T["re"] + T["pr"]) if key == "ud" else (T["dre"] + T["dpr"])
                want = {spn(i): st[i - 1] for i in set(side)}
                if o[key] != want:
                    bad.append(("update-dictionary", "reaction %d %s: %r, expected %r" % (k, key, o[key], want)))
                if len(obs["ulists"][0]) == len(exp["rx"]) == len(obs["ulists"][1]) and obs["ulists"][0 if key == "ud" else 1][k] != want:
                    bad.append(("update-list", "reaction %d %s list entry: %r, expected %r" % (k, key, obs["ulists"][0 if key == "ud" else 1][k], want)))
            _rates_cmp(o["rates"], e["rates"], "rate:%s:r%d" % (T["ptype"], k), bad)
            d = o["delay"]
            if d.get("type") != T["dtype"]:
                bad.append(("delay-type", "reaction %d: %r, expected %r" % (k, d.get("type"), T["dtype"])))
            else:
                for j, q in enumerate(e["delay"]["p"]):
                    if is_val(q) and not (abs(d["p%d" % (j + 1)] - f(q)) <= 1e-9 * (1 + abs(f(q)))):
                        bad.append(("delay-parameter", "reaction %d %s: %r, expected %r" % (k, T["dslots"][j]["key"], d["p%d" % (j + 1)], f(q))))
    # the same rates through a fresh interface (C vectors) when the model is initialised
    if exp["init"] and vs["initialized"]:
        if "irates" not in obs:
            bad.append(("interface-rates", obs.get("irates_err", "missing")))
        elif len(obs["irates"]) != exp["ncp"]:
            bad.append(("interface-rates", "%d reactions through the interface, expected %d" % (len(obs["irates"]), exp["ncp"])))
        else:
            for k, e in enumerate(exp["rx"][:exp["ncp"]]):
                _rates_cmp(obs["irates"][k], e["rates"], "interface-rate:%s:r%d" % (menu["rx"][e["t"] - 1]["ptype"], k), bad)
            if obs["inrules"] != exp["ncr"]:
                bad.append(("interface-rules", "%d rules through the interface, expected %d" % (obs["inrules"], exp["ncr"])))
    # rules: definitions and effect at the probe
    want_rules = [list(rule_args(menu["rules"][r["t"] - 1], nsp)) for r in exp["rules"]]
    got_rules = [[r[0], r[1], "repeat" if r[2] == "repeated" else r[2]] for r in obs["rules"]]
    if got_rules != [[r[0], r[1], r[2]] for r in want_rules]:
        bad.append(("rule-definitions", "%r, expected %r" % (got_rules, want_rules)))
    fx = exp["rulefx"]
    if fx["ok"]:
        if "rulefx" not in obs:
            bad.append(("rule-effect", obs.get("rulefx_err", "missing")))
        else:
            for i in range(nsp):
                got = obs["rulefx"]["x"].get(spn(i + 1))
                if got is None or not (abs(got - f(fx["x"][i])) <= 1e-9 * (1 + abs(f(fx["x"][i])))):
                    bad.append(("rule-effect", "%s = %r after the rules, expected %r" % (spn(i + 1), got, f(fx["x"][i]))))
            for p, q in zip(exp["par"], fx["pv"]):
                if is_val(q):
                    got = obs["rulefx"]["pv"].get(p["n"])
                    if got is None or not (abs(got - f(q)) <= 1e-9 * (1 + abs(f(q)))):
                        bad.append(("rule-effect", "parameter %s = %r after the rules, expected %r" % (p["n"], got, f(q))))
    # lineage items
    if fam == "lineage":
        full = "n_c_division_rules" in vs
        for q, kind in enumerate(menu["kinds"]):
            items = exp["lin"][q]
            if full:
                ck, pk, dk = KEYS[kind]
                for key, want in ((ck, exp["nclin"][q]), (pk, exp["npylin"][q]), (dk, len(items))):
                    if vs[key] != want and not (vs[key] == -1 and want == 0):
                        bad.append(("lineage-vector:" + key, "%r, expected %r" % (vs[key], want)))
            if kind in obs["lin_event_rates"]:
                got = obs["lin_event_rates"][kind]
                if len(got) != len(items):
                    bad.append(("lineage-items:" + kind, "%d items, expected %d" % (len(got), len(items))))
                else:
                    for k, (g, e) in enumerate(zip(got, items)):
                        _rates_cmp(g, e["rates"], "event-rate:%s:%d" % (kind, k), bad)
        nev = exp["nclin"][3] + exp["nclin"][4] + exp["nclin"][5]
        if full and vs["n_c_lineage_propensities"] != nev:
            bad.append(("lineage-vector:n_c_lineage_propensities", "%r, expected %r" % (vs["n_c_lineage_propensities"], nev)))
        if exp["init"] and vs["initialized"]:
            want_counts = {"rules": [exp["nclin"][2], exp["nclin"][0], exp["nclin"][1]], "events": [exp["nclin"][4], exp["nclin"][3], exp["nclin"][5]]}
            if obs["counts"]["rules"] != want_counts["rules"] or obs["counts"]["events"] != want_counts["events"]:
                bad.append(("lineage-counts", "%r, expected %r" % (obs["counts"], want_counts)))
            reg = obs.get("lin_registered_rates")
            want_reg = [e for q in (3, 4, 5) for e in exp["lin"][q]]
            if reg is not None and len(reg) == len(want_reg) == nev:
                for k, (g, e) in enumerate(zip(reg, want_reg)):
                    _rates_cmp(g, e["rates"], "registered-event-rate:%d" % k, bad)
            elif reg is not None and len(reg) != nev:
                bad.append(("lineage-counts", "%d registered event propensities, expected %d" % (len(reg), nev)))
    return bad, drift


def compare_itf(obs, exp):
    bad = []
    if obs["nrx"] != exp["nrx"] or obs["nsp"] != exp["nsp"]:
        bad.append(("interface-size", "%d reactions x %d species, expected %d x %d" % (obs["nrx"], obs["nsp"], exp["nrx"], exp["nsp"])))
    if len(obs["x0"]) != len(exp["x0"]):
        bad.append(("interface-state-array", "length %d, expected %d" % (len(obs["x0"]), len(exp["x0"]))))
    else:
        for j, (g, q) in enumerate(zip(obs["x0"], exp["x0"])):
            _veq(g, q, "interface-state-array", bad)
    if len(obs["pv"]) != len(exp["pv"]):
        bad.append(("interface-parameter-array", "length %d, expected %d" % (len(obs["pv"]), len(exp["pv"]))))
    else:
        for j, (g, q) in enumerate(zip(obs["pv"], exp["pv"])):
            _veq(g, q, "interface-parameter-array", bad)
    return bad
