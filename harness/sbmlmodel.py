"""Shared pieces of the SBML checks (C12, C13, C14): rendering of the spec's expression trees, an
interpreter that builds a real Model from a Sbml.tla model record, the abstraction function
project(model), a writer of abstract documents through libsbml alone, and a small evaluator of plain
SBML mathematics (the trusted base of C14).  Nothing here computes an expected value: expectations come
from the records TLC emitted."""
import math
import os
import re
from fractions import Fraction

from .rat import f, q, close
from .build import sname, law_dict, delay_args

MODES = ("det", "sto", "vol", "stovol")     # order of Sbml.tla Rate4


# ----------------------------------------------------------------------------- expression trees -> text
_PREC = {"add": 1, "sub": 1, "mul": 2, "div": 2, "pow": 3}
_SYM = {"add": " + ", "sub": " - ", "mul": "*", "div": "/", "pow": "^"}


def num_str(v):
    fr = q(v)
    return str(fr.numerator) if fr.denominator == 1 else repr(float(fr))


def render(e, pow_sym="^"):
    """infix text of an expression tree of Sbml.tla (precedence-aware, so that a sum of two species
    stays the plain 'S1 + S2' an additive rule needs)."""
    def go(t):
        op = t[0]
        if op == "num":
            return num_str(t[1]), 9
        if op == "id":
            from . import build as _b
            return ("S" if (_b.SNAME_ALT and t[1] == "S1") else t[1]), 9
        p = _PREC[op]
        if op == "sub" and t[1][0] == "num" and list(t[1][1]) == [0, 1] and t[2][0] in ("pow", "mul"):
            # 0 - x^n and 0 - a*b are written with a unary minus, "-x^n" / "-a*b" (templates "negsq", "negsum")
            b, pb = go(t[2])
            return "-" + b, _PREC["add"]
        a, pa = go(t[1])
        b, pb = go(t[2])
        if pa < p or (op == "pow" and pa <= p):
            a = "(" + a + ")"
        if pb < p or (pb == p and op in ("sub", "div")):
            b = "(" + b + ")"         # (a power in the exponent needs no parentheses: powers associate to the right)
        return a + (pow_sym if op == "pow" else _SYM[op]) + b, p
    return go(e)[0]


def freq_str(fr, variant=0):
    k = fr["kind"]
    if k == "repeat":
        return "repeated" if variant == 0 else "repeat"
    if k in ("start", "dt"):
        return k
    return repr(float(q(fr["T"])))


def freq_class(s):
    """abstraction of a rule-frequency string as bioscrape documents it: repeat(ed) | dt | time T ('start' is time 0)"""
    s = str(s).strip()
    if s in ("repeat", "repeated"):
        return ("repeat", 0.0)
    if s == "dt":
        return ("dt", 0.0)
    if s == "start":
        return ("time", 0.0)
    return ("time", float(s))


def freq_class_spec(fr):
    return (fr["kind"], f(fr["T"]))


# ----------------------------------------------------------------------------- model records -> Model
def build_model(mr, ns, variant=0, suffix_names=False):
    """interpreter of a Sbml.tla model record through the public API; returns the initialised Model."""
    from bioscrape.types import Model
    prog = mr["prog"]
    decl = [sname(s) for s in prog["decl"]]
    m = Model(species=decl, initialize_model=False)
    params = {}
    pw = "^" if variant == 0 else "**"
    for i, rx in enumerate(prog["rx"]):
        law = rx["law"]
        if law["type"] == "general":
            ptype, pd = "general", {"rate": render(law["rate"], pw)}
            if rx["named"]:
                for key in law["gkeys"]:
                    params["%s_r%d" % (key, i)] = f(law[key])
        else:
            # suffix_names: the rate constant of reaction i is called r<i+1 mod n>, the id an exporter would generate for
            # another reaction: every SId of the document must still be defined exactly once
            ptype, pd = law_dict(law, i, rx["named"], params, kname=("r%d" % ((i + 1) % len(prog["rx"]))) if suffix_names else None)
        dtype, dd = delay_args(rx["delay"], i, rx["named"], params)
        re_, pr_ = [sname(s) for s in rx["re"]], [sname(s) for s in rx["pr"]]
        if dtype is None:
            m.create_reaction(re_, pr_, ptype, pd)
        else:
            m.create_reaction(re_, pr_, ptype, pd, dtype, [sname(s) for s in rx["dre"]], [sname(s) for s in rx["dpr"]], dd)
    for k, v in params.items():
        m.create_parameter(k, v)
    if suffix_names:
        # identifiers that are the tail of other identifiers after an underscore (r0 / k_r0, k / DummyVar_..._k_0):
        # parameters no rate mentions; an exporter that edits rate strings textually confuses them
        for nm in ["r%d" % i for i in range(len(prog["rx"]))] + ["k", "n"]:
            if nm not in params:
                m.create_parameter(nm, 1.0)
    for j, ru in enumerate(mr["rules"]):
        eq = "%s = %s" % (ru["tpar"] if ru.get("tpar") else sname(ru["target"]), render(ru["rhs"], pw))
        m.create_rule(ru["type"], {"equation": eq}, rule_frequency=freq_str(ru["freq"], variant))
        if ru["haspar"]:
            m.create_parameter("c_rule%d" % j, f(ru["pval"]))
    m.set_species({sname(i + 1): f(mr["x0"][i]) for i in range(ns)})
    m.py_initialize()
    return m


# ----------------------------------------------------------------------------- abstraction function
def _delay_obs(dl, pvals, nsp):
    """delay type and the VALUES of the parameters the delay object is bound to.  The binding is observed
    through the public py_get_delay on probe parameter vectors (a delay sample is affine in (mean, std),
    resp. linear in theta), the values are then read from the model's own parameter vector."""
    import numpy as np
    import bioscrape.random as br
    cls = type(dl).__name__
    x = np.zeros(max(nsp, 1))
    n = len(pvals)

    def sample(vec):
        br.py_seed_random(12345)
        return float(dl.py_get_delay(x, np.array(vec, dtype=float)))
    if cls == "NoDelay":
        return {"type": "none", "p1": 0.0, "p2": 0.0}
    if cls == "FixedDelay":
        return {"type": "fixed", "p1": sample(pvals), "p2": 0.0}
    if cls == "GaussianDelay":
        g = []
        for j in range(n):
            e = [0.0] * n
            e[j] = 1.0
            g.append(sample(e))
        mi = [j for j in range(n) if g[j] == 1.0]
        si = [j for j in range(n) if g[j] != 0.0 and g[j] != 1.0]
        if len(mi) != 1 or len(si) != 1:
            return {"type": "gaussian", "p1": float("nan"), "p2": float("nan"), "note": "binding not identifiable %r" % (g,)}
        return {"type": "gaussian", "p1": float(pvals[mi[0]]), "p2": float(pvals[si[0]])}
    if cls == "GammaDelay":
        b = sample([1.0] * n)
        ki, ti = [], []
        for j in range(n):
            e = [1.0] * n
            e[j] = 2.0
            v = sample(e)
            if close(v, 2 * b):
                ti.append(j)
            elif not close(v, b):
                ki.append(j)
        if len(ki) != 1 or len(ti) != 1:
            return {"type": "gamma", "p1": float("nan"), "p2": float("nan"), "note": "binding not identifiable"}
        return {"type": "gamma", "p1": float(pvals[ki[0]]), "p2": float(pvals[ti[0]])}
    return {"type": cls, "p1": float("nan"), "p2": float("nan")}


def project(m, ns, probes, ruletimes):
    """observables of a real Model in the vocabulary of Sbml.tla Sem: species, parameters (dummies apart),
    update arrays by species name, the four rate forms at the probes (interface and bare propensity
    objects), delay types and parameter values, rules and the effect of the rule list at the probe times."""
    import numpy as np
    from bioscrape.simulator import ModelCSimInterface
    names = [sname(i + 1) for i in range(ns)]
    s2i = m.get_species2index()
    out = {"species": {k: float(v) for k, v in m.get_species_dictionary().items()}}
    pd = {k: float(v) for k, v in m.get_parameter_dictionary().items()}
    out["par"] = {k: v for k, v in pd.items() if not k.startswith("DummyVar_")}
    out["dummies"] = {k: v for k, v in pd.items() if k.startswith("DummyVar_")}
    U, D = m.py_get_update_array(), m.py_get_delay_update_array()
    nr = U.shape[1]
    out["nspecies"] = int(U.shape[0])
    missing = [s for s in names if s not in s2i]
    if missing or U.shape[0] != ns:
        out["fatal"] = "species set %r (expected %r)" % (sorted(s2i), names)
        return out
    out["stoich"] = [[int(U[s2i[s], r]) for s in names] for r in range(nr)]
    out["dstoich"] = [[int(D[s2i[s], r]) for s in names] for r in range(nr)]
    itf = ModelCSimInterface(m)
    pv0 = np.array(m.get_parameter_values(), dtype=float).copy()
    props = m.get_propensities()
    rates, rates_bare = [[] for _ in range(nr)], [[] for _ in range(nr)]
    for pr in probes:
        x = np.zeros(ns)
        for i, s in enumerate(names):
            x[s2i[s]] = f(pr["x"][i])
        V = f(pr["V"])
        vals = {md: itf.py_verif_propensities(md, x.copy(), V, 0.0) for md in MODES}
        for r in range(nr):
            rates[r].append([float(vals[md][r]) for md in MODES])
            p = props[r]
            rates_bare[r].append([float(p.py_get_propensity(x.copy(), pv0.copy())),
                                  float(p.py_verif_get_stochastic_propensity(x.copy(), pv0.copy())),
                                  float(p.py_get_volume_propensity(x.copy(), pv0.copy(), V)),
                                  float(p.py_verif_get_stochastic_volume_propensity(x.copy(), pv0.copy(), V))])
    out["rates"], out["rates_bare"] = rates, rates_bare
    out["delay"] = [_delay_obs(dl, pv0, ns) for dl in m.get_delays()]
    rules = []
    for rt in m.get_rules():
        rtype, attrs = rt[0], rt[1]
        fq = rt[2] if len(rt) > 2 else "repeated"
        eq = attrs.get("equation", "")
        rules.append({"type": rtype, "target": eq.split("=")[0].strip(), "freq": list(freq_class(fq)), "raw": [rtype, eq, str(fq)]})
    out["rules"] = rules
    # effect of the rule list: species, parameters and the deterministic rates read afterwards.  A rule on a
    # parameter writes into the model's own parameter vector: it is restored after every probe.
    live = itf.py_get_param_values()
    p2i = m.get_params2index()
    fx, fxp, fxr = [], [], []
    for pr in probes:
        row, rowp, rowr = [], [], []
        for rtm in ruletimes:
            x = np.zeros(ns)
            for i, s in enumerate(names):
                x[s2i[s]] = f(pr["x"][i])
            try:
                itf.py_apply_repeated_rules(x, f(rtm["t"]), bool(rtm["step"]))
                row.append([float(x[s2i[s]]) for s in names])
                rowp.append({k: float(live[j]) for k, j in p2i.items() if not k.startswith("DummyVar_")})
                rowr.append([float(v) for v in itf.py_verif_propensities("det", x.copy(), f(pr["V"]), 0.0)])
            finally:
                np.copyto(live, pv0)
        fx.append(row)
        fxp.append(rowp)
        fxr.append(rowr)
    out["rulefx"], out["rulefxp"], out["rulefxr"] = fx, fxp, fxr
    after = {k: float(v) for k, v in m.get_parameter_dictionary().items()}
    if after != pd:
        raise RuntimeError("harness: parameter vector not restored after the rule probes")
    return out


def compare_sem(obs, sem, ns, mr):
    """differences between project(model) and the spec's Sem record; each is (aspect, context, detail)."""
    bad = []
    names = [sname(i + 1) for i in range(ns)]
    if "fatal" in obs:
        return [("species", "set", obs["fatal"])]
    rxs = mr["prog"]["rx"]
    for i, s in enumerate(names):
        if not close(obs["species"].get(s), f(sem["init"][i])):
            bad.append(("species", "value", "%s = %r, expected %r" % (s, obs["species"].get(s), f(sem["init"][i]))))
    if set(obs["species"]) != set(names):
        bad.append(("species", "set", "species %r, expected %r" % (sorted(obs["species"]), names)))
    spar = sem["par"] if isinstance(sem["par"], dict) else {}
    if set(obs["par"]) != set(spar):
        bad.append(("parameters", "names", "parameters %r, expected %r" % (sorted(obs["par"]), sorted(spar))))
    for k, v in spar.items():
        if k in obs["par"] and not close(obs["par"][k], f(v)):
            bad.append(("parameters", "value", "%s = %r, expected %r" % (k, obs["par"][k], f(v))))
    nr = len(sem["stoich"])
    if len(obs["stoich"]) != nr:
        bad.append(("stoichiometry", "reactions", "%d reactions, expected %d" % (len(obs["stoich"]), nr)))
        return bad
    for r in range(nr):
        lt = rxs[r]["law"]["type"]
        if obs["stoich"][r] != sem["stoich"][r]:
            bad.append(("stoichiometry", lt, "reaction %d: %r, expected %r" % (r, obs["stoich"][r], sem["stoich"][r])))
        if obs["dstoich"][r] != sem["dstoich"][r]:
            bad.append(("delayed-stoichiometry", rxs[r]["delay"]["type"], "reaction %d: %r, expected %r" % (r, obs["dstoich"][r], sem["dstoich"][r])))
        for path in ("rates", "rates_bare"):
            for i in range(len(sem["rates"][r])):
                for k, md in enumerate(MODES):
                    if not close(obs[path][r][i][k], f(sem["rates"][r][i][k])):
                        bad.append(("rate", "%s:%s" % (lt, md), "reaction %d probe %d via %s: %r, expected %r" % (
                            r, i, "interface" if path == "rates" else "propensity object", obs[path][r][i][k], f(sem["rates"][r][i][k]))))
        d, e = obs["delay"][r], sem["delay"][r]
        if d["type"] != e["type"]:
            bad.append(("delay-type", e["type"], "reaction %d: %s, expected %s" % (r, d["type"], e["type"])))
        elif not (close(d["p1"], f(e["p1"])) and close(d["p2"], f(e["p2"]))):
            bad.append(("delay-parameters", e["type"], "reaction %d: (%r, %r), expected (%r, %r) %s" % (r, d["p1"], d["p2"], f(e["p1"]), f(e["p2"]), d.get("note", ""))))
    if len(obs["rules"]) != len(sem["rules"]):
        bad.append(("rules", "count", "%d rules %r, expected %d" % (len(obs["rules"]), [r_["raw"] for r_ in obs["rules"]], len(sem["rules"]))))
    else:
        for j, (o, e) in enumerate(zip(obs["rules"], sem["rules"])):
            fk = e["freq"]["kind"]
            if o["target"] != e["target"]:
                bad.append(("rule-target", mr["rules"][j]["type"], "rule %d assigns %s, expected %s" % (j, o["target"], e["target"])))
            es = freq_class_spec(e["freq"])
            if o["freq"][0] != es[0] or not close(o["freq"][1], es[1]):
                bad.append(("rule-frequency", fk, "rule %d frequency %r, expected %r" % (j, o["raw"][2], es)))
    ctx = "+".join(sorted({"%s/%s/%s" % (ru["type"], "parameter" if ru.get("tpar") else "species", ru["freq"]["kind"]) for ru in mr["rules"]})) or "none"
    for i in range(len(sem["rulefx"])):
        for t in range(len(sem["rulefx"][i])):
            for s in range(ns):
                if not close(obs["rulefx"][i][t][s], f(sem["rulefx"][i][t][s])):
                    bad.append(("rule-effect", ctx, "probe %d time-probe %d: %s = %r, expected %r" % (i, t, names[s], obs["rulefx"][i][t][s], f(sem["rulefx"][i][t][s]))))
            ep = sem["rulefxp"][i][t] if isinstance(sem["rulefxp"][i][t], dict) else {}
            for k, v in ep.items():
                if not close(obs["rulefxp"][i][t].get(k), f(v)):
                    bad.append(("rule-effect-parameter", ctx, "probe %d time-probe %d: parameter %s = %r after the rules, expected %r" % (i, t, k, obs["rulefxp"][i][t].get(k), f(v))))
            for r in range(nr):
                if not close(obs["rulefxr"][i][t][r], f(sem["rulefxr"][i][t][r])):
                    bad.append(("rule-effect-rate", ctx, "probe %d time-probe %d: rate of reaction %d after the rules = %r, expected %r" % (i, t, r, obs["rulefxr"][i][t][r], f(sem["rulefxr"][i][t][r]))))
    return bad


_ID_RE = re.compile(r'id="bioscrape_generated_model_\d+"')


def blank_id(text):
    return _ID_RE.sub('id=""', text)


# ----------------------------------------------------------------------------- plain SBML mathematics
class UndefinedId(Exception):
    pass


def eval_ast(node, env):
    """value of a libsbml ASTNode of plain SBML math: numbers, identifiers, + - * / ^ (n-ary plus / times,
    unary minus).  Anything else, and any identifier outside env, is an error - never a guess."""
    import libsbml
    t = node.getType()
    kids = [node.getChild(i) for i in range(node.getNumChildren())]
    if t == libsbml.AST_INTEGER:
        return float(node.getInteger())
    if t in (libsbml.AST_REAL, libsbml.AST_REAL_E, libsbml.AST_RATIONAL):
        return float(node.getReal())
    if t == libsbml.AST_NAME:
        nm = node.getName()
        if nm not in env:
            raise UndefinedId(nm)
        return env[nm]
    if t == libsbml.AST_PLUS:
        return math.fsum(eval_ast(k, env) for k in kids)
    if t == libsbml.AST_TIMES:
        v = 1.0
        for k in kids:
            v *= eval_ast(k, env)
        return v
    if t == libsbml.AST_MINUS:
        if len(kids) == 1:
            return -eval_ast(kids[0], env)
        return eval_ast(kids[0], env) - eval_ast(kids[1], env)
    if t == libsbml.AST_DIVIDE:
        return eval_ast(kids[0], env) / eval_ast(kids[1], env)
    if t in (libsbml.AST_POWER, libsbml.AST_FUNCTION_POWER):
        return eval_ast(kids[0], env) ** eval_ast(kids[1], env)
    raise ValueError("unsupported SBML math node type %d (%s)" % (t, node.getName()))


def ast_ids(node):
    import libsbml
    out = set()
    if node.getType() == libsbml.AST_NAME:
        out.add(node.getName())
    for i in range(node.getNumChildren()):
        out |= ast_ids(node.getChild(i))
    return out


# ----------------------------------------------------------------------------- abstract documents -> files
def write_doc(doc, path):
    """writes an abstract document of Sbml.tla with libsbml directly (no bioscrape code involved): SBML L3V2,
    one compartment of size 1, ordinary non-boundary species, no events / functions / initial assignments."""
    import libsbml

    def ok(rc, what):
        if rc != libsbml.LIBSBML_OPERATION_SUCCESS:
            raise RuntimeError("libsbml refused: " + what)
    d = libsbml.SBMLDocument(3, 2)
    mod = d.createModel()
    ok(mod.setId("verif_document"), "model id")
    c = mod.createCompartment()
    ok(c.setId("cell"), "compartment")
    c.setConstant(True)
    c.setSize(1.0)
    c.setSpatialDimensions(3)
    rule_vars = {ru["var"] for ru in doc["rules"]}
    for sp in doc["species"]:
        s = mod.createSpecies()
        ok(s.setId(sp["id"]), "species id")
        s.setCompartment("cell")
        s.setConstant(False)
        s.setBoundaryCondition(False)
        s.setHasOnlySubstanceUnits(False)
        # libsbml's setters are mutually exclusive (setting one unsets the other); a file may still carry
        # both attributes, so for "both" the amount attribute is added to the written text below
        if sp["hasAmt"] and not sp["hasConc"]:
            ok(s.setInitialAmount(f(sp["amt"])), "amount")
        if sp["hasConc"]:
            ok(s.setInitialConcentration(f(sp["conc"])), "concentration")
    for p in doc["params"]:
        par = mod.createParameter()
        ok(par.setId(p["id"]), "parameter id")
        par.setValue(f(p["val"]))
        par.setConstant(p["id"] not in rule_vars)
    for rx in doc["rx"]:
        r = mod.createReaction()
        ok(r.setId(rx["id"]), "reaction id")
        r.setReversible(False)
        for side, mk in ((rx["reac"], r.createReactant), (rx["prod"], r.createProduct)):
            for ent in side:
                sr = mk()
                ok(sr.setSpecies(ent["sp"]), "species reference")
                sr.setStoichiometry(float(ent["st"]))
                sr.setConstant(True)
        for ms in rx["mods"]:
            mr_ = r.createModifier()
            ok(mr_.setSpecies(ms), "modifier")
        kl = r.createKineticLaw()
        ast = libsbml.parseL3Formula(render(rx["kl"]))
        if ast is None:
            raise RuntimeError("libsbml cannot parse " + render(rx["kl"]))
        ok(kl.setMath(ast), "kinetic law")
        for lp in rx["locals"]:
            l_ = kl.createLocalParameter()
            ok(l_.setId(lp["id"]), "local parameter")
            l_.setValue(f(lp["val"]))
    for j, ru in enumerate(doc["rules"]):
        rr = mod.createAssignmentRule() if ru["kind"] == "assignment" else mod.createRateRule()
        ok(rr.setVariable(ru["var"]), "rule variable")
        ast = libsbml.parseL3Formula(render(ru["math"]))
        ok(rr.setMath(ast), "rule math")
    text = libsbml.writeSBMLToString(d)
    for sp in doc["species"]:
        if sp["hasAmt"] and sp["hasConc"]:
            tag = '<species id="%s" ' % sp["id"]
            if text.count(tag) != 1:
                raise RuntimeError("cannot place initialAmount of " + sp["id"])
            text = text.replace(tag, tag + 'initialAmount="%r" ' % f(sp["amt"]))
    chk = libsbml.readSBMLFromString(text)
    if chk.getNumErrors() > 0 or chk.getModel() is None:
        raise RuntimeError("written document does not read back: " + chk.getErrorLog().toString()[:300])
    for sp in doc["species"]:
        got = chk.getModel().getSpecies(sp["id"])
        if got.isSetInitialAmount() != bool(sp["hasAmt"]) or got.isSetInitialConcentration() != bool(sp["hasConc"]):
            raise RuntimeError("species attributes of %s were not written as asked" % sp["id"])
    with open(path, "w") as fh:
        fh.write(text)
    return text
