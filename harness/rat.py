"""Bridge between the spec's exact values and floats."""
import math
from fractions import Fraction


def q(v):
    """[n, d] -> Fraction"""
    return Fraction(int(v[0]), int(v[1]))


def f(v):
    return float(q(v))


def close(a, b, rtol=1e-9, atol=1e-12):
    if a is None or b is None:
        return False
    if isinstance(a, float) and (math.isnan(a) or math.isinf(a)):
        return False
    return abs(a - b) <= atol + rtol * abs(b)


def symval(sv):
    """SymVal (spec/SymVal.tla) -> float.  sv = list of terms [coef, atoms]; atom = [kind, args...]:
    ["exp", q] e^q, ["ln", q] ln q, ["ln2pi"], ["lnln", q] ln(ln q), ["lnsq", q] (ln q)^2,
    ["root", q, p] q^(1/p), ["pi"]"""
    tot = 0.0
    for coef, atoms in sv:
        t = f(coef)
        for a in atoms:
            k = a[0]
            if k == "exp":
                t *= math.exp(f(a[1]))
            elif k in ("ln", "lnp"):
                t *= math.log(f(a[1]))
            elif k == "ln2pi":
                t *= math.log(2 * math.pi)
            elif k == "lnln":
                t *= math.log(math.log(f(a[1])))
            elif k == "lnsq":
                t *= math.log(f(a[1])) ** 2
            elif k == "root":
                t *= f(a[1]) ** (1.0 / int(a[2]))
            elif k == "pi":
                t *= math.pi
            else:
                raise ValueError("unknown atom %r" % (a,))
        tot += t
    return tot
