"""C01 - built-in rate laws equal their documented closed forms.

(M) spec/RateLaws.tla + RateProbe.tla: TLC enumerates law x reactant multiset (orders 0..4 with
    repeats) x state grid (integers and fractions) x parameters (incl. fractional Hill exponents on
    exact perfect powers) x volumes and checks the consistency identities at every point.
(G) every point is emitted with its four exact expected values and evaluated on the real code in
    all four modes through three access paths (bare propensity object, plain interface, safe
    interface), models built through create_reaction so the mass-action dispatch is in the path.
"""
import json
import time

from .. import common, pool
from ..rat import f, close

PROP = "C01"
MODES = ("det", "vol", "sto", "stovol")


def build_model(law, variant, ns=3):
    """variant 0: numeric k (dummy parameter), no products; 1: named parameter, first reactant is also a
    product (catalyst; only the net consumption of the others is required in safe mode)."""
    from bioscrape.types import Model
    sp = ["S%d" % (i + 1) for i in range(ns)] + ["P"]
    m = Model(species=sp, initialize_model=False)
    if variant == 2:
        # the law is the SECOND reaction of the model; the first one (Zb -> 0 at Zb = 0) cannot fire, which the safe interface
        # notices: the rate of a reaction does not depend on the reactions declared before it
        m.create_reaction(["Zb"], [], "massaction", {"k": 2.5})
    named = variant == 1
    if law["type"] == "massaction":
        re_ = ["S%d" % i for i in (law.get("written") or law["re"])]
        pr = ["P"] + ([re_[0]] if (variant == 1 and re_) else [])
        pd = {"k": "kk" if named else f(law["k"])}
        m.create_reaction(re_, pr, "massaction", pd)
        if named:
            m.create_parameter("kk", f(law["k"]))
    else:
        pd = {"k": "kk" if named else f(law["k"]), "K": "KK" if named else f(law["K"]),
              "n": "nn" if named else f(law["n"]), "s1": "S%d" % law["s1"]}
        if law["type"].startswith("proportional"):
            pd["d"] = "S%d" % law["d"]
        m.create_reaction([], ["P"], law["type"], pd)
        if named:
            for nme, key in (("kk", "k"), ("KK", "K"), ("nn", "n")):
                m.create_parameter(nme, f(law[key]))
    m.set_species({s: 1 for s in sp})
    if variant == 2:
        m.set_species({"Zb": 0})
    m.py_initialize()
    return m


def impl_eval(job):
    import numpy as np
    from bioscrape.simulator import ModelCSimInterface, SafeModelCSimInterface
    variant = job["variant"]
    # "sweep": laws of one structure that differ in their parameter VALUES only are evaluated on ONE model / propensity /
    # interface object, re-parameterised with set_params in between (a rate is a function of the values at call time)
    sweep = job.get("sweep") or [{"law": job["law"], "pts": job["pts"]}]
    law = sweep[0]["law"]
    m = build_model(law, variant, ns=len(sweep[0]["pts"][0]["x"]))
    ri = 1 if variant == 2 else 0          # index of the law's reaction
    prop = m.get_propensities()[ri]
    plain = ModelCSimInterface(m)
    safe = SafeModelCSimInterface(m)
    upd = m.py_get_update_array()[:, ri]
    nsp_model = m.py_get_update_array().shape[0]
    bad = []
    n_eval = 0
    for n_ent, ent in enumerate(sweep):
      law = ent["law"]
      if n_ent > 0:
          m.set_params({"kk": f(law["k"])} if law["type"] == "massaction" else {"kk": f(law["k"]), "KK": f(law["K"]), "nn": f(law["n"])})
      params = m.get_parameter_values().copy()
      for pt in ent["pts"]:
          x = np.array([f(v) for v in pt["x"]] + [1.0] + [0.0] * (nsp_model - len(pt["x"]) - 1))
          V = f(pt["V"])
          exp = {k: f(pt[k]) for k in MODES}
          supplied = all(x[i] >= -upd[i] for i in range(len(x)) if upd[i] < 0)
          got = {
              "bare": {"det": prop.py_get_propensity(x.copy(), params),
                       "vol": prop.py_get_volume_propensity(x.copy(), params, V),
                       "sto": prop.py_verif_get_stochastic_propensity(x.copy(), params),
                       "stovol": prop.py_verif_get_stochastic_volume_propensity(x.copy(), params, V)},
              "plain": {k: float(plain.py_verif_propensities(k, x.copy(), V)[ri]) for k in MODES},
              "safe": {k: float(safe.py_verif_propensities(k, x.copy(), V)[ri]) for k in MODES},
          }
          for path, vals in got.items():
              for mode, val in vals.items():
                  if path == "safe" and mode in ("sto", "stovol") and not supplied:
                      # C01 is silent at under-supplied states on the safe path (C06 demands 0 there)
                      continue
                  n_eval += 1
                  if not close(float(val), exp[mode]):
                      bad.append({"path": path, "mode": mode, "got": float(val), "expected": exp[mode], "pt": pt, "law": law, "swept": n_ent > 0})
    return {"n_eval": n_eval, "bad": bad[:50], "n_bad": len(bad), "type": type(prop).__name__}


def _lawkey(law):
    return json.dumps(law, sort_keys=True)


def finding_key(law, b):
    if law["type"] == "massaction":
        rep = max([law["re"].count(s) for s in set(law["re"])] or [0])
        return "massaction:order=%d,repeated=%s,mode=%s%s" % (len(law["re"]), "yes" if rep > 1 else "no", b["mode"],
                                                              ",written-order=other" if law.get("written") else "")
    return "%s:mode=%s" % (law["type"], b["mode"])


def written_orders(law, all_orders=False):
    """orders (other than the non-decreasing one) in which the reactant multiset of a mass-action law is written"""
    import itertools
    re_ = list(law["re"])
    if law["type"] != "massaction" or len(set(re_)) < 2:
        return []
    if all_orders:
        out = sorted(set(itertools.permutations(re_)))
    else:
        apart = sorted(range(len(re_)), key=lambda i: (re_[:i].count(re_[i]), re_[i]))     # 1,1,2 -> 1,2,1
        out = [tuple(reversed(re_)), tuple(re_[i] for i in apart), tuple(re_[i] for i in reversed(apart))]
    seen, res = {tuple(re_)}, []
    for w in out:
        if w not in seen:
            seen.add(w)
            res.append(list(w))
    return res


def tlc_grid(tier):
    consts = {"NS": "3", "MaxOrder": "4", "XGrid": ("<-", "XGridDef"), "KGrid": ("<-", "KGridDef"),
              "KKGrid": ("<-", "KKGridDef"), "NGrid": ("<-", "NGridDef"), "VGrid": ("<-", "VGridDef")}
    runs = [("main", consts)]
    # a second grid with perfect-square volumes so that fractional exponents are exercised in volume modes
    runs.append(("sqvol", dict(consts, VGrid=("<-", "VGridSq"), XGrid=("<-", "XGridSmall"), MaxOrder="3")))
    if tier == "thorough":
        runs.append(("big_mass", dict(consts, MaxOrder="4", XGrid=("<-", "XGridBig"))))
        runs.append(("ns4", dict(consts, NS="4", XGrid=("<-", "XGridSmall"), NGrid=("<-", "NGridDef"))))
    return runs


def run(tier):
    t0 = time.time()
    quick_tier = tier == "quick"
    v = common.Verdict(PROP)
    recs = []
    states = trans = 0
    cmds = []
    for name, consts in tlc_grid(tier):
        cfg = common.make_cfg("rateprobe_" + name, spec="Spec", constants=consts,
                              invariants=["Identities", "OrderInvariant", "NonNegative", "Emit"])
        r = common.run_tlc("RateProbe", cfg, allow_violation=True, keep_stdout=False)
        if r.violated:
            v.violation("spec:" + r.violated, "TLC refuted %s on RateLaws/RateProbe (%s)" % (r.violated, name), {"tlc_tail": r.stdout[-3000:]})
        recs += r.records
        states += r.distinct
        trans += r.generated
        cmds.append(r.cmd)
    bylaw = {}
    for rec in recs:
        bylaw.setdefault(_lawkey(rec["law"]) + "|%d" % len(rec["pt"]["x"]), (rec["law"], []))[1].append(rec["pt"])
    jobs = []
    n_orders = 0
    for k, (law, pts) in bylaw.items():
        for variant in (0, 1):
            for ch in pool.chunks(pts, 400):
                jobs.append({"law": law, "variant": variant, "pts": ch})
        # variant 2: the law as second reaction after one that cannot fire (every second point in the quick tier)
        for ch in pool.chunks(pts[:: 2 if quick_tier else 1], 400):
            jobs.append({"law": law, "variant": 2, "pts": ch})
        # (parameter sweeps on one object are added below)
        # the same law with its reactants written in other orders (RateProbe.OrderInvariant): reversed and with the
        # copies of a repeated reactant apart (A+B+A); every order of the multiset in the thorough tier
        for j, wr in enumerate(written_orders(law, all_orders=(tier != "quick"))):
            n_orders += 1
            for ch in pool.chunks(pts, 400):
                jobs.append({"law": dict(law, written=wr), "variant": j % 2, "pts": ch})
    # parameter sweeps: laws with the same structure (type, reactants, regulator, proportional species) on one object, ordered
    # so that neighbours share K and differ in n, then share n and differ in k
    groups = {}
    for k, (law, pts) in bylaw.items():
        sk = json.dumps([law["type"], law["re"], law["s1"], law["d"], len(pts[0]["x"])])
        groups.setdefault(sk, []).append((law, pts))
    n_sweeps = 0
    for sk, lst in sorted(groups.items()):
        if len(lst) < 2:
            continue
        lst.sort(key=lambda lp: (f(lp[0]["K"]), f(lp[0]["k"]), f(lp[0]["n"])))
        for ch in pool.chunks(lst, 12):
            n_sweeps += 1
            jobs.append({"law": ch[0][0], "variant": 1, "pts": [], "sweep": [{"law": l, "pts": p[:: 2 if quick_tier else 1]} for l, p in ch]})
    results = pool.run_jobs("c01", "impl_eval", jobs)
    n_eval = 0
    frac_exp = sum(1 for rec in recs if rec["law"]["n"][1] != 1)
    for job, res in zip(jobs, results):
        if "harness_exception" in res:
            raise common.MachineryError("C01 harness failed: %s\n%s" % (res["harness_exception"], res.get("tb", "")))
        if "crash" in res:
            v.violation("crash:%s" % job["law"]["type"], "worker died with status %s" % res["crash"], {"job": {"law": job["law"], "variant": job["variant"]}})
            continue
        n_eval += res["n_eval"]
        for b in res["bad"]:
            lw = b.get("law") or job["law"]
            v.violation(finding_key(lw, b) + (",after-set_params" if b.get("swept") else ""),
                        "%s via %s in %s mode%s: got %r, closed form %r at x=%s V=%s (k=%s K=%s n=%s)" % (
                            lw["type"], b["path"], b["mode"], " on an object re-parameterised with set_params" if b.get("swept") else "",
                            b["got"], b["expected"], b["pt"]["x"], b["pt"]["V"], lw["k"], lw["K"], lw["n"]),
                        {"law": lw, "variant": job["variant"], "bad": b})
    rc = v.finish()
    s = recs[len(recs) // 3]
    cov = {"states": states, "transitions": trans, "traces_validated_against_impl": len(recs),
           "samples": [s], "exhaustive": True, "grid_points": len(recs), "laws": len(bylaw), "laws_in_other_written_orders": n_orders, "parameter_sweeps_on_one_object": n_sweeps,
           "implementation_evaluations": n_eval, "points_with_fractional_exponent": frac_exp,
           "access_paths": ["bare propensity object", "plain interface", "safe interface"], "modes": list(MODES),
           "checker_cmd": " ; ".join(cmds)}
    common.write_evidence(PROP, tier, cov, time.time() - t0, len(v.alarms) + sum(v.known_hit.values()),
                          assumptions=["points are exactly representable rationals; IEEE rounding below 1e-9 relative is out of scope",
                                       "general (expression) propensities are decided by C02 through the same probes"])
    return rc


def replay(path):
    case = json.load(open(path))["case"]
    job = {"law": case["law"], "variant": case["variant"], "pts": [case["bad"]["pt"]]}
    res = pool.run_jobs("c01", "impl_eval", [job], nworkers=1)[0]
    print(json.dumps(res, indent=1))
    if res.get("n_bad"):
        print("VIOLATION property=%s replay=%s" % (PROP, path))
        return 1
    return 0
