"""C17 - copies and pickles of models and results behave like the original.

(M) spec/Lifecycle.tla: Copy(o, pickle | deepcopy) creates an object with the meaning of o and NEW array objects;
    every edit / initialise / simulate action applies to any live object, copies of copies included.  TLC checks
    for every history up to the depth bound: at the moment of copying Sem(copy) = Sem(original) (and the original
    is untouched), afterwards no action on one object changes Sem of another, no two objects share an array; the
    deviation "arrays shared with the copy" must be refuted.  spec/LifecycleTree.tla: Schnitz trees with parent /
    daughter references; the object graph a pickle serialises is closed, mutual and isomorphic to the reachable
    part for every tree and every pickled part; "state tuple without the parent" must be refuted.
(G) histories with Copy are executed on real objects whose START definition covers every propensity type (the
    general one with a rate that uses every expression-node class), every delay type, every rule type and - for
    LineageModel - every volume / division / death rule and event type and three volume splitters; after every
    action EVERY live object is projected and compared with the spec (rates through bare propensities and through
    the C vectors, delay bindings, rule effects, vector sizes, counters); objects with the same meaning are
    simulated from the same seed and must agree bitwise (PairSim), simulations are also compared with a model
    built at once from the spec's definition.  Result objects: every emitted (tree, pickled part) is rebuilt from
    real Schnitz / Lineage / ExperimentalLineage objects, copied both ways and walked in parallel with the original;
    lineages produced by py_SimulateCellLineage on the covering LineageModel, VolumeCellState and
    LineageVolumeCellState objects are round-tripped.
"""
import json
import time

from .. import common, pool
from . import c08
from .c08 import consts, NW

PROP = "C17"
TREE_INVS = ["TreeMutual", "CopyOK", "WholeTree"]


# ------------------------------------------------------------------ implementation side (worker)

def impl_replay(job):
    return c08.impl_replay(job)


class NotCopyable(Exception):
    pass


def _copies(x):
    """pickle round trip, deep copy, and a copy of a copy; a failure names the class and the way of copying"""
    import copy
    import pickle
    out = []
    for kind, fn in (("pickle", lambda o: pickle.loads(pickle.dumps(o))), ("deepcopy", copy.deepcopy),
                     ("pickle-of-pickle", lambda o: pickle.loads(pickle.dumps(pickle.loads(pickle.dumps(o, protocol=2)))))):
        try:
            out.append((kind, fn(x)))
        except Exception as e:  # noqa
            raise NotCopyable("%s:%s|%s of a %s raised %s" % (type(x).__name__, kind, kind, type(x).__name__, repr(e)[:200]))
    return out


def _walk_pairs(pairs, n_expected):
    """walk original and copy object graphs in parallel from the given (original, copy) pairs.
    -> (None, number of objects) or (what is wrong, ..)"""
    import numpy as np
    memo = {}
    todo = list(pairs)
    while todo:
        o, c = todo.pop()
        if id(o) in memo:
            if memo[id(o)][1] is not c:
                return "one original schnitz has two different copies (links do not lead back to the copied object)", len(memo)
            continue
        if c is o:
            return "the copy contains an object of the original", len(memo)
        memo[id(o)] = (o, c)
        for what, a, b in (("time", o.py_get_time(), c.py_get_time()), ("data", o.py_get_data(), c.py_get_data()),
                           ("volume", o.py_get_volume(), c.py_get_volume())):
            if not np.array_equal(np.asarray(a), np.asarray(b)):
                return "%s array differs" % what, len(memo)
            if np.shares_memory(np.asarray(a), np.asarray(b)):
                return "%s array shared with the original" % what, len(memo)
        ol = (o.py_get_parent(),) + tuple(o.py_get_daughters())
        cl = (c.py_get_parent(),) + tuple(c.py_get_daughters())
        for name, x, y in zip(("parent", "daughter1", "daughter2"), ol, cl):
            if (x is None) != (y is None):
                return "%s link %s in the copy" % (name, "lost" if y is None else "appeared"), len(memo)
            if x is not None:
                todo.append((x, y))
    # mutuality inside the copy
    for o, c in memo.values():
        d1, d2 = c.py_get_daughters()
        for d in (d1, d2):
            if d is not None and d.py_get_parent() is not c:
                return "a copied daughter's parent is not the copied mother", len(memo)
        p = c.py_get_parent()
        if p is not None and c not in p.py_get_daughters():
            return "a copied mother does not list the copied daughter", len(memo)
    if n_expected is not None and len(memo) != n_expected:
        return "%d objects in the copied graph, the specification says %d" % (len(memo), n_expected), len(memo)
    return None, len(memo)


def impl_tree(job):
    """one (tree, pickled part) record of LifecycleTree on real Schnitz / Lineage objects"""
    import numpy as np
    from bioscrape.types import Schnitz, Lineage, ExperimentalLineage
    out = []
    for rec in job["recs"]:
        res = {"ok": True}
        try:
            nodes = rec["nodes"]
            S = []
            for i, nd in enumerate(nodes):
                t = np.arange(nd["lo"], nd["hi"] + 1, dtype=float)
                S.append(Schnitz(t, np.array([[100.0 * i + x, 7.0 * i - x] for x in t]), 1.0 + 0.5 * i + 0.1 * t))
            for i, nd in enumerate(nodes):
                if nd["parent"]:
                    S[i].py_set_parent(S[nd["parent"] - 1])
                if nd["d1"]:
                    S[i].py_set_daughters(S[nd["d1"] - 1], S[nd["d2"] - 1])
            what = rec["what"]
            n_graph = sum(1 for g in rec["graph"] if g)
            if what == "schnitz":
                src = S[rec["k"] - 1]
                listed = [src]
            else:
                src = ExperimentalLineage({"A": 0, "B": 1}) if what == "explineage" else Lineage()
                if what == "sublineage":
                    src = S[rec["k"] - 1].get_sub_lineage()
                else:
                    for s in S:
                        src.py_add_schnitz(s)
                listed = [src.py_get_schnitz(j) for j in range(src.py_size())]
                want = sorted(i for i, l in enumerate(rec["listed"]) if l)
                got = sorted(next(i for i, s in enumerate(S) if s is x) for x in listed)
                if got != want:
                    res = {"ok": False, "what": "listed-objects", "detail": "%s lists schnitzes %r, the specification says %r" % (what, got, want)}
            if res["ok"]:
                for kind, cp in _copies(src):
                    if what == "schnitz":
                        clisted = [cp]
                    else:
                        if cp.py_size() != len(listed):
                            res = {"ok": False, "what": "size:" + kind, "detail": "%d schnitzes after %s, %d before" % (cp.py_size(), kind, len(listed))}
                            break
                        clisted = [cp.py_get_schnitz(j) for j in range(cp.py_size())]
                        if what == "explineage" and (cp.py_get_species_index("A"), cp.py_get_species_index("B")) != (0, 1):
                            res = {"ok": False, "what": "species-dictionary:" + kind, "detail": "species indices lost by %s" % kind}
                            break
                    bad, n = _walk_pairs(list(zip(listed, clisted)), n_graph)
                    if bad:
                        res = {"ok": False, "what": "links:" + kind, "detail": "%s of a %s (%d nodes, part %s k=%d): %s" % (kind, what, len(nodes), what, rec["k"], bad)}
                        break
                    # independence: writing into the copy leaves the original alone
                    before = np.array(listed[0].py_get_data(), dtype=float).copy()
                    clisted[0].py_get_data()[...] = -5.0
                    if not np.array_equal(before, listed[0].py_get_data()):
                        res = {"ok": False, "what": "shared-data:" + kind, "detail": "writing into the copy's data changed the original"}
                        break
        except NotCopyable as e:
            key, detail = str(e).split("|", 1)
            res = {"ok": False, "what": "not-copyable:" + key, "detail": detail}
        except BaseException as e:  # noqa
            res = {"ok": False, "what": "exception", "detail": repr(e)[:300]}
        out.append(res)
    return {"out": out}


def _lineage_obs(L):
    import numpy as np
    ss = [L.py_get_schnitz(j) for j in range(L.py_size())]
    idx = {id(s): j for j, s in enumerate(ss)}
    rows = []
    for s in ss:
        p = s.py_get_parent()
        d1, d2 = s.py_get_daughters()
        rows.append({"links": [idx.get(id(x), -2) if x is not None else -1 for x in (p, d1, d2)],
                     "t": np.asarray(s.py_get_time(), dtype=float), "x": np.asarray(s.py_get_data(), dtype=float),
                     "v": np.asarray(s.py_get_volume(), dtype=float)})
    return rows


def _same_lineage(a, b):
    import numpy as np
    if len(a) != len(b):
        return "%d / %d schnitzes" % (len(a), len(b))
    for j, (x, y) in enumerate(zip(a, b)):
        if x["links"] != y["links"]:
            return "schnitz %d links %r / %r" % (j, x["links"], y["links"])
        for k in ("t", "x", "v"):
            if x[k].shape != y[k].shape or not np.array_equal(x[k], y[k], equal_nan=True):
                return "schnitz %d %s differs" % (j, k)
    return None


def _result_obs(r, nr):
    """everything a result object reports through its python getters"""
    import numpy as np
    o = {"cls": type(r).__name__, "rows": np.array(r.py_get_result(), dtype=float).tolist(), "t": [float(x) for x in r.py_get_timepoints()]}
    if hasattr(r, "py_get_volume"):
        o["vol"] = [float(x) for x in r.py_get_volume()]
        o["divided"] = int(r.py_cell_divided())
        fs = r.py_get_final_cell_state()
        o["final_cls"] = type(fs).__name__
        o["final"] = [x.tolist() if isinstance(x, np.ndarray) else repr(x) for x in fs.__getstate__()]
    if hasattr(r, "py_get_delay_queue") and r.py_get_delay_queue() is not None:
        q = r.py_get_delay_queue().py_copy()
        o["queue_time"] = float(q.py_get_next_queue_time())
        pend = []
        for _ in range(len(o["t"])):
            a = np.zeros(nr)
            q.py_get_next_reactions(a)
            q.py_advance_time()
            pend.append(a.tolist())
        o["pending"] = pend
    if hasattr(r, "py_get_divided"):
        o["division_code"], o["death_code"] = int(r.py_get_divided()), int(r.py_get_dead())
    return o


def impl_results(job):
    """lineages, cell states and results produced by the real simulators on the covering LineageModel"""
    import numpy as np
    import bioscrape.random as br
    from bioscrape.simulator import VolumeCellState, py_simulate_model
    from bioscrape.lineage import py_SimulateCellLineage, py_SimulateSingleCell, LineageVolumeCellState
    from ..lifecycle import World
    menu, rec = job["menu"], job["rec"]
    res = {"ok": True, "lineages": 0, "schnitzes": 0, "cellstates": 0, "results": 0}
    try:
        W = World(menu, "lineage")
        lm = W.pre(rec["pre"])
        lm.py_initialize()
        tp = np.linspace(0.0, 5.0, 21)
        for sd in job["seeds"]:
            br.py_seed_random(sd)
            L = py_SimulateCellLineage(tp, Model=lm)
            ref = _lineage_obs(L)
            res["lineages"] += 1
            res["schnitzes"] += len(ref)
            bad = [j for j, r in enumerate(ref) if -2 in r["links"]]
            if bad:
                return {"ok": False, "what": "simulated-lineage-links", "detail": "schnitz %d of a simulated lineage links outside the lineage" % bad[0]}
            for kind, cp in _copies(L):
                d = _same_lineage(ref, _lineage_obs(cp))
                if d:
                    return {"ok": False, "what": "lineage-roundtrip:" + kind, "detail": "seed %d (%d schnitzes): %s" % (sd, len(ref), d)}
                ss = [(L.py_get_schnitz(j), cp.py_get_schnitz(j)) for j in range(L.py_size())]
                d, _ = _walk_pairs(ss, len(ss))
                if d:
                    return {"ok": False, "what": "lineage-links:" + kind, "detail": "seed %d (%d schnitzes): %s" % (sd, len(ref), d)}
            # the copied MODEL produces the same lineage from the same seed (splitters, events, rules)
            for kind, cm in _copies(lm):
                br.py_seed_random(sd)
                d = _same_lineage(ref, _lineage_obs(py_SimulateCellLineage(tp, Model=cm)))
                if d:
                    return {"ok": False, "what": "copied-model-lineage:" + kind, "detail": "seed %d: lineage of the %s differs: %s" % (sd, kind, d)}
            # cell states
            br.py_seed_random(sd)
            r = py_SimulateSingleCell(tp, Model=lm, return_dataframes=False)
            cs = r.py_get_final_cell_state()
            for kind, cc in _copies(cs):
                a, b = cs.__getstate__(), cc.__getstate__()
                same = all((np.array_equal(x, y) if isinstance(x, np.ndarray) else x == y) for x, y in zip(a, b)) and len(a) == len(b)
                if not same or type(cc) is not type(cs):
                    return {"ok": False, "what": "cellstate:LineageVolumeCellState:" + kind, "detail": "%r / %r" % (a, b)}
                if np.shares_memory(cs.py_get_state(), cc.py_get_state()):
                    return {"ok": False, "what": "cellstate-shared:LineageVolumeCellState:" + kind, "detail": "state array shared"}
                res["cellstates"] += 1
            # result objects of every mode (SSAResult, DelaySSAResult, VolumeSSAResult, DelayVolumeSSAResult, SingleCellSSAResult)
            nr = lm.py_get_update_array().shape[1]
            for kw in (dict(stochastic=False), dict(stochastic=True), dict(stochastic=True, delay=True), dict(stochastic=True, volume=1.5),
                       dict(stochastic=True, volume=1.5, delay=True), "single-cell"):
                br.py_seed_random(sd + 11)
                ro = py_SimulateSingleCell(tp, Model=lm, return_dataframes=False) if kw == "single-cell" else py_simulate_model(tp, Model=lm, return_dataframe=False, **kw)
                want = _result_obs(ro, nr)
                for kind, rc in _copies(ro):
                    got = _result_obs(rc, nr)
                    if got != want and not (json.dumps(got) == json.dumps(want)):       # (NaN rows of a failed integration compare unequal)
                        k = next(k for k in want if json.dumps(got.get(k)) != json.dumps(want[k]))
                        return {"ok": False, "what": "result:%s:%s:%s" % (want["cls"], k, kind), "detail": "%s of the %s: %r, original %r" % (k, kind, got.get(k), want[k])}
                    if np.shares_memory(rc.py_get_result(), ro.py_get_result()):
                        return {"ok": False, "what": "result-shared:%s:%s" % (want["cls"], kind), "detail": "result array shared with the copy"}
                    res["results"] = res.get("results", 0) + 1
            vr = py_simulate_model(tp, Model=lm, stochastic=True, volume=1.5, return_dataframe=False)
            vc = vr.py_get_final_cell_state()
            for x in (vc, VolumeCellState(2.5, np.array([1.0, 4.0, 0.0, 2.0]), 1.25), LineageVolumeCellState(v0=1.5, t0=0.5, state=np.array([3.0, 1.0]), volume=2.0, time=1.0, divided=1, dead=-1)):
                for kind, cc in _copies(x):
                    if type(cc) is not type(x) or cc.py_get_time() != x.py_get_time() or cc.py_get_volume() != x.py_get_volume() \
                            or not np.array_equal(cc.py_get_state(), x.py_get_state()):
                        return {"ok": False, "what": "cellstate:%s:%s" % (type(x).__name__, kind),
                                "detail": "time/volume/state %r %r %r -> %r %r %r" % (x.py_get_time(), x.py_get_volume(), x.py_get_state(), cc.py_get_time(), cc.py_get_volume(), cc.py_get_state())}
                    keep = np.array(x.py_get_state(), dtype=float).copy()
                    cc.py_get_state()[...] = -9.0
                    if not np.array_equal(keep, x.py_get_state()):
                        return {"ok": False, "what": "cellstate-shared:%s:%s" % (type(x).__name__, kind), "detail": "writing into the copy's state changed the original"}
                    res["cellstates"] += 1
    except NotCopyable as e:
        key, detail = str(e).split("|", 1)
        return {"ok": False, "what": "not-copyable:" + key, "detail": detail}
    except BaseException as e:  # noqa
        import traceback
        return {"ok": False, "what": "exception", "detail": repr(e)[:300] + " " + traceback.format_exc()[-600:]}
    return res


# ------------------------------------------------------------------ driver

FULL = dict(presp="PreSpAll", prerx="PreRxAll", prerules="PreRulesAll", preset="PreSetAll")
FULL_LIN = dict(fam="lineage", presp="PreSpAll", prerx="PreRxLin", prerules="PreRulesLin", prelin="PreLinAll", preset="PreSetLin")


def gen_runs(tier):
    q = tier == "quick"
    small = dict(copy=True, maxobj=3, maxitf=1, sp="Sp12", par="ParK1", xv="XV1", pv="PV1", seeds="Seeds1", maxrx=10, maxrules=5)
    rnd = dict(copy=True, maxobj=4, maxitf=2, sp="SpAll", xv="XV2", pv="PV2", seeds="Seeds2", maxrx=11, maxrules=6, mode="sim")
    return [
        # exhaustive short histories on the covering objects, uninitialised and initialised
        ("c17_exh_u", consts(hlen=2, rx="RxSmall", rules="RulePar", modes="ModesSmall", **small, **FULL), None, 0),
        ("c17_exh_i", consts(hlen=2, rx="RxSmall", rules="RulePar", modes="ModesSto", preinit=True, **small, **FULL), None, 0),
        # two lineage models that grow and divide at a moderate pace (sources of simulated lineages)
        ("c17_tree_a", consts(hlen=1, rx="None", rules="None", lin="None", modes="ModesCell", **small, **dict(FULL_LIN, prelin="PreLinTreeA", preset="PreSetTree")), None, 0),
        ("c17_tree_b", consts(hlen=1, rx="None", rules="None", lin="None", modes="ModesCell", **small, **dict(FULL_LIN, prelin="PreLinTreeB", preset="PreSetTree")), None, 0),
        ("c17_lin_exh", consts(hlen=2, rx="RxSmall", rules="RuleSp", lin="LinSmall", modes="ModesCell", maxlin=18, preinit=True, **small, **FULL_LIN), None, 0),
        # random long histories: copies of copies, edits on either side, simulations in every mode
        ("c17_sim", consts(hlen=14, rx="RxAll", rules="RuleAll", par="ParC17", modes="ModesPlain", **rnd, **FULL), 60 if q else 1500, 18),
        ("c17_sim_i", consts(hlen=14, rx="RxAll", rules="RuleAll", par="ParC17", modes="ModesPlain", preinit=True, **rnd, **FULL), 40 if q else 1000, 18),
        ("c17_lin_sim", consts(hlen=12, rx="RxLinSmall", rules="RuleAll", lin="LinAll", par="ParC17", modes="ModesLinAll", maxlin=20, **rnd, **FULL_LIN), 60 if q else 1500, 16),
    ]


def mc_runs(tier):
    q = tier == "quick"
    d = 5 if q else 6          # three objects: depth 7 is beyond 10^7 states
    base = dict(mode="mc", copy=True, maxobj=3, maxitf=1, rx="RxOne", rules="RulePar", sp="Sp12", par="ParK1", modes="ModesSto",
                maxrx=1, maxrules=1, presp="PreSp123", preset="PreSetAll")
    return [("mc_copy", consts(hlen=d, **base), None),
            ("mc_copy_lineage", consts(hlen=d - 1, lin="LinSmall", maxlin=1, fam="lineage", **base), None),
            ("dev_shared", consts(hlen=4, CopyDesign="shared", **base), "refuted")]


def run(tier):
    t0 = time.time()
    seed = common.seed()
    v = common.Verdict(PROP)
    menu = c08.get_menu()
    mc = []
    states = trans = 0
    for name, cs, expect in mc_runs(tier):
        r, info = c08.model_check(name, cs, v, expect_refuted=expect)
        mc.append(info)
        if expect is None:
            states += r.distinct
            trans += r.generated
    # result objects: trees
    tn, tl = ("5", "2") if tier == "quick" else ("7", "2")
    tcfg = common.make_cfg("lctree", spec="Spec", constants={"MaxNodes": tn, "MaxLen": tl, "LinkDesign": '"all"'}, invariants=TREE_INVS + ["Emit"])
    tr = common.run_tlc("LifecycleTree", tcfg, workers=NW, allow_violation=True, keep_stdout=False)
    if tr.violated:
        v.violation("spec:" + tr.violated, "TLC refuted %s on LifecycleTree.tla" % tr.violated, {"tlc_tail": tr.stdout[-3000:]})
    dcfg = common.make_cfg("lctree_dev", spec="Spec", constants={"MaxNodes": "3", "MaxLen": "1", "LinkDesign": '"noparent"'}, invariants=TREE_INVS)
    dr = common.run_tlc("LifecycleTree", dcfg, workers=1, allow_violation=True, keep_stdout=False)
    if not dr.violated:
        v.violation("spec:vacuous:noparent", "a state tuple that drops the parent link was not refuted", {"tlc_tail": dr.stdout[-2000:]})
    mc.append({"config": "tree", "distinct": tr.distinct, "generated": tr.generated, "depth": tr.depth, "wall_s": round(tr.wall, 1), "refuted": tr.violated})
    mc.append({"config": "tree_dev_noparent", "distinct": dr.distinct, "generated": dr.generated, "depth": dr.depth, "wall_s": round(dr.wall, 1), "refuted": dr.violated})
    states += tr.distinct
    trans += tr.generated
    # histories
    recs, gen, jobs = [], [], []
    for k, (name, cs, nsim, depth) in enumerate(gen_runs(tier)):
        cfg = common.make_cfg(name, spec="GSpecSim" if nsim else "GSpecExh", constants=cs, invariants=c08.INVS + ["Emit"])
        if nsim:
            r = common.run_tlc_many("LifecycleGen", cfg, 3, nsim, depth, seed * 53 + k)
        else:
            r = common.run_tlc("LifecycleGen", cfg, workers=NW, keep_stdout=False)
        rs = [x for x in r.records if "steps" in x]
        recs += rs
        gen.append({"config": name, "kind": "simulate" if nsim else "exhaustive", "histories": len(rs), "states": r.generated})
        chs = pool.chunks(rs, 6)
        jobs += [{"menu": menu, "recs": ch, "final": bool(nsim) or tier != "quick" or j % 4 == 0} for j, ch in enumerate(chs)]
    results = pool.run_jobs("c17", "impl_replay", jobs, nworkers=NW)
    counters = {}
    old = c08.PROP
    c08.PROP = PROP
    try:
        c08.judge(v, jobs, results, counters)
    finally:
        c08.PROP = old
    # trees on real objects
    trecs = tr.records
    tjobs = [{"recs": ch} for ch in pool.chunks(trecs, 150)]
    tres = pool.run_jobs("c17", "impl_tree", tjobs, nworkers=NW)
    tok = 0
    for job, res in zip(tjobs, tres):
        if "harness_exception" in res:
            raise common.MachineryError("C17 tree harness failed: %s\n%s" % (res["harness_exception"], res.get("tb", "")))
        for k, rec in enumerate(job["recs"]):
            got = {"ok": False, "what": "crash", "detail": "worker died: %s" % res["crash"]} if "crash" in res else res["out"][k]
            if got["ok"]:
                tok += 1
            else:
                v.violation("result-object:%s:%s" % (rec["what"], got["what"]), got["detail"], {"tree": rec, "got": got})
    # results of the real simulators
    rstats = {"lineages": 0, "schnitzes": 0, "cellstates": 0, "results": 0}
    pres = {}
    for x in recs:
        if x["fam"] == "lineage" and x["pre"]["lin"] and len(x["pre"]["lin"]) <= 4:
            pres[json.dumps(x["pre"], sort_keys=True)] = x["pre"]
    if not pres:
        raise common.MachineryError("no lineage start object for the result-object part")
    rjobs = [{"menu": menu, "rec": {"pre": pre}, "seeds": [seed * 100 + 10 * j + i for i in range(3 if tier == "quick" else 10)]}
             for pre in pres.values() for j in range(2)]
    for job, res in zip(rjobs, pool.run_jobs("c17", "impl_results", rjobs, nworkers=4)):
        if "harness_exception" in res:
            raise common.MachineryError("C17 results harness failed: %s\n%s" % (res["harness_exception"], res.get("tb", "")))
        if "crash" in res:
            v.violation("result-object:crash", "worker died: %s" % res["crash"], {"job": {"seeds": job["seeds"], "pre": job["rec"]["pre"]}})
        elif not res["ok"]:
            v.violation("result-object:" + res["what"], res["detail"], {"job": {"seeds": job["seeds"], "pre": job["rec"]["pre"]}, "got": res})
        else:
            for key in rstats:
                rstats[key] += res[key]
    rc = v.finish()
    s = recs[len(recs) // 2] if recs else {"steps": []}
    types = {"propensities": sorted({menu["rx"][t - 1]["ptype"] + ":" + (menu["rx"][t - 1]["cls"] or "GeneralPropensity") for r in recs for t in r["pre"]["rx"]}),
             "delays": sorted({menu["rx"][t - 1]["dtype"] for r in recs for t in r["pre"]["rx"]}),
             "rules": sorted({menu["rules"][u - 1]["rtype"] + "/" + menu["rules"][u - 1]["freq"] for r in recs for u in r["pre"]["rules"]}),
             "lineage_items": sorted({menu["lin"][l - 1]["kind"] + ":" + menu["lin"][l - 1]["ltype"] for r in recs for l in r["pre"]["lin"]})}
    ncopy = sum(1 for r in recs for x in r["steps"] if x["op"] == "copy")
    cov = {"states": states, "transitions": trans, "traces_validated_against_impl": counters.get("ok", 0) + tok,
           "samples": [{"fam": s.get("fam"), "ops": [[x["op"], x["o"], x["n"], x["s"], x["t"], x["out"]] for x in s["steps"]][:14]}],
           "exhaustive": True, "model_checking_runs": mc, "generation": gen, "histories_generated": len(recs),
           "histories_by_family": {"model": counters.get("ok_model", 0), "lineage": counters.get("ok_lineage", 0)},
           "copies_in_histories": ncopy, "pair_simulations_compared": counters.get("pairs", 0),
           "steps_projected_and_compared": counters.get("steps", 0), "simulations_compared_with_fresh_model": counters.get("fresh_cmp", 0),
           "final_mode_checks": counters.get("final_modes", 0), "design_level_drift": counters.get("drift", 0),
           "histories_skipped_by_watchdog": counters.get("skipped", 0),
           "observations_not_judged": counters.get("obs", {}), "types_covered_by_start_objects": types,
           "tree_records_replayed": tok, "simulated_lineages_roundtripped": rstats["lineages"], "simulated_schnitzes": rstats["schnitzes"],
           "cell_states_roundtripped": rstats["cellstates"], "result_objects_roundtripped": rstats["results"],
           "checker_cmd": "tlc LifecycleGen (INVARIANTS %s; PROPERTIES %s; VIEW View); tlc LifecycleTree (INVARIANTS %s)" % (
               " ".join(c08.INVS), " ".join(c08.PROPS), " ".join(TREE_INVS))}
    common.write_evidence(PROP, tier, cov, time.time() - t0, len(v.alarms) + sum(v.known_hit.values()),
                          assumptions=["seeded simulations are compared between objects that the SPEC says have the same meaning, and with a model built at once from the spec's definition; bitwise for stochastic modes, 1e-12 for the integrator",
                                       "lineage rules and events are observed through vector sizes (hook H4), event propensities at the probe and seeded single-cell / lineage simulations; thresholds and splitter modes have no python-visible getter",
                                       "custom partition functions (python callables) are not part of the covering objects",
                                       "shallow copies (copy.copy) are not claimed by the property and not judged",
                                       "what a once-used or stale interface does is not part of the claim (see C08)"])
    return rc


def replay(path):
    blob = json.load(open(path))
    case = blob["case"]
    if "tree" in case:
        res = pool.run_jobs("c17", "impl_tree", [{"recs": [case["tree"]]}], nworkers=1)[0]
        print(json.dumps(res, indent=1)[:3000])
        bad = "crash" in res or not res["out"][0]["ok"]
    elif "job" in case:
        menu = c08.get_menu()
        res = pool.run_jobs("c17", "impl_results", [{"menu": menu, "rec": {"pre": case["job"]["pre"]}, "seeds": case["job"]["seeds"]}], nworkers=1)[0]
        print(json.dumps(res, indent=1)[:3000])
        bad = "crash" in res or not res.get("ok")
    else:
        menu = c08.get_menu()
        res = pool.run_jobs("c17", "impl_replay", [{"menu": menu, "recs": [case["rec"]]}], nworkers=1)[0]
        print(json.dumps(res, indent=1)[:4000])
        bad = "crash" in res or not res["out"][0].get("ok")
    if bad:
        print("VIOLATION property=%s replay=%s" % (PROP, path))
        return 1
    return 0
