"""C05 - stochastic simulation samples the chemical master equation exactly.

Decided as the statement's own "equivalently" clause, made finite:
(M) SelectProbe.tla: for every propensity vector of a grid the selection rule picks reaction r on
    exactly a_r/Lambda of the uniform grid (P1), never a zero-propensity reaction, monotone, and the
    mirrored convention is measure preserving.  Ssa.tla: the loop's holding time is e/Lambda by
    construction (P2) and every reported row is the initial state plus the net columns of exactly
    the events that precede its time (P3, invariant), overshoot draws are discarded (memoryless).
(G) Ssa.tla behaviours (programs built by actions: every law type, orders 0..2 with repeats,
    catalysts, delayed parts, 1..3 reactions, four time grids incl. a non-uniform one, plain/safe)
    are replayed through the scripted uniform_rv stream: the real SSASimulator and py_simulate_model
    must return the spec's rows exactly and consume exactly the scripted draws; one of the four
    measure-preserving conventions must explain ALL behaviours.
(aux, outside the family, assumption A-RNG) bit-exact comparison of the generator with an
    independent reference implementation of MT19937-64.
"""
import json
import math
import time

from .. import common, pool
from ..rat import f
from ..build import build, scale_time

PROP = "C05"
CONVENTIONS = ["time-then-select,u", "time-then-select,1-u", "select-then-time,u", "select-then-time,1-u"]


def draws_for(steps, conv):
    """The uniform stream the code consumes for a behaviour under a convention."""
    d = []
    flip = conv in (1, 3)
    sel_first = conv in (2, 3)
    for st in steps:
        if st["a"] == "absorb":
            continue
        w = math.exp(-f(st["e"]))
        if st["a"] in ("over", "queue", "vstep"):
            d.append(w)
        elif st["a"] == "fire":
            u = f(st["u"])
            u = 1.0 - u if flip else u
            d += [u, w] if sel_first else [w, u]
    return d


def impl_replay(job):
    import numpy as np
    from bioscrape.simulator import ModelCSimInterface, SafeModelCSimInterface, SSASimulator, py_simulate_model
    import bioscrape.random as brandom
    out = []
    for n_rec, rec in enumerate(job["recs"]):
        # every second behaviour in another time unit (build.scale_time): non-dyadic grids, same rows, same draws
        tsc = 5 if n_rec % 2 == 1 else 1
        if tsc != 1:
            rec = dict(rec, prog=scale_time(rec["prog"], tsc))
        tp = np.array([f(t) / tsc for t in rec["tp"]])
        if n_rec % 3 == 2:
            # the same grid handed over as a non-contiguous view (every second element of a longer array, as a column of a
            # table or a slice would be): the requested times are the VALUES of the array
            tp = np.repeat(tp, 2)[::2]
        uniform = len({round(tp[i + 1] - tp[i], 12) for i in range(len(tp) - 1)}) == 1
        res = {"ok": True}
        try:
            m, _ = build(rec["prog"], x0=[[v, 1] for v in rec["x0"]], ns=rec["ns"], via_ctor=job["via"] == 1)
            s2i = m.get_species2index()
            cols = [s2i["S%d" % (i + 1)] for i in range(rec["ns"])]
            want = [[float(v) for v in row] for row in rec["rows"]]
            for conv in job["convs"]:
                draws = draws_for(rec["steps"], conv)
                brandom.py_verif_script(draws + [0.5] * 4)
                if job["via"] == 2 and uniform:
                    df = py_simulate_model(tp, Model=m, stochastic=True, safe=rec["safe"], return_dataframe=False)
                    got = df.py_get_result()
                else:
                    itf = SafeModelCSimInterface(m) if rec["safe"] else ModelCSimInterface(m)
                    if uniform:
                        itf.py_set_dt(float(tp[1] - tp[0]))
                    got = SSASimulator().py_simulate(itf, tp).py_get_result()
                used, _, under = brandom.py_verif_script_status()
                brandom.py_verif_script(None)
                rows = [[float(got[i, c]) for c in cols] for i in range(got.shape[0])]
                if rows != want:
                    k = next((i for i in range(min(len(rows), len(want))) if rows[i] != want[i]), -1)
                    res = {"ok": False, "conv": conv, "what": "rows", "detail": "row %d: got %r expected %r" % (k, rows[k] if k >= 0 else None, want[k] if k >= 0 else None)}
                elif used != len(draws):
                    res = {"ok": False, "conv": conv, "what": "draws", "detail": "consumed %d draws, the behaviour has %d" % (used, len(draws))}
                else:
                    res = {"ok": True, "conv": conv}
                    if not (job["via"] == 2 and uniform):
                        # the same behaviour once more through the SAME interface and simulator objects: a second
                        # simulation starts from the initial condition again and carries nothing over from the first
                        brandom.py_verif_script(draws + [0.5] * 4)
                        sim = SSASimulator()
                        g1 = sim.py_simulate(itf, tp).py_get_result()
                        brandom.py_verif_script(draws + [0.5] * 4)
                        g2 = sim.py_simulate(itf, tp).py_get_result()
                        # ... and a fourth run with OTHER draws through the same simulator object: results are values, a later
                        # run does not alter the rows an earlier run returned
                        # (an ordinary seeded run on a grid with as many points over a 1000 times shorter horizon: it cannot
                        #  run long whatever the network does)
                        brandom.py_verif_script(None)
                        brandom.py_seed_random(4242 + len(draws))
                        sim.py_simulate(itf, tp[0] + (np.array(tp, dtype=float) - tp[0]) * 1e-3)
                        for tag, g in (("second", g1), ("third (same simulator object)", g2)):
                            rows2 = [[float(g[i, c]) for c in cols] for i in range(g.shape[0])]
                            if rows2 != want:
                                k = next((i for i in range(min(len(rows2), len(want))) if rows2[i] != want[i]), -1)
                                res = {"ok": False, "conv": conv, "what": "rows-repeated-run",
                                       "detail": "%s run on the same interface, row %d: got %r expected %r" % (tag, k, rows2[k] if k >= 0 else None, want[k] if k >= 0 else None)}
                                break
                    break
        except BaseException as e:  # noqa
            brandom.py_verif_script(None)
            res = {"ok": False, "what": "exception", "detail": repr(e)[:300]}
        out.append(res)
    return {"out": out}


# ---- independent reference implementation of MT19937-64 (Matsumoto & Nishimura 2004), A-RNG
def mt64_reference(seed, n):
    NN, MM = 312, 156
    MASK = (1 << 64) - 1
    mt = [0] * NN
    mt[0] = seed & MASK
    for i in range(1, NN):
        mt[i] = (6364136223846793005 * (mt[i - 1] ^ (mt[i - 1] >> 62)) + i) & MASK
    out = []
    mti = NN
    UM, LM, A = 0xFFFFFFFF80000000, 0x7FFFFFFF, 0xB5026F5AA96619E9
    for _ in range(n):
        if mti >= NN:
            for i in range(NN):
                x = (mt[i] & UM) | (mt[(i + 1) % NN] & LM)
                mt[i] = mt[(i + MM) % NN] ^ (x >> 1) ^ (A if x & 1 else 0)
            mti = 0
        x = mt[mti]
        mti += 1
        x ^= (x >> 29) & 0x5555555555555555
        x ^= (x << 17) & 0x71D67FFFEDA60000
        x ^= (x << 37) & 0xFFF7EEE000000000
        x ^= x >> 43
        out.append(x & MASK)
    return out


def impl_rng(job):
    import bioscrape.random as brandom
    bad = []
    for seed in job["seeds"]:
        brandom.py_seed_random(seed)
        got = [int(brandom.py_rand_int()) for _ in range(700)]
        ref = mt64_reference(seed, 700)
        if got != ref:
            bad.append({"seed": seed, "what": "py_rand_int differs from MT19937-64 at draw %d" % next(i for i in range(700) if got[i] != ref[i])})
            continue
        brandom.py_seed_random(seed)
        us = [brandom.py_uniform_rv() for _ in range(700)]
        ru = [(x >> 11) * (1.0 / 9007199254740991.0) for x in ref]
        if us != ru:
            bad.append({"seed": seed, "what": "uniform_rv is not (genrand64 >> 11) / (2^53 - 1)"})
        if not all(0.0 <= u <= 1.0 for u in us):
            bad.append({"seed": seed, "what": "uniform_rv outside [0,1]"})
    return {"bad": bad}


def ssa_cfg(name, ns, maxrx, maxside, nt):
    return common.make_cfg(name, spec="Spec",
                           constants={"NS": str(ns), "MaxRx": str(maxrx), "MaxSide": str(maxside), "NT": str(nt),
                                      "Mode": '"sim"', "MaxCount": "1000"},
                           invariants=["Lattice", "NonNegMassAction", "NonNegSafe", "PropsNonNeg", "P3", "EventTimes", "Emit"],
                           properties=["Absorbing", "SafeEnabled"])


def generate(tier, seed):
    n = 4800 if tier == "quick" else 40000
    r1 = common.run_tlc_many("Ssa", ssa_cfg("ssa_sim_a", 2, 3, 2, 6), 8, n, 90, seed, allow_violation=True)
    r2 = common.run_tlc_many("Ssa", ssa_cfg("ssa_sim_b", 3, 3, 3, 5), 8, n // 2, 90, seed + 17, allow_violation=True)
    # networks with 4..6 reactions (an error that needs many reactions, e.g. an unrolled summation, shows only here)
    r3 = common.run_tlc_many("Ssa", ssa_cfg("ssa_sim_c", 3, 6, 2, 5), 8, n // 2, 90, seed + 23, allow_violation=True)
    r2.records += r3.records
    r2.generated += r3.generated
    r2.violated = r2.violated or r3.violated
    return r1, r2


def run(tier):
    t0 = time.time()
    seed = common.seed()
    v = common.Verdict(PROP)
    cfg = common.make_cfg("selectprobe", spec="Spec", constants={"NS": "1", "MaxLen": "3"},
                          invariants=["P1", "NeverZero", "Monotone", "Mirror"])
    rp = common.run_tlc("SelectProbe", cfg, allow_violation=True)
    if rp.violated:
        v.violation("spec:" + rp.violated, "TLC refuted %s on the selection rule" % rp.violated, {"tlc_tail": rp.stdout[-3000:]})
    r1, r2 = generate(tier, seed)
    for r in (r1, r2):
        if r.violated:
            v.violation("spec:" + r.violated, "TLC refuted %s on Ssa.tla" % r.violated, {"tlc_tail": r.stdout[-3000:]})
    recs = r1.records + r2.records
    # first pass under the code's own convention; behaviours that fail are retried under the others
    def do(recs_, convs):
        jobs = [{"recs": ch, "convs": convs, "via": i % 3} for i, ch in enumerate(pool.chunks(recs_, 20))]
        results = pool.run_jobs("c05", "impl_replay", jobs)
        flat = []
        for job, res in zip(jobs, results):
            if "harness_exception" in res:
                raise common.MachineryError("C05 harness failed: %s\n%s" % (res["harness_exception"], res.get("tb", "")))
            if "crash" in res:
                flat += [(rec, {"ok": False, "what": "crash", "detail": "worker died with status %s" % res["crash"]}, job["via"]) for rec in job["recs"]]
            else:
                flat += [(rec, got, job["via"]) for rec, got in zip(job["recs"], res["out"])]
        return flat
    flat = do(recs, [0])
    failed = [x for x in flat if not x[1]["ok"]]
    convention = 0
    if failed and len(failed) > len(flat) // 2:
        for c in (1, 2, 3):
            alt = do(recs, [c])
            if all(x[1]["ok"] for x in alt):
                flat, failed, convention = alt, [], c
                break
    nfire = sum(1 for rec in recs for st in rec["steps"] if st["a"] == "fire")
    for rec, got, via in failed:
        ltypes = "+".join(sorted({rx["law"]["type"] for rx in rec["prog"]["rx"]}))
        v.violation("replay:%s:%s:safe=%s" % (got["what"], ltypes, rec["safe"]), got["detail"], {"rec": rec, "via": via, "got": got})
    rr = pool.run_jobs("c05", "impl_rng", [{"seeds": [s]} for s in [1, 2, 5489, 123456789, 2 ** 63 + 7, seed + 11, 42, 19650218]], nworkers=8)
    rng_bad = [b for r in rr for b in r.get("bad", [{"seed": "?", "what": "rng worker failed: %r" % (r,)}] if "bad" not in r else r["bad"])]
    for b in rng_bad:
        v.violation("rng:%s" % b["what"][:40], b["what"], b)
    rc = v.finish()
    cov = {"states": rp.distinct + r1.generated + r2.generated, "transitions": rp.generated + r1.generated + r2.generated,
           "traces_validated_against_impl": len(flat) - len(failed),
           "samples": [{"prog": recs[5]["prog"], "x0": recs[5]["x0"], "tp": recs[5]["tp"], "steps": recs[5]["steps"][:8], "rows": recs[5]["rows"]}] if len(recs) > 5 else [],
           "propensity_vectors_with_exact_counting": rp.distinct, "behaviours": len(recs), "fire_events_replayed": nfire,
           "convention": CONVENTIONS[convention], "rng_seeds_bit_exact": 8 - len(rng_bad),
           "checker_cmd": rp.cmd + " ; " + r1.cmd}
    common.write_evidence(PROP, tier, cov, time.time() - t0, len(v.alarms) + sum(v.known_hit.values()),
                          assumptions=["A-RNG: uniform_rv() without script is iid U(0,1) (MT19937-64; bit-exact against an independent reference implementation, outside TLA+)",
                                       "A-Gillespie: exponential holding time + proportional selection + memoryless restart => the CME (theorem, not re-proved)",
                                       "an exact sampler that is not a direct method in one of the four conventions would be flagged although the property holds"])
    return rc


def replay(path):
    case = json.load(open(path))["case"]
    res = pool.run_jobs("c05", "impl_replay", [{"recs": [case["rec"]], "convs": [0], "via": case.get("via", 0)}], nworkers=1)[0]
    print(json.dumps(res, indent=1))
    if not res["out"][0]["ok"]:
        print("VIOLATION property=%s replay=%s" % (PROP, path))
        return 1
    return 0
