"""C07 - every simulation mode returns a complete, correctly labelled result.

(M) spec/Dispatch.tla: the entry point as a pc-driven state machine; TLC enumerates the whole
    option lattice (3000 configurations incl. contradictory argument pairs and a one-species model)
    and checks totality, termination and the shape invariants.
(G) every terminal state is replayed against the real py_simulate_model; the real outcome is
    classified result / explicit rejection (raised by the entry point itself) / internal failure
    / crash and compared with the spec's outcome at PROPERTY level (a result of the right shape or
    an explicit rejection); design-level differences are recorded as drift.
"""
import json
import time

from .. import common, pool

PROP = "C07"
NT = 6
DIVROWS = 4
DT = 0.5


def _build_model(kind):
    from bioscrape.types import Model
    if kind == "decay1":
        return Model(species=["X"], reactions=[(["X"], [], "massaction", {"k": 0.2})],
                     initial_condition_dict={"X": 5})
    rxns = [(["A", "B"], ["C"], "massaction", {"k": 0.5}), (["C"], ["A"], "massaction", {"k": 0.3})]
    rules = []
    if kind in ("delays", "both"):
        rxns.append((["A"], [], "massaction", {"k": 0.4}, "fixed", [], ["B"], {"delay": 0.7}))
    if kind in ("rules", "both"):
        rules = [("assignment", {"equation": "B = 2*A"}, "start"),
                 ("assignment", {"equation": "C = A + B + 1"}, "repeat")]
    if kind == "dtrules":
        rules = [("assignment", {"equation": "B = 2*A"}, "dt"),
                 ("assignment", {"equation": "C = A + B + 1"}, "repeat")]
    if kind == "counter":
        m = Model(species=["A", "B", "C"], reactions=rxns, parameters=[("n", 0.0)], initial_condition_dict={"A": 3, "B": 1, "C": 0})
        m.create_rule("assignment", {"equation": "_n = n + 1"}, rule_frequency="repeated")
        m.create_rule("assignment", {"equation": "C = n"}, rule_frequency="repeated")
        return m
    ic = {"A": 0, "B": 0, "C": 0} if kind == "inert" else {"A": 3, "B": 1, "C": 0}
    if kind == "inert":
        rxns.append((["A"], [], "massaction", {"k": 0.4}, "fixed", [], ["B"], {"delay": 0.7}))
    return Model(species=["A", "B", "C"], reactions=rxns, rules=rules, initial_condition_dict=ic)


def impl_run(job):
    import traceback
    import numpy as np
    from bioscrape.types import StochasticTimeThresholdVolume
    from bioscrape.simulator import py_simulate_model, ModelCSimInterface, SafeModelCSimInterface
    import bioscrape.random as brandom
    o = job["opt"]
    brandom.py_seed_random(job.get("seed", 7))
    m = _build_model(o["model"])
    kw = {}
    if o["src"] in ("model", "both"):
        kw["Model"] = m
    if o["src"] in ("iface_plain", "both"):
        kw["Interface"] = ModelCSimInterface(m)
    if o["src"] == "iface_safe":
        kw["Interface"] = SafeModelCSimInterface(m)
    if o.get("edit"):
        # the initial condition is edited after the interface (if any) was built: the call must report the current one
        m.set_species({s: float(x) for s, x in zip(job["species"], job["x0"])})
    vol = {"off": False, "flag": True, "number": 1.5}.get(o["volume"])
    if o["volume"] == "baseobject":
        from bioscrape.types import Volume
        vol = Volume()
        vol.py_set_volume(1.0)
    if o["volume"] in ("object", "dividing"):
        vol = StochasticTimeThresholdVolume(1.25, 2.0, 0.0)
        vol.py_set_volume(1.0)
        if o["volume"] == "dividing":
            vol.py_initialize(np.array(job["x0"], dtype=float), np.zeros(1), 0.0, 1.0)
    delay = {"none": None, "false": False, "true": True}[o["delay"]]
    tp = np.linspace(0, DT * (NT - 1), NT)
    ic_before = dict(m.get_species_dictionary())
    try:
        res = py_simulate_model(tp, stochastic=o["stochastic"], delay=delay, safe=o["safe"], volume=vol,
                                return_dataframe=o["dataframe"], **kw)
    except BaseException as e:  # noqa
        tb = traceback.extract_tb(e.__traceback__)
        inner = tb[-1].name if tb else "?"
        explicit = isinstance(e, (ValueError, TypeError, NotImplementedError)) and inner.split(".")[-1] == "py_simulate_model"
        return {"kind": "rejected" if explicit else "internal", "exc": type(e).__name__, "msg": str(e)[:200], "inner": inner}
    out = {"kind": "result"}
    if o["dataframe"]:
        cols = [c if isinstance(c, str) else int(c) for c in res.columns]
        out["columns"] = cols
        out["nrows"] = int(res.shape[0])
        out["time"] = None if "time" not in res.columns or res["time"].isnull().any() else [float(x) for x in res["time"]]
        out["has_volume"] = "volume" in cols
        n = len(job["species"])
        out["first"] = [float(x) for x in res.iloc[0, :n]]
        out["volume0"] = float(res["volume"].iloc[0]) if "volume" in cols else None
    else:
        r = res.py_get_result()
        out["nrows"] = int(r.shape[0])
        out["ncols"] = int(r.shape[1])
        t = res.py_get_timepoints()
        out["time"] = None if t is None else [float(x) for x in t]
        out["has_volume"] = hasattr(res, "py_get_volume")
        out["first"] = [float(x) for x in r[0, :]]
        if out["has_volume"]:
            vtr = res.py_get_volume()
            out["volume_len"] = int(len(vtr))
            out["volume0"] = float(vtr[0])
            out["divided"] = bool(res.py_cell_divided())
        out["has_queue"] = hasattr(res, "py_get_delay_queue") and res.py_get_delay_queue() is not None
    # a second, plain call on the SAME model object: its first row must again be the initial condition
    # (a mode that advanced the model's own initial state in place shows up here, not in its own result)
    try:
        ic_after = dict(m.get_species_dictionary())
        out["ic_changed"] = {k: (float(ic_before[k]), float(ic_after[k])) for k in ic_before if ic_before[k] != ic_after[k]}
        if o["volume"] not in ("object", "dividing", "baseobject"):
            r2 = py_simulate_model(tp, Model=m, stochastic=True, return_dataframe=False).py_get_result()
            out["second_first"] = [float(x) for x in r2[0, :]]
    except BaseException as e:  # noqa
        out["second_exc"] = repr(e)[:200]
    # the model GROWS after it has been tabulated (a reaction that introduces a new species, rate 0), then the same call again:
    # one column per model species in the model's CURRENT order, never a failure from inside
    if o["dataframe"] and o["src"] == "model" and o["volume"] not in ("object", "dividing", "baseobject") and o.get("edit"):
        try:
            m.create_reaction([job["species"][0]], ["NEWSP"], "massaction", {"k": 0.0})
            want = [n for n, _ in sorted(m.get_species2index().items(), key=lambda kv: kv[1])]
            df3 = py_simulate_model(tp, stochastic=o["stochastic"], delay=delay, safe=o["safe"], volume=vol, return_dataframe=True, Model=m)
            out["grown"] = {"cols": [c if isinstance(c, str) else int(c) for c in df3.columns][:len(want)], "want": want}
        except BaseException as e:  # noqa
            tb = traceback.extract_tb(e.__traceback__)
            out["grown"] = {"exc": "%s raised from %s: %s" % (type(e).__name__, tb[-1].name if tb else "?", str(e)[:160])}
    return out


def judge(rec, got):
    """Returns (verdict, key, what); verdict in ok | drift | violation."""
    o, exp = rec["opt"], rec["out"]
    sig = "sim=%s,vol=%s" % (rec["sim"], rec["vol"])
    if "crash" in got:
        return "violation", "crash:iface=%s,model=%s" % (rec["iface"], o["model"]), "interpreter died with status %s" % got["crash"]
    if got["kind"] == "internal":
        return "violation", "internal:%s:%s" % (got["exc"], sig), "%s raised from %s: %s" % (got["exc"], got["inner"], got["msg"])
    if got["kind"] == "rejected":
        if exp["kind"] == "rejected":
            return "ok", None, None
        return "drift", None, "explicitly rejected where the design returns a result"
    # got a result
    if "grown" in got:
        g = got["grown"]
        if "exc" in g:
            return "violation", "grown-model:internal:" + g["exc"].split(" ")[0], "after a reaction with a new species was added to the tabulated model: " + g["exc"]
        if g["cols"] != g["want"]:
            return "violation", "grown-model:columns", "after a reaction with a new species was added: columns %r, model species %r" % (g["cols"], g["want"])
    if exp["kind"] == "rejected":
        return "violation", "accepted-bad-args:src=" + o["src"], "contradictory Model/Interface arguments produced a result"
    n = len(rec["species"])
    tp = [DT * i for i in range(NT)]
    if got["nrows"] != exp["nrows"]:
        return "violation", "shape:nrows:" + sig, "%d rows, expected %d" % (got["nrows"], exp["nrows"])
    if got["time"] is None:
        return "violation", "shape:no-time-axis:sim=" + rec["sim"], "result carries no time axis"
    if got["time"] != tp[:exp["taxis"]]:
        return "violation", "shape:time-axis:" + sig, "time axis %r != requested %r" % (got["time"], tp[:exp["taxis"]])
    if exp["volcol"] == "yes" and not got["has_volume"]:
        return "violation", "shape:volume-missing:" + sig, "volume simulation without a volume trace"
    if exp["volcol"] == "no" and got["has_volume"]:
        return "violation", "shape:volume-extra:" + sig, "volume trace although no volume simulator ran"
    if o["dataframe"]:
        cols = got["columns"]
        want = list(rec["species"]) if exp["labelled"] else list(range(n))
        if cols[:n] != want:
            return "violation", "shape:columns:labelled=%s" % exp["labelled"], "columns %r, expected to start with %r" % (cols, want)
        extra = set(cols[n:])
        if extra - {"time", "volume"}:
            return "violation", "shape:columns-extra", "unexpected columns %r" % (cols,)
    else:
        if got["ncols"] != n:
            return "violation", "shape:ncols:" + sig, "%d columns for %d species" % (got["ncols"], n)
        if got["has_volume"] and got["volume_len"] != got["nrows"]:
            return "violation", "shape:volume-length:" + sig, "volume trace length %d != rows %d" % (got["volume_len"], got["nrows"])
        if got["has_volume"] and got.get("divided") != exp["divided"]:
            return "violation", "shape:divided-flag:" + sig, "divided flag %r, expected %r" % (got.get("divided"), exp["divided"])
    if got["has_volume"] and got.get("volume0") is not None:
        v0 = {"unit": 1.0, "const": 1.5, "object": 1.0, "dividing": 1.0}.get(rec["vol"])
        if v0 is not None and abs(got["volume0"] - v0) > 1e-12:
            return "violation", "shape:volume0:" + sig, "initial volume %r, expected %r" % (got["volume0"], v0)
    if got.get("ic_changed"):
        return "violation", "model-changed-by-simulation:" + sig, "the model's initial condition changed during the call: %r" % (got["ic_changed"],)
    # model "counter": its rule assigns a parameter from itself, so the model's parameter legitimately differs after a
    # simulation (C08 sets such models aside); the second call is made, its first row is not compared
    if "second_first" in got and o["model"] != "counter" and [float(x) for x in exp["first"]] != got["second_first"]:
        return "violation", "second-call-first-row:" + sig, "a second simulation of the same model starts at %r, the initial condition is %r" % (got["second_first"], exp["first"])
    if [float(x) for x in exp["first"]] != got["first"]:
        return "violation", "first-row:model=%s,sim=%s" % (o["model"], rec["sim"]), "first row %r, expected %r" % (got["first"], exp["first"])
    return "ok", None, None


def run(tier):
    t0 = time.time()
    v = common.Verdict(PROP)
    cfg = common.make_cfg("dispatch", spec="Spec", constants={"NT": str(NT), "DivRows": str(DIVROWS)},
                          invariants=["Total", "Shape", "RejectOnlyBadArgs", "FirstRowRule", "Emit"],
                          properties=["Terminates"], deadlock=True)
    r = common.run_tlc("Dispatch", cfg, workers=1, allow_violation=True, keep_stdout=False)
    if r.violated:
        v.violation("spec:" + r.violated, "TLC refuted %s on Dispatch.tla" % r.violated, {"tlc_tail": r.stdout[-3000:]})
    recs = r.records
    if len(recs) < 3600:
        raise common.MachineryError("expected 3600 configurations from TLC, got %d" % len(recs))
    seeds = [common.seed()] if tier == "quick" else [common.seed() + k for k in range(5)]
    jobs = [dict(rec, seed=s) for rec in recs for s in seeds]
    results = pool.run_jobs("c07", "impl_run", jobs)
    ok = drift = 0
    outcomes = {}
    for job, got in zip(jobs, results):
        if "harness_exception" in got:
            raise common.MachineryError("C07 harness failed: %s\n%s" % (got["harness_exception"], got.get("tb", "")))
        verdict, key, what = judge(job, got)
        outcomes[got.get("kind", "crash")] = outcomes.get(got.get("kind", "crash"), 0) + 1
        if verdict == "ok":
            ok += 1
        elif verdict == "drift":
            drift += 1
        else:
            v.violation(key, what, {"job": job, "got": got})
    rc = v.finish()
    s = recs[1234]
    cov = {"states": r.distinct, "transitions": r.generated, "traces_validated_against_impl": ok + drift,
           "samples": [{"opt": s["opt"], "sim": s["sim"], "expected": s["out"]}],
           "exhaustive": True, "configurations": len(recs), "replays": len(jobs), "real_outcomes": outcomes,
           "design_level_drift": drift, "known_finding_cases": sum(v.known_hit.values()),
           "checker_cmd": r.cmd}
    common.write_evidence(PROP, tier, cov, time.time() - t0, len(v.alarms) + sum(v.known_hit.values()),
                          assumptions=["an explicit rejection is a ValueError/TypeError/NotImplementedError whose innermost frame is py_simulate_model",
                                       "rows after the first are not compared here (C04-C06, C09-C11 do that)"])
    return rc


def replay(path):
    case = json.load(open(path))["case"]
    got = pool.run_jobs("c07", "impl_run", [case["job"]], nworkers=1)[0]
    verdict, key, what = judge(case["job"], got)
    print(json.dumps({"got": got, "verdict": verdict, "key": key, "what": what}, indent=1))
    if verdict == "violation":
        print("VIOLATION property=%s replay=%s" % (PROP, path))
        return 1
    return 0
