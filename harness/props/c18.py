"""C18 - reported Jacobians and parameter sensitivities match analytic derivatives.

(M) spec/Sens.tla (+ Expr): analytic Jacobian / sensitivities of the rate equations taken three ways that
    TLC proves equal on every generated model (symbolic derivative Expr!D, Taylor jets of an independent
    power-series arithmetic, closed forms of the built-in laws);  spec/SensStencil.tla: the four
    difference schemes applied literally to every monomial of degree <= 4 on a rational grid with
    h in {1/4, 1/10} return exactly the finite Taylor sum SUM_m StencilCoef(m) c_m h^(m-1);
    spec/SensZj.tla: the perturb -> evaluate -> restore sequence of compute_Zj on the shared parameter
    array leaves the array as it was at the end of every history and evaluates at the right points.
(G) spec/SensGen.tla emits networks (mass action of order 0..3 with repeats, four Hill laws, general
    rational / exponential / logarithmic / time-dependent rates) at rational interior states with the exact
    Jacobian, the exact sensitivity to every parameter and the Taylor coefficients of every entry; the
    real py_get_jacobian / py_get_sensitivity_to_parameter are called for four schemes x every parameter
    name and must agree with the analytic value within the scheme's truncation bound (x4) + 1e-9, with the
    right orientation, and get_parameter_dictionary() must be identical before and after.
"""
import concurrent.futures as cf
import json
import math
import os
import time

from .. import common, pool
from ..rat import f
from . import c02

PROP = "C18"
H = 0.01          # analysis.py fixes dx = 0.01


def _nw():
    return max(2, int(os.environ.get("VERIF_WORKERS", common.NCPU)))


def sv(x):
    return c02.sv_float(x)[0]


# --------------------------------------------------------------------------- model construction (worker)

def names_of(rec, variant):
    ns = rec["ns"]
    sp = ["X%d" % i for i in range(1, ns + 1)] if variant % 2 == 0 else ["B_%d" % i for i in range(1, ns + 1)]
    par = ["%s%d" % (r if variant % 2 == 0 else r + "_", q + 1) for q, r in enumerate(rec["roles"])]
    return sp, par


def build_model(rec, variant):
    from bioscrape.types import Model
    sp, par = names_of(rec, variant)
    order = list(sp) if variant < 2 else list(reversed(sp))      # declaration order != spec order
    rxs = []
    for rx in rec["rx"]:
        re_ = [sp[s - 1] for s in rx["re"]]
        pr = [sp[s - 1] for s in rx["pr"]]
        t = rx["type"]
        if t == "massaction":
            rxs.append((re_, pr, t, {"k": par[rx["ki"] - 1]}))
        elif t == "general":
            rate = c02.render(rx["e"], {"sp": sp, "par": par}, c02.STYLES[variant % 3], False)
            rxs.append((re_, pr, t, {"rate": rate}))
        else:
            d = {"k": par[rx["ki"] - 1], "K": par[rx["Ki"] - 1], "n": par[rx["ni"] - 1], "s1": sp[rx["s1"] - 1]}
            if t.startswith("proportional"):
                d["d"] = sp[rx["d"] - 1]
            rxs.append((re_, pr, t, d))
    m = Model(species=order, reactions=rxs, parameters=[(n, f(v)) for n, v in zip(par, rec["p"])],
              initial_condition_dict={n: f(v) for n, v in zip(sp, rec["x"])})
    return m, sp, par


def impl_eval(job):
    import warnings
    import numpy as np
    from bioscrape.analysis import py_get_jacobian, py_get_sensitivity_to_parameter
    warnings.simplefilter("ignore")
    out = []
    for rec in job["recs"]:
        r = {}
        try:
            m, sp, par = build_model(rec, rec["variant"])
            s2i = m.get_species2index()
            ns = rec["ns"]
            state = np.zeros(ns)
            for n, v in zip(sp, rec["x"]):
                state[s2i[n]] = f(v)
            idx = [s2i[n] for n in sp]
            t = f(rec["t"])
            r["J"], r["Z"], r["restore"] = {}, {}, []
            r["param_names"] = sorted(m.get_parameter_dictionary().keys())
            if rec["variant"] == 2:
                # parameter values with many decimals (relative change 2^-40: far below every tolerance of the comparison with
                # the analytic derivative) - "leaves the model's parameter values as they were" is exact
                m.set_params({k: float(v) * (1.0 + 2.0 ** -40) for k, v in m.get_parameter_dictionary().items()})
            if rec["variant"] % 2 == 1:
                # history (SensZj.NextCall): the same model was analysed before at OTHER parameter values, then
                # re-parameterised to the record's; every judged call must differentiate at the current values
                want = {k: float(v) for k, v in m.get_parameter_dictionary().items()}
                try:
                    m.set_params({k: 1.5 * v + 0.25 for k, v in want.items()})
                    py_get_jacobian(m, state.copy(), method="central_difference", time=t)
                    py_get_sensitivity_to_parameter(m, state.copy(), par[0], method="central_difference", time=t)
                except Exception:  # noqa  (the warm-up point may lie outside a law's domain; it is not judged)
                    pass
                m.set_params(want)
                r["prehistory"] = True
            for sc in rec["sc"]:
                meth = sc["name"]
                before = {k: float(v) for k, v in m.get_parameter_dictionary().items()}
                J = py_get_jacobian(m, state.copy(), method=meth, time=t)
                after = {k: float(v) for k, v in m.get_parameter_dictionary().items()}
                if before != after:
                    r["restore"].append({"call": "jacobian", "method": meth, "before": before, "after": after})
                J = np.array(J, dtype=float)
                r["J"][meth] = [[float(J[idx[i], idx[j]]) for j in range(ns)] for i in range(ns)]
                r["Z"][meth] = []
                for q, pn in enumerate(par):
                    before = {k: float(v) for k, v in m.get_parameter_dictionary().items()}
                    Z = np.array(py_get_sensitivity_to_parameter(m, state.copy(), pn, method=meth, time=t), dtype=float).reshape(-1)
                    after = {k: float(v) for k, v in m.get_parameter_dictionary().items()}
                    if before != after:
                        r["restore"].append({"call": "sensitivity", "param": pn, "role": rec["roles"][q], "method": meth,
                                             "before": before, "after": after})
                    r["Z"][meth].append([float(Z[idx[i]]) for i in range(ns)])
        except Exception as e:  # noqa
            import traceback
            r = {"exc": "%s: %s" % (type(e).__name__, str(e)[:200]), "tb": traceback.format_exc()[-800:]}
        out.append(r)
    return {"out": out}


# --------------------------------------------------------------------------- judging

def truncation(coefs, tay, exact_from=2):
    """4 x SUM_{m>=2} |StencilCoef(m) c_m| h^(m-1): the scheme's truncation bound from the next Taylor terms,
    and the signed predicted deviation (design level)"""
    bound = pred = 0.0
    for m in range(2, len(tay)):
        term = f(coefs[m - 1]) * tay[m] * H ** (m - 1)
        bound += abs(term)
        pred += term
    return 4.0 * bound, pred


def judge(rec, got):
    """-> (list of (key, text), stats)"""
    bad = []
    stats = {"entries": 0, "max_ratio": 0.0, "sharp_dev": 0.0}
    if "exc" in got:
        return [("exception:%s" % got["exc"].split(":")[0], "analysis raised %s" % got["exc"])], stats
    ns = rec["ns"]
    types = "+".join(sorted({rx["type"] for rx in rec["rx"]}))
    want_names = sorted(names_of(rec, rec["variant"])[1])
    if got["param_names"] != want_names:
        bad.append(("parameter-names", "model has parameters %s, program has %s" % (got["param_names"], want_names)))
    for rs in got["restore"]:
        bad.append(("parameters-not-restored:%s:%s" % (rs["call"], rs["method"]),
                    "get_parameter_dictionary() changed across %s (%s): %s -> %s" % (rs["call"], rs.get("param", ""), rs["before"], rs["after"])))
    fscale = [sum(abs(rx["net"][i]) * abs(sv(rx["rate"])) for rx in rec["rx"]) for i in range(ns)]
    for sc in rec["sc"]:
        meth = sc["name"]
        Jg = got["J"][meth]
        transposed_fits = True
        wrong = []
        for i in range(ns):
            for j in range(ns):
                an = sv(rec["J"][i][j])
                tay = [sv(c) for c in rec["Jc"][i][j]]
                bound, pred = truncation(sc["coef"], tay)
                tol = bound + 1e-9 + 1e-11 * (1 + fscale[i])
                dev = abs(Jg[i][j] - an)
                stats["entries"] += 1
                stats["max_ratio"] = max(stats["max_ratio"], dev / tol)
                stats["sharp_dev"] = max(stats["sharp_dev"], abs(Jg[i][j] - an - pred))
                if not dev <= tol:
                    wrong.append((i, j, Jg[i][j], an, tol))
                if not abs(Jg[j][i] - an) <= tol:
                    transposed_fits = False
        if wrong:
            i, j, g, an, tol = wrong[0]
            kind = "jacobian-transposed" if transposed_fits else "jacobian"
            bad.append(("%s:%s" % (kind, meth), "J[%d][%d] (d rate eq. of species %d / d species %d) = %r, analytic %r, allowed deviation %.3g; laws %s, x=%s p=%s" % (
                i, j, i + 1, j + 1, g, an, tol, types, rec["x"], rec["p"])))
        for q in range(rec["np"]):
            for i in range(ns):
                an = sv(rec["Z"][q][i])
                tay = [sv(c) for c in rec["Zc"][q][i]]
                bound, pred = truncation(sc["coef"], tay)
                tol = bound + 1e-9 + 1e-11 * (1 + fscale[i])
                g = got["Z"][meth][q][i]
                dev = abs(g - an)
                stats["entries"] += 1
                stats["max_ratio"] = max(stats["max_ratio"], dev / tol)
                if rec["roles"][q] != "n":
                    stats["sharp_dev"] = max(stats["sharp_dev"], abs(g - an - pred))
                if not dev <= tol:
                    bad.append(("sensitivity:%s:role=%s" % (meth, rec["roles"][q]),
                                "d(rate eq. of species %d)/d(parameter %d, role %s) = %r, analytic %r, allowed deviation %.3g; laws %s, x=%s p=%s" % (
                                    i + 1, q + 1, rec["roles"][q], g, an, tol, types, rec["x"], rec["p"])))
                    break
    return bad, stats


# --------------------------------------------------------------------------- the check

def run(tier):
    t0 = time.time()
    v = common.Verdict(PROP)
    seed = common.seed()
    quick = tier == "quick"
    cfg_st = common.make_cfg("sens_stencil", spec="Spec", invariants=["StencilAlgebra", "JetAgrees", "Orders"])
    zj_invs = ["Restored", "RestoredBetweenStates", "EvalPoints", "EvalCount"]
    cfg_zj = [common.make_cfg("sens_zj%d" % k, spec="Spec", constants={"NPar": "2", "NState": "2", "Method": str(k), "MaxCalls": "2", "Design": '"fresh"'},
                              invariants=zj_invs) for k in (1, 2, 3, 4)]
    # deviation: the analysis object (and its parameter snapshot) survives from the first call: must be refuted
    cfg_zj_dev = common.make_cfg("sens_zj_cached", spec="Spec", constants={"NPar": "2", "NState": "1", "Method": "2", "MaxCalls": "2", "Design": '"cached"'},
                                 invariants=zj_invs)
    cfg_gen = common.make_cfg("sens_gen", spec="Spec", constants={"NS": "3", "MaxRx": "3", "Mode": '"sim"'},
                              invariants=["ThreeRoutes", "StencilExact", "Emit"])
    cfg_gen2 = common.make_cfg("sens_gen2", spec="Spec", constants={"NS": "2", "MaxRx": "2", "Mode": '"sim"'},
                               invariants=["ThreeRoutes", "StencilExact", "Emit"])
    ntr = 480 if quick else 6000
    nproc = max(2, min(8, _nw() - 2))
    with cf.ThreadPoolExecutor(max_workers=4) as ex:
        fs = ex.submit(common.run_tlc, "SensStencil", cfg_st, workers=1, allow_violation=True, keep_stdout=False)
        fz = [ex.submit(common.run_tlc, "SensZj", c, workers=1, allow_violation=True, keep_stdout=False) for c in cfg_zj]
        fg = ex.submit(common.run_tlc_many, "SensGen", cfg_gen, nproc, ntr, 10, seed, allow_violation=True)
        fg2 = ex.submit(common.run_tlc_many, "SensGen", cfg_gen2, 2, ntr // 3, 10, seed + 17, allow_violation=True)
        fzd = ex.submit(common.run_tlc, "SensZj", cfg_zj_dev, workers=1, allow_violation=True, keep_stdout=False)
        rs, rz, rg, rg2, rzd = fs.result(), [x.result() for x in fz], fg.result(), fg2.result(), fzd.result()
    if not rzd.violated:
        v.violation("spec:vacuous:cached-snapshot", "a parameter snapshot kept across re-parameterisation was not refuted", {"tlc_tail": rzd.stdout[-2000:]})
    for nm, r in [("SensStencil", rs)] + [("SensZj method %d" % (k + 1), x) for k, x in enumerate(rz)] + [("SensGen", rg), ("SensGen(2 species)", rg2)]:
        if r.violated:
            v.violation("spec:%s:%s" % (nm.split()[0], r.violated), "TLC refuted %s on %s" % (r.violated, nm), {"tlc_tail": r.stdout[-3000:]})
    t_tlc = time.time() - t0
    recs = rg.records + rg2.records
    for i, rec in enumerate(recs):
        rec["variant"] = (i + seed) % 4
    jobs = [{"recs": ch} for ch in pool.chunks(recs, 8)]
    results = pool.run_jobs("c18", "impl_eval", jobs, nworkers=_nw())
    failing = {}
    entries = 0
    max_ratio = sharp = 0.0
    ncalls = 0
    ok_models = 0
    for job, res in zip(jobs, results):
        if "harness_exception" in res:
            raise common.MachineryError("C18 harness failed: %s\n%s" % (res["harness_exception"], res.get("tb", "")))
        if "crash" in res:
            v.violation("crash", "worker died with status %s in the sensitivity analysis" % res["crash"], {"recs": job["recs"][:2]})
            continue
        for rec, got in zip(job["recs"], res["out"]):
            bad, st = judge(rec, got)
            entries += st["entries"]
            max_ratio = max(max_ratio, st["max_ratio"])
            sharp = max(sharp, st["sharp_dev"])
            ncalls += 4 * (1 + rec["np"])
            if not bad:
                ok_models += 1
            size = len(rec["rx"]) * 10 + rec["np"]
            for key, text in bad:
                cur = failing.setdefault(key, {"n": 0, "size": 10 ** 9})
                cur["n"] += 1
                if size < cur["size"]:
                    cur.update(size=size, text=text, rec=rec, got=got)
    for key, fl in sorted(failing.items()):
        v.violation(key, "%s [%d models; smallest shown]" % (fl["text"], fl["n"]), {"rec": fl["rec"], "got": fl["got"]})
    rc = v.finish()
    types = {}
    for rec in recs:
        for rx in rec["rx"]:
            types[rx["type"]] = types.get(rx["type"], 0) + 1
    allr = [rs] + rz + [rg, rg2]
    smp = recs[len(recs) // 2] if recs else None
    cov = {"states": sum(r.distinct for r in allr), "transitions": sum(r.generated for r in allr),
           "traces_validated_against_impl": len(recs),
           "samples": [{"reactions": [{k: rx[k] for k in ("type", "re", "pr", "net")} for rx in smp["rx"]], "x": smp["x"], "p": smp["p"],
                        "roles": smp["roles"], "J": smp["J"]}] if smp else [{}],
           "exhaustive": False, "stencil_points_model_checked": rs.distinct, "restore_histories_states": sum(x.distinct for x in rz),
           "models": len(recs), "models_in_agreement": ok_models, "reactions_by_type": types,
           "analysis_calls": ncalls, "entries_compared": entries, "schemes": [s for s in ("fourth_order_central_difference", "central_difference", "forward_difference", "backward_difference")],
           "max_deviation_over_allowed": round(max_ratio, 4), "max_deviation_from_predicted_stencil_value": sharp,
           "tlc_wall_s": round(t_tlc, 1), "checker_cmd": " ; ".join([rs.cmd, rz[0].cmd, rg.cmd])}
    common.write_evidence(PROP, tier, cov, time.time() - t0, len(v.alarms) + sum(v.known_hit.values()),
                          assumptions=["A-FD: the allowed deviation of a scheme is 4 x the sum of its next Taylor terms (orders <= 5, exact rationals from the spec) at h = 0.01 plus 1e-9 (results are rounded to 10 decimals); exact for polynomial rates",
                                       "for the Hill exponent n the Taylor terms are bounded by |k d| L^m / m! with L = max(r, 1/r) - 1 >= |ln r| and the derivatives of the logistic function bounded by 1",
                                       "models whose exact numbers leave the 32-bit-safe range of TLC are not generated",
                                       "powers of h = 1/100 are applied in floating point by the harness (they do not fit TLC integers); the stencil identities themselves are model-checked with h in {1/4, 1/10}"])
    return rc


def replay(path):
    case = json.load(open(path))["case"]
    if "rec" not in case:
        print(json.dumps(case, indent=1)[:3000])
        return 1
    rec = case["rec"]
    res = pool.run_jobs("c18", "impl_eval", [{"recs": [rec]}], nworkers=1)[0]
    bad, st = judge(rec, res["out"][0])
    print(json.dumps({"failing": bad, "stats": st}, indent=1))
    if bad:
        print("VIOLATION property=%s replay=%s" % (PROP, path))
        return 1
    return 0
