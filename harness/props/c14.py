"""C14 - exported kinetic laws equal the model's own rate laws.

(M) spec/Sbml.tla + SbmlGen.tla: Export writes, for every reaction, a kinetic-law tree; TLC checks on the
    exhaustive one-reaction family (six law types, orders 0..4, numeric and named parameters) and on random
    models that EvalKL(doc, r, x) = Det_r(x) in the deterministic and = Sto_r(x) in the stochastic export at
    every probe state, that the identifiers of the law are species or global parameters of the document,
    and that the document stoichiometries are the multiplicities.
(G) every model is built through the public API and written (deterministic and stochastic export); the file
    is parsed with libsbml and each kinetic-law ASTNode is evaluated as PLAIN SBML mathematics over the
    document's species and parameters (sbmlmodel.eval_ast, the trusted base; annotations are ignored;
    an identifier the document does not define is a failure) at the spec's probe states - rational states
    for the deterministic, non-negative integer states for the stochastic export - and compared with the
    spec's exact Det / Sto values (RateLaws.tla); reactant / product stoichiometries are compared with the
    multiplicities.
"""
import json
import os
import time

from .. import common, pool

PROP = "C14"
W = int(os.environ.get("VERIF_WORKERS", str(common.NCPU)))


def _one(rec, variant):
    import shutil
    import tempfile
    import libsbml
    from ..sbmlmodel import build_model, eval_ast, ast_ids, UndefinedId
    from ..rat import f, close
    from ..build import sname
    ns, mr = rec["ns"], rec["m"]
    from .. import build as _build
    _build.SNAME_ALT = (variant == 1)      # half of the exports: species S, S2, S3 (one name inside the others)
    names = [sname(i + 1) for i in range(ns)]
    rxs = mr["prog"]["rx"]
    bad, n = [], 0
    tmp = tempfile.mkdtemp(prefix="verif_c14_")
    try:
        try:
            m = build_model(mr, ns, variant, suffix_names=(variant == 1))
        except BaseException as e:  # noqa
            return {"bad": [["build-exception", type(e).__name__, "-", repr(e)[:300]]], "n": 0}
        for st in (False, True):
            mode = "stochastic" if st else "deterministic"
            path = os.path.join(tmp, "k%d.xml" % st)
            try:
                m.write_sbml_model(path, stochastic_model=st)
            except BaseException as e:  # noqa
                bad.append(["write-exception", mode, "-", repr(e)[:300]])
                continue
            d = libsbml.readSBML(path)
            mod = d.getModel()
            if d.getNumErrors() > 0 or mod is None:
                bad.append(["unreadable", mode, "-", d.getErrorLog().toString()[:300]])
                continue
            species = [s.getId() for s in mod.getListOfSpecies()]
            glob = {p.getId(): p.getValue() for p in mod.getListOfParameters()}
            # every identifier of the document is defined once (SBML ids share one namespace)
            all_ids = [e.getId() for lst in (mod.getListOfCompartments(), mod.getListOfSpecies(), mod.getListOfParameters(), mod.getListOfReactions())
                       for e in lst if e.isSetId()]
            dup = {i for i in all_ids if all_ids.count(i) > 1}
            if mod.getNumReactions() != len(rxs):
                bad.append(["reaction-count", mode, "-", "%d reactions written for %d" % (mod.getNumReactions(), len(rxs))])
                continue
            states = rec["XS"] if st else [p["x"] for p in rec["P"]]
            expv = rec["klsto"] if st else rec["kldet"]
            for r in range(len(rxs)):
                lt = rxs[r]["law"]["type"]
                rn = mod.getReaction(r)
                for side, lst, want in (("reactant", rn.getListOfReactants(), rec["restoich"][r]), ("product", rn.getListOfProducts(), rec["prstoich"][r])):
                    got, refs = {}, []
                    for sr in lst:
                        refs.append(sr.getSpecies())
                        got[sr.getSpecies()] = got.get(sr.getSpecies(), 0) + sr.getStoichiometry()
                    vec = [got.get(s, 0) for s in names]
                    if vec != [float(w) for w in want] or len(refs) != len(set(refs)) or set(refs) - set(names):
                        bad.append(["stoichiometry", lt, mode, "reaction %d %s stoichiometries %r (references %r), multiplicities are %r" % (r, side, vec, refs, want)])
                kl = rn.getKineticLaw()
                math = kl.getMath() if kl is not None else None
                if math is None:
                    bad.append(["kinetic-law", lt, mode, "reaction %d has no kinetic law" % r])
                    continue
                loc = {lp.getId(): lp.getValue() for lp in kl.getListOfLocalParameters()}
                ids = ast_ids(math)
                undefined = sorted(i for i in ids if i not in species and i not in glob and i not in loc)
                formula = libsbml.formulaToL3String(math)
                if undefined:
                    bad.append(["kinetic-law", lt, mode, "reaction %d: kinetic law '%s' refers to %r, which the document does not define" % (r, formula, undefined)])
                    continue
                ambiguous = sorted(i for i in ids if i in dup)
                if ambiguous:
                    bad.append(["kinetic-law", lt, mode, "reaction %d: kinetic law '%s' refers to %r, which the document defines more than once (%s)" % (
                        r, formula, ambiguous, ", ".join(sorted(type(e).__name__ for lst in (mod.getListOfCompartments(), mod.getListOfSpecies(), mod.getListOfParameters(), mod.getListOfReactions()) for e in lst if e.getId() == ambiguous[0])))])
                    continue
                for i, xx in enumerate(states):
                    env = dict(glob)
                    env.update(loc)
                    for k, s in enumerate(names):
                        env[s] = f(xx[k])
                    n += 1
                    try:
                        val = eval_ast(math, env)
                    except (UndefinedId, ValueError, ZeroDivisionError, OverflowError) as e:
                        bad.append(["kinetic-law", lt, mode, "reaction %d: kinetic law '%s' cannot be evaluated: %r" % (r, formula, e)])
                        break
                    if not close(float(val), f(expv[r][i])):
                        bad.append(["kinetic-law", lt, mode, "reaction %d: kinetic law '%s' = %r at %s, the model's %s rate is %r" % (
                            r, formula, float(val), {s: f(xx[k]) for k, s in enumerate(names)}, mode, f(expv[r][i]))])
                        break
    finally:
        _build.SNAME_ALT = False
        shutil.rmtree(tmp, ignore_errors=True)
    return {"bad": bad[:30], "n": n}


def impl_kl(job):
    return {"out": [_one(rec, job["variant"]) for rec in job["recs"]]}


def finding_key(b):
    if b[0] == "kinetic-law" and b[1] in ("hillpositive", "hillnegative", "proportionalhillpositive", "proportionalhillnegative"):
        return "hill-kinetic-law:%s" % b[1]
    return ":".join(x for x in b[:3] if x != "-")


def tlc_runs(tier):
    inv = ["KinLaws", "Emit"]
    runs = []
    cfg = common.make_cfg("sbmlgen14_exh", spec="Spec", constants={"NS": "3", "MaxRx": "1", "MaxRules": "0", "Mode": '"exh"'}, invariants=inv)
    runs.append(("exh", common.run_tlc("SbmlGen", cfg, workers=min(W, 8), allow_violation=True, keep_stdout=False)))
    nsim = 480 if tier == "quick" else 12000
    for k, (ns, mrx) in enumerate((("3", "3"), ("4", "2"))):
        cfg = common.make_cfg("sbmlgen14_sim%d" % k, spec="Spec", constants={"NS": ns, "MaxRx": mrx, "MaxRules": "0", "Mode": '"sim"'}, invariants=inv)
        runs.append(("sim%d" % k, common.run_tlc_many("SbmlGen", cfg, nproc=min(W, 6), simulate=nsim // 2, depth=12,
                                                     base_seed=common.seed() * 10 + 5 + k, allow_violation=True)))
    return runs


def run(tier):
    t0 = time.time()
    v = common.Verdict(PROP)
    recs, states, trans, cmds, per_run = [], 0, 0, [], {}
    for name, r in tlc_runs(tier):
        if r.violated:
            v.violation("spec:" + r.violated, "TLC refuted %s on Sbml/SbmlGen (%s)" % (r.violated, name), {"tlc_tail": r.stdout[-3000:]})
        recs += r.records
        per_run[name] = len(r.records)
        states += r.distinct
        trans += r.generated
        cmds.append(r.cmd)
    if not recs:
        raise common.MachineryError("C14: TLC produced no model")
    jobs = [{"recs": ch, "variant": i % 2} for i, ch in enumerate(pool.chunks(recs, 20))]
    results = pool.run_jobs("c14", "impl_kl", jobs, nworkers=W)
    ok = nev = 0
    for job, res in zip(jobs, results):
        if "harness_exception" in res:
            raise common.MachineryError("C14 harness failed: %s\n%s" % (res["harness_exception"], res.get("tb", "")))
        if "crash" in res:
            v.violation("crash", "worker died with status %s" % res["crash"], {"rec": job["recs"][0], "variant": job["variant"]})
            continue
        for rec, got in zip(job["recs"], res["out"]):
            nev += got["n"]
            if not got["bad"]:
                ok += 1
            for b in got["bad"]:
                v.violation(finding_key(b), b[3], {"rec": rec, "variant": job["variant"], "bad": b})
    rc = v.finish()
    ltypes = {}
    for rec in recs:
        for rx in rec["m"]["prog"]["rx"]:
            k = "%s/order%d/%s" % (rx["law"]["type"], len(rx["re"]), "named" if rx["named"] else "numeric") if rx["law"]["type"] == "massaction" \
                else "%s/%s" % (rx["law"]["type"], "named" if rx["named"] else "numeric")
            ltypes[k] = ltypes.get(k, 0) + 1
    cov = {"states": states, "transitions": trans, "traces_validated_against_impl": ok,
           "samples": [recs[len(recs) // 3]["m"]["prog"]["rx"], recs[-1]["m"]["prog"]["rx"]], "exhaustive": True, "models": len(recs),
           "models_per_run": per_run, "kinetic_law_evaluations": nev, "reactions_by_law": ltypes,
           "trusted_base": ["harness/sbmlmodel.py eval_ast (plain SBML math: numbers, identifiers, + - * / ^)", "libsbml MathML reader"],
           "checker_cmd": " ; ".join(cmds)}
    common.write_evidence(PROP, tier, cov, time.time() - t0, len(v.alarms) + sum(v.known_hit.values()),
                          assumptions=["kinetic laws are evaluated at three rational (deterministic export) resp. two or three non-negative integer (stochastic export) probe states per model, rtol 1e-9",
                                       "the evaluator of plain SBML math and libsbml's MathML reader are trusted",
                                       "Hill exponents are integers in this family (fractional exponents of the rate laws themselves are C01's subject)"])
    return rc


def replay(path):
    case = json.load(open(path))["case"]
    res = pool.run_jobs("c14", "impl_kl", [{"recs": [case["rec"]], "variant": case["variant"]}], nworkers=1)[0]
    print(json.dumps(res, indent=1)[:6000])
    if "out" not in res or res["out"][0]["bad"]:
        print("VIOLATION property=%s replay=%s" % (PROP, path))
        return 1
    return 0
