"""C12 - writing a model to SBML and reading it back preserves its behaviour.

(M) spec/Sbml.tla + SbmlGen.tla: Export (bioscrape's writer at design level, dummy-parameter naming
    included), Import (SBML L3 semantics + bioscrape annotations, explicit environments) and Sem (the
    observable meaning at probes).  TLC checks Sem(Import(Export(m, s))) = Sem(m) for both exports on
    the exhaustive one-reaction family (six law types, orders 0..4, numeric and named parameters, every
    delay family), on all rule lists of length <= 2 over rule type x frequency, and on random models,
    plus independence of the order of the species / parameter lists.
(G) every model is built through the public API, written (deterministic and stochastic) and re-read with
    Model(sbml_filename=...); project() of the ORIGINAL and of BOTH reloaded models is compared with the
    spec's Sem record (species, parameters modulo dummy names, update arrays by species name, four rate
    forms at rational probes through the interface and the bare propensity objects, delay types and
    bound parameter values, rules, and the effect of the rule list at probe times); a second write must
    equal the first after blanking the generated model id.
"""
import json
import os
import time

from .. import common, pool

PROP = "C12"
W = int(os.environ.get("VERIF_WORKERS", str(common.NCPU)))


def _one(rec, variant):
    import shutil
    import tempfile
    import libsbml
    from bioscrape.types import Model
    from ..sbmlmodel import build_model, project, compare_sem, blank_id
    ns, mr, sem = rec["ns"], rec["m"], rec["sem"]
    bad, drift, ncmp = [], [], 0
    tmp = tempfile.mkdtemp(prefix="verif_c12_")
    try:
        try:
            m = build_model(mr, ns, variant)
        except BaseException as e:  # noqa
            return {"bad": [["original", "exception", type(e).__name__, repr(e)[:300]]], "drift": [], "ncmp": 0}
        try:
            obs = project(m, ns, rec["P"], rec["ruletimes"])
        except BaseException as e:  # noqa
            return {"bad": [["original", "exception", "project:" + type(e).__name__, repr(e)[:300]]], "drift": [], "ncmp": 0}
        bad += [["original"] + list(b) for b in compare_sem(obs, sem, ns, mr)]
        ncmp += 1
        exp_dummies = {p["id"]: p["val"] for p in rec["pars"] if p["id"].startswith("DummyVar_")}
        if set(obs.get("dummies", {})) != set(exp_dummies):
            drift.append("dummy parameter names %r, design says %r" % (sorted(obs.get("dummies", {})), sorted(exp_dummies)))
        for st in (False, True):
            which = "reload-sto" if st else "reload-det"
            f1 = os.path.join(tmp, "w%d.xml" % st)
            try:
                m.write_sbml_model(f1, stochastic_model=st)
                t1 = open(f1).read()
                m2 = Model(sbml_filename=f1)
                obs2 = project(m2, ns, rec["P"], rec["ruletimes"])
            except BaseException as e:  # noqa
                bad.append([which, "exception", type(e).__name__, repr(e)[:300]])
                continue
            bad += [[which] + list(b) for b in compare_sem(obs2, sem, ns, mr)]
            ncmp += 1
            f1b = os.path.join(tmp, "w%db.xml" % st)
            m.write_sbml_model(f1b, stochastic_model=st)
            if blank_id(open(f1b).read()) != blank_id(t1):
                bad.append([which, "second-write", "differs", "writing the same model twice gave different documents (model id blanked)"])
            # design level: sorted lists, and the reloaded model writes the same document again
            d = libsbml.readSBMLFromString(t1).getModel()
            pids = [p.getId() for p in d.getListOfParameters()]
            sids = [s.getId() for s in d.getListOfSpecies()]
            if pids != sorted(pids) or sids != sorted(sids):
                drift.append("parameter / species lists are not written sorted")
            try:
                f2 = os.path.join(tmp, "w%dc.xml" % st)
                m2.write_sbml_model(f2, stochastic_model=st)
                if blank_id(open(f2).read()) != blank_id(t1):
                    drift.append("the reloaded model writes a different document")
            except BaseException as e:  # noqa
                bad.append([which, "exception", "rewrite:" + type(e).__name__, repr(e)[:300]])
    finally:
        shutil.rmtree(tmp, ignore_errors=True)
    return {"bad": bad[:40], "drift": drift, "ncmp": ncmp}


def impl_roundtrip(job):
    return {"out": [_one(rec, job["variant"]) for rec in job["recs"]]}


def tlc_runs(tier):
    inv = ["RoundTrip", "KinLaws", "ListOrder", "Emit"]
    runs = []
    cfg = common.make_cfg("sbmlgen_exh", spec="Spec", constants={"NS": "3", "MaxRx": "1", "MaxRules": "0", "Mode": '"exh"'}, invariants=inv)
    runs.append(("exh", common.run_tlc("SbmlGen", cfg, workers=min(W, 8), allow_violation=True, keep_stdout=False)))
    cfg = common.make_cfg("sbmlgen_exhrules", spec="Spec", constants={"NS": "3", "MaxRx": "1", "MaxRules": "2", "Mode": '"exhrules"'}, invariants=inv)
    runs.append(("exhrules", common.run_tlc("SbmlGen", cfg, workers=min(W, 8), allow_violation=True, keep_stdout=False)))
    nsim = 480 if tier == "quick" else 12000
    for k, (ns, mrx) in enumerate((("3", "3"), ("4", "2"))):
        cfg = common.make_cfg("sbmlgen_sim%d" % k, spec="Spec", constants={"NS": ns, "MaxRx": mrx, "MaxRules": "2", "Mode": '"sim"'}, invariants=inv)
        runs.append(("sim%d" % k, common.run_tlc_many("SbmlGen", cfg, nproc=min(W, 6), simulate=nsim // 2, depth=12,
                                                     base_seed=common.seed() * 10 + k, allow_violation=True)))
    return runs


def finding_key(b):
    return ":".join(str(x) for x in b[:3])


def run(tier):
    t0 = time.time()
    v = common.Verdict(PROP)
    recs, states, trans, cmds, per_run = [], 0, 0, [], {}
    for name, r in tlc_runs(tier):
        if r.violated:
            v.violation("spec:" + r.violated, "TLC refuted %s on Sbml/SbmlGen (%s)" % (r.violated, name), {"tlc_tail": r.stdout[-3000:]})
        recs += r.records
        per_run[name] = len(r.records)
        states += r.distinct
        trans += r.generated
        cmds.append(r.cmd)
    if not recs:
        raise common.MachineryError("C12: TLC produced no model")
    jobs = [{"recs": ch, "variant": i % 2} for i, ch in enumerate(pool.chunks(recs, 12))]
    results = pool.run_jobs("c12", "impl_roundtrip", jobs, nworkers=W)
    ok = ncmp = ndrift = 0
    drift_kinds = {}
    for job, res in zip(jobs, results):
        if "harness_exception" in res:
            raise common.MachineryError("C12 harness failed: %s\n%s" % (res["harness_exception"], res.get("tb", "")))
        if "crash" in res:
            v.violation("crash", "worker died with status %s" % res["crash"], {"rec": job["recs"][0], "variant": job["variant"]})
            continue
        for rec, got in zip(job["recs"], res["out"]):
            ncmp += got["ncmp"]
            for dmsg in got["drift"]:
                ndrift += 1
                drift_kinds[dmsg[:60]] = drift_kinds.get(dmsg[:60], 0) + 1
            if not got["bad"]:
                ok += 1
            for b in got["bad"]:
                v.violation(finding_key(b), "%s model: %s" % (b[0], b[3]), {"rec": rec, "variant": job["variant"], "bad": b})
    rc = v.finish()
    ltypes, dtypes, rkinds = {}, {}, {}
    for rec in recs:
        for rx in rec["m"]["prog"]["rx"]:
            k = "%s/%s" % (rx["law"]["type"], "named" if rx["named"] else "numeric")
            ltypes[k] = ltypes.get(k, 0) + 1
            dtypes[rx["delay"]["type"]] = dtypes.get(rx["delay"]["type"], 0) + 1
        for ru in rec["m"]["rules"]:
            k = "%s/%s/%s" % (ru["type"], "parameter" if ru.get("tpar") else "species", ru["freq"]["kind"])
            rkinds[k] = rkinds.get(k, 0) + 1
    cov = {"states": states, "transitions": trans, "traces_validated_against_impl": ok,
           "samples": [recs[len(recs) // 3]["m"], recs[-1]["m"]], "exhaustive": True, "models": len(recs), "models_per_run": per_run,
           "model_projections_compared": ncmp, "reactions_by_law": ltypes, "reactions_by_delay": dtypes, "rules_by_type_and_frequency": rkinds,
           "design_drift": ndrift, "design_drift_kinds": drift_kinds, "checker_cmd": " ; ".join(cmds)}
    common.write_evidence(PROP, tier, cov, time.time() - t0, len(v.alarms) + sum(v.known_hit.values()),
                          assumptions=["rate forms are compared at three exactly representable probe states and volumes per model (rtol 1e-9)",
                                       "names with a leading underscore and ode rules are outside the quantifier (stripped / re-imported as reactions by design)",
                                       "delay parameters are read through the binding of the delay object (py_get_delay on probe vectors), their values from the model's parameter vector",
                                       "general rates use the operators + - * / and integer powers; the expression evaluator itself is C02's subject"])
    return rc


def replay(path):
    case = json.load(open(path))["case"]
    res = pool.run_jobs("c12", "impl_roundtrip", [{"recs": [case["rec"]], "variant": case["variant"]}], nworkers=1)[0]
    print(json.dumps(res, indent=1)[:6000])
    if "out" not in res or res["out"][0]["bad"]:
        print("VIOLATION property=%s replay=%s" % (PROP, path))
        return 1
    return 0
