"""C20 - the delay queue delivers each entry once, in order, at the nearest grid time.

(M) TLC checks spec/DelayQueue.tla exhaustively: the ring-buffer design refines a bag of pending
    deliveries (Refine), ExactlyOnce, InOrder(Strict), ReadCorrect, PartitionOK, and the
    independent argmin-distance definition of "nearest slot" equals the code's floor/clamp formula.
(G) spec/DelayQueueGen.tla emits operation histories with the expected abstract state after every
    operation (all histories of a small length + random long ones that wrap the ring many times);
    each is replayed on a real ArrayDelayQueue for four exactly representable grid steps, and the
    projected state (drained copy, next queue time, returned deliveries, copies/partition parts)
    is compared after EVERY step.
"""
import json
import time

from .. import common, pool

PROP = "C20"
DTS = [0.5, 1.0, 0.25, 2.0]


# ------------------------------------------------------------------ implementation side (worker)

def _drain(q, nr, nc):
    import numpy as np
    c = q.py_copy()
    out = []
    for _ in range(nc):
        a = np.zeros(nr)
        c.py_get_next_reactions(a)
        out.append([float(x) for x in a])
        c.py_advance_time()
    return out


def _obs(q, nr, nc):
    return {"nqt": float(q.py_get_next_queue_time()), "slots": _drain(q, nr, nc)}


def impl_replay(job):
    """Replay one history for one dt.  Returns first mismatch or ok."""
    import numpy as np
    from bioscrape.simulator import ArrayDelayQueue
    import bioscrape.random as brandom
    rec, dt = job["rec"], job["dt"]
    nr, nc, t0 = rec["nr"], rec["nc"], rec["t0"]
    u = dt / 4.0
    if job.get("ctor", 0) == 0:
        q = ArrayDelayQueue(np.zeros((nr, nc)), dt, t0 * u)
    else:
        q = ArrayDelayQueue.setup_queue(nr, nc, dt)
        q.py_set_current_time(t0 * u)
    aux = aux2 = None
    added = [0.0] * nr
    delivered = [0.0] * nr
    last_read_t = None

    def cmp_obs(tag, real, exp, i, st):
        if abs(real["nqt"] - exp["nqt"] * u) > 1e-12:
            return {"ok": False, "step": i, "op": st["op"], "what": "%s next queue time %r != %r" % (tag, real["nqt"], exp["nqt"] * u)}
        if real["slots"] != [[float(x) for x in s] for s in exp["slots"]]:
            return {"ok": False, "step": i, "op": st["op"], "what": "%s pending slots %r != %r" % (tag, real["slots"], exp["slots"])}
        return None

    drift = None
    for i, st in enumerate(rec["steps"]):
        op = st["op"]
        before = _obs(q, nr, nc)
        if op == "add":
            q.py_add_reaction(st["a2"] * u, st["a1"] - 1, float(st["a3"]))
            added[st["a1"] - 1] += st["a3"]
        elif op == "read":
            t = q.py_get_next_queue_time()
            a = np.zeros(nr)
            q.py_get_next_reactions(a)
            q.py_advance_time()
            if abs(t - st["a1"] * u) > 1e-12:
                return {"ok": False, "step": i, "op": op, "what": "delivery time %r != %r" % (t, st["a1"] * u)}
            if [float(x) for x in a] != [float(x) for x in st["got"]]:
                return {"ok": False, "step": i, "op": op, "what": "delivered %r, expected %r" % (list(a), st["got"])}
            if last_read_t is not None and not t > last_read_t:
                return {"ok": False, "step": i, "op": op, "what": "deliveries out of time order"}
            last_read_t = t
            for r in range(nr):
                delivered[r] += a[r]
        elif op == "settime":
            q.py_set_current_time(st["a1"] * u)
            last_read_t = None
        elif op == "copy":
            aux, aux2 = q.py_copy(), None
        elif op == "clearcopy":
            aux, aux2 = q.py_clear_copy(), None
        elif op == "swap":
            q, aux = aux, q
            added = [sum(s[r] for s in _drain(q, nr, nc)) for r in range(nr)]
            delivered = [0.0] * nr
            last_read_t = None
        elif op == "partition":
            total = int(sum(sum(s) for s in before["slots"]))
            pat = st["a1"]
            draws = []
            for k in range(1, total + 6):
                lo = (pat == "lo") or (pat == "alt" and k % 2 == 1)
                draws.append(0.25 if lo else 0.75)
            brandom.py_verif_script(draws)
            parts = q.py_binomial_partition(0.5)
            used, _, under = brandom.py_verif_script_status()
            brandom.py_verif_script(None)
            aux, aux2 = parts[0], parts[1]
            # "split between the two parts": two queues, each with its own storage - an entry added to one part afterwards is
            # not pending in the other, nor in the original
            if aux is aux2 or aux is q or aux2 is q:
                return {"ok": False, "step": i, "op": op, "what": "the two parts of a partition (or a part and the original) are one and the same queue object"}
            t_probe = aux.py_get_next_queue_time()
            b2_before, q_before = _obs(aux2, nr, nc), _obs(q, nr, nc)
            aux.py_add_reaction(t_probe, 0, 3.0)
            if _obs(aux2, nr, nc) != b2_before or _obs(q, nr, nc) != q_before:
                return {"ok": False, "step": i, "op": op, "what": "an entry added to one part of a partition is pending in the other part / the original: storage is shared"}
            aux.py_add_reaction(t_probe, 0, -3.0)
            if used != total or under:
                return {"ok": False, "step": i, "op": op, "what": "partition consumed %d draws for %d queued occurrences" % (used, total)}
            # property level: cell-wise split, original unchanged
            a1, a2 = _obs(aux, nr, nc), _obs(aux2, nr, nc)
            for j in range(nc):
                for r in range(nr):
                    if a1["slots"][j][r] + a2["slots"][j][r] != before["slots"][j][r] or a1["slots"][j][r] < 0 or a2["slots"][j][r] < 0:
                        return {"ok": False, "step": i, "op": op, "what": "partition parts %r + %r != %r" % (a1["slots"], a2["slots"], before["slots"])}
        else:
            return {"harness_exception": "unknown op " + op}
        # the main queue after the step
        bad = cmp_obs("main queue", _obs(q, nr, nc), st["q"], i, st)
        if bad:
            return bad
        if op in ("copy", "clearcopy", "partition", "swap") or st["kind"] != "none":
            if st["kind"] in ("copy", "partition") and aux is not None:
                bad = cmp_obs("copy/part-1", _obs(aux, nr, nc), st["aux"], i, st)
                if bad:
                    if op == "partition" and st["a1"] == "alt":
                        drift = drift or {"step": i, "what": "alt-pattern partition split differs from the design level (draw order)"}
                    else:
                        return bad
            if st["kind"] == "partition" and aux2 is not None:
                bad = cmp_obs("part-2", _obs(aux2, nr, nc), st["aux2"], i, st)
                if bad:
                    if st["a1"] == "alt" or drift:
                        drift = drift or {"step": i, "what": "alt-pattern partition split differs from the design level (draw order)"}
                    else:
                        return bad
        # accounting: added = delivered + pending, per reaction
        now = _drain(q, nr, nc)
        for r in range(nr):
            if added[r] != delivered[r] + sum(s[r] for s in now):
                return {"ok": False, "step": i, "op": op, "what": "accounting broken for reaction %d: added %r delivered %r pending %r" % (r, added[r], delivered[r], now)}
    return {"ok": True, "drift": drift, "steps": len(rec["steps"])}


# ------------------------------------------------------------------ driver

def _mc_runs(tier):
    """(name, constants) of the exhaustive model-checking runs."""
    base = {"MaxAdded": "3", "StartTimes": ("<-", "StartTimesDef"), "AddTimes": ("<-", "RepTimes")}
    if tier == "quick":
        return [
            ("core_2x3", dict(base, NR="2", NC="3", MaxDepth="7", WithCopies="FALSE")),
            ("copies_2x3", dict(base, NR="2", NC="3", MaxDepth="5", WithCopies="TRUE")),
            ("core_1x2", dict(base, NR="1", NC="2", MaxDepth="8", WithCopies="FALSE")),
            ("core_2x4", dict(base, NR="2", NC="4", MaxDepth="6", WithCopies="FALSE")),
        ]
    return [
        ("core_2x3", dict(base, NR="2", NC="3", MaxDepth="8", WithCopies="FALSE")),
        ("copies_2x3", dict(base, NR="2", NC="3", MaxDepth="6", WithCopies="TRUE")),
        ("core_1x2", dict(base, NR="1", NC="2", MaxDepth="10", WithCopies="FALSE", MaxAdded="4")),
        ("core_2x4", dict(base, NR="2", NC="4", MaxDepth="7", WithCopies="FALSE")),
        ("core_2x2", dict(base, NR="2", NC="2", MaxDepth="7", WithCopies="TRUE")),
        ("alltimes_1x3", dict(base, NR="1", NC="3", MaxDepth="6", WithCopies="FALSE", AddTimes=("<-", "ReqTimes"))),
    ]


INVS = ["TypeOK", "Refine", "ExactlyOnce", "NearestIsFloorClamp"]
PROPS = ["ReadCorrect", "InOrder", "InOrderStrict", "CopyOK", "PartitionOK"]


def generate(tier, seed):
    """Histories from TLC: exhaustive short ones and random long ones."""
    recs = []
    info = []
    gen_base = {"MaxAdded": "1000", "StartTimes": ("<-", "StartTimesDef"), "WithCopies": "TRUE"}
    exh = [("2", "3", "2", ("<-", "ReqTimes"))]
    if tier == "thorough":
        exh += [("2", "3", "3", ("<-", "RepTimes")), ("1", "2", "3", ("<-", "ReqTimes")), ("2", "4", "2", ("<-", "ReqTimes"))]
    else:
        exh += [("1", "2", "2", ("<-", "ReqTimes"))]
    for nr, nc, hl, at in exh:
        cfg = common.make_cfg("dqgen_exh_%s_%s_%s" % (nr, nc, hl), init="GInit", next="GNextExh",
                              constants=dict(gen_base, NR=nr, NC=nc, HLen=hl, AddTimes=at),
                              invariants=["Emit", "Refine", "ExactlyOnce"])
        r = common.run_tlc("DelayQueueGen", cfg, workers=1, keep_stdout=False)
        recs += r.records
        info.append({"kind": "exhaustive", "nr": nr, "nc": nc, "len": hl, "histories": len(r.records), "states": r.distinct})
    nsim = 1500 if tier == "quick" else 20000
    for k, (nr, nc, hl) in enumerate([("2", "4", "40"), ("2", "2", "30"), ("1", "3", "40"), ("2", "3", "60")]):
        cfg = common.make_cfg("dqgen_sim_%s_%s" % (nr, nc), init="GInit", next="GNextSim",
                              constants=dict(gen_base, NR=nr, NC=nc, HLen=hl),
                              invariants=["Emit", "Refine", "ExactlyOnce"])
        r = common.run_tlc("DelayQueueGen", cfg, workers=1, simulate=nsim, depth=int(hl) + 5,
                           tlc_seed=seed * 10 + k, deadlock=False, keep_stdout=False)
        recs += r.records
        info.append({"kind": "simulate", "nr": nr, "nc": nc, "len": hl, "histories": len(r.records), "states": r.generated})
    return recs, info


def _key(res):
    return "queue-op:%s" % res.get("op", "crash" if "crash" in res else "harness")


def run(tier):
    t0 = time.time()
    seed = common.seed()
    v = common.Verdict(PROP)
    states = trans = 0
    mc = []
    for name, consts in _mc_runs(tier):
        cfg = common.make_cfg("dq_" + name, spec="Spec", constants=consts, invariants=INVS, properties=PROPS,
                              constraints=["Bound", "DepthBound"])
        r = common.run_tlc("MC_DelayQueue", cfg, allow_violation=True, timeout=3000)
        if r.violated:
            v.violation("spec:" + r.violated, "TLC refuted %s on the specification itself (%s)" % (r.violated, name),
                        {"config": name, "tlc_tail": r.stdout[-3000:]})
        states += r.distinct
        trans += r.generated
        mc.append({"config": name, "distinct": r.distinct, "generated": r.generated, "depth": r.depth, "wall_s": round(r.wall, 1)})
    recs, geninfo = generate(tier, seed)
    jobs = []
    for i, rec in enumerate(recs):
        for k, dt in enumerate(DTS):
            jobs.append({"rec": rec, "dt": dt, "ctor": (i + k) % 2})
    results = pool.run_jobs("c20", "impl_replay", jobs)
    ok = drift = 0
    steps = 0
    for job, res in zip(jobs, results):
        if res.get("ok"):
            ok += 1
            steps += res.get("steps", 0)
            if res.get("drift"):
                drift += 1
            continue
        if "harness_exception" in res:
            raise common.MachineryError("replay harness failed: %s\n%s" % (res["harness_exception"], res.get("tb", "")))
        what = res.get("what", "worker crashed with status %s" % res.get("crash"))
        v.violation(_key(res), what, {"job": job, "result": res})
    rc = v.finish()
    sample = recs[len(recs) // 2] if recs else {}
    cov = {
        "states": states, "transitions": trans,
        "traces_validated_against_impl": ok,
        "samples": [{"nr": sample.get("nr"), "nc": sample.get("nc"), "t0": sample.get("t0"),
                     "ops": [[s["op"], s["a1"], s["a2"], s["a3"]] for s in sample.get("steps", [])][:12]}],
        "exhaustive": True,
        "model_checking_runs": mc, "generation": geninfo,
        "histories_generated": len(recs), "replays": len(jobs), "replay_steps_compared": steps,
        "grid_steps": DTS, "design_level_drift": drift,
        "checker_cmd": "tlc MC_DelayQueue (INVARIANTS %s; PROPERTIES %s); tlc DelayQueueGen" % (" ".join(INVS), " ".join(PROPS)),
    }
    common.write_evidence(PROP, tier, cov, time.time() - t0, len(v.alarms) + sum(v.known_hit.values()),
                          assumptions=["binomial law of partition: decided in C19 by counting; here the split is replayed through the scripted stream",
                                       "requested times are exact multiples of a quarter grid step with power-of-two grid steps (never exactly half-way)"])
    return rc


def replay(path):
    case = json.load(open(path))["case"]
    res = pool.run_jobs("c20", "impl_replay", [case["job"]], nworkers=1)[0]
    print(json.dumps(res, indent=1))
    if res.get("ok"):
        return 0
    print("VIOLATION property=%s replay=%s" % (PROP, path))
    return 1
