"""C08 - results depend only on the model's current definition and the seed.

(M) spec/Lifecycle.tla + LifecycleGen.tla: a heap of model objects (definition, initialized flag, C vectors,
    numpy array OBJECTS) and interfaces (the array objects they hold); the alphabet of the property as actions
    (add species / reaction / parameter / rule, set parameter / species, initialise, build an interface,
    simulate through the model or an older interface, seed).  TLC checks for every history up to the depth
    bound: initialised => C vectors = vectors derived from the definition and matrices current; an interface
    that check_interface accepts holds the model's own arrays; every simulation reads exactly the tuple the
    definition determines; a simulation leaves the initial condition and every parameter no rule assigns alone.
    Four transcribed deviations (vectors not cleared, an edit that keeps the flag, the deterministic simulator
    re-binding the interface's parameter array, a simulator working on initial_state itself) must be REFUTED.
(G) every emitted history is executed on a real Model and, as a second family, on a real LineageModel (with
    lineage rules among the edits); after EVERY action project(object) and every interface are compared with
    the spec's record; at every simulation whose outcome the property fixes a FRESH model built at once from
    the spec's definition is simulated from the same seed (stochastic: bitwise, deterministic: 1e-12); at the
    end: twice each mode, re-initialised in between, fresh model twice, dictionaries before / after.
"""
import json
import os
import re
import time

from .. import common, pool

PROP = "C08"
NW = min(6, int(os.environ.get("VERIF_WORKERS", "6")))

DESIGN = {"VecDesign": '"clear"', "FlagDesign": '"reset"', "DetDesign": '"share"', "SimDesign": '"copy"', "CopyDesign": '"fresh"'}
MENUS = {"NSp": "4", "RxMenu": ("<-", "RxMenuDef"), "RuleMenu": ("<-", "RuleMenuDef"), "LinMenu": ("<-", "LinMenuDef")}
INVS = ["InvCurrent", "InvAccepted", "InvDisjoint"]
PROPS = ["PropSimRead", "PropSimKeeps", "PropIndependent", "PropCopy", "PropPrefix", "PropInit"]


def consts(fam="model", mode="exh", hlen=2, copy=False, maxobj=1, maxitf=2, maxrx=2, maxrules=1, maxlin=0,
           rx="RxSmall", rules="RuleSp", lin="None", sp="Sp123", par="ParC08", xv="XV1", pv="PV1", modes="ModesSmall",
           seeds="Seeds1", presp="NoPre", prerx="NoPre", prerules="NoPre", prelin="NoPre", preset="NoPre", preinit=False, **design):
    c = dict(MENUS)
    c.update(DESIGN)
    c.update({k: '"%s"' % v for k, v in design.items()})
    c.update({"Fam": '"%s"' % fam, "Mode": '"%s"' % mode, "HLen": str(hlen), "WithCopy": "TRUE" if copy else "FALSE",
              "MaxObj": str(maxobj), "MaxItf": str(maxitf), "MaxRx": str(maxrx), "MaxRules": str(maxrules), "MaxLin": str(maxlin),
              "RxPick": ("<-", rx), "RulePick": ("<-", rules), "LinPick": ("<-", lin), "SpPick": ("<-", sp), "ParPick": ("<-", par),
              "XVals": ("<-", xv), "PVals": ("<-", pv), "SimModes": ("<-", modes), "Seeds": ("<-", seeds),
              "PreSp": ("<-", presp), "PreRx": ("<-", prerx), "PreRules": ("<-", prerules), "PreLin": ("<-", prelin),
              "PreSet": ("<-", preset), "PreInit": "TRUE" if preinit else "FALSE"})
    return c


def get_menu():
    cfg = common.make_cfg("lc_menu", spec="GSpecExh", constants=consts(hlen=0), invariants=["EmitMenu"])
    r = common.run_tlc("LifecycleGen", cfg, workers=1, keep_stdout=False)
    menus = [x for x in r.records if x.get("menu")]
    if not menus:
        raise common.MachineryError("LifecycleGen did not print its menu")
    return menus[0]


def model_check(name, cs, v, expect_refuted=None, workers=NW, timeout=900):
    """one exhaustive TLC run with the state VIEW (history excluded).  expect_refuted: the run transcribes a
    deviation and TLC must refute one of the properties (vacuity guard)."""
    cfg = common.make_cfg(name, spec="GSpecExh", constants=cs, invariants=INVS, properties=PROPS, view="View")
    r = common.run_tlc("LifecycleGen", cfg, workers=workers, allow_violation=True, timeout=timeout, keep_stdout=False)
    info = {"config": name, "distinct": r.distinct, "generated": r.generated, "depth": r.depth, "wall_s": round(r.wall, 1),
            "refuted": r.violated}
    if expect_refuted is None and r.violated:
        v.violation("spec:" + r.violated, "TLC refuted %s on Lifecycle.tla (%s)" % (r.violated, name), {"config": name, "tlc_tail": r.stdout[-3000:]})
    if expect_refuted is not None and not r.violated:
        v.violation("spec:vacuous:" + name, "the transcribed deviation %s was NOT refuted: the properties are vacuous" % name,
                    {"config": name, "tlc_tail": r.stdout[-2000:]})
    return r, info


# ------------------------------------------------------------------ implementation side (worker)

def _aspect_class(a):
    a = re.sub(r":r\d+", "", a)
    a = re.sub(r":\d+$", "", a)
    if a.startswith(("species-value", "parameter-value", "lineage-vector")):
        a = a.split(":")[0]
    return a


def _state_key(fam, aspect, tag, o):
    """finding key of a projection mismatch: family + class of the deviating observable; the operation is part of
    the key only for the initialized flag (it names the edit that kept it), the object only for copies"""
    a = _aspect_class(aspect)
    key = "state:%s:%s" % (fam, a)
    if a == "vector:initialized":
        key += ":after-" + tag.split(":")[0]
    return key + ("" if o == 1 else ":copy")


def replay_one(menu, rec, final=True, pair_only=False):
    """execute one history; -> {"ok", "steps", "sims", ...} or the first violation {"ok": False, "key", "what", "step"}"""
    import bioscrape.random as br
    from ..lifecycle import World, project, project_itf, compare, compare_itf, fresh_model, same_obs, is_val
    fam = rec["fam"]
    W = World(menu, fam)
    W.pre(rec["pre"])
    expected = {1: rec["start"]}
    exp_itfs = []
    stats = {"steps": 0, "sims": 0, "fresh_cmp": 0, "refusals": 0, "pairs": 0, "drift": 0, "final_modes": 0, "obs": {}, "not_judged_sims": 0}
    detached = set()      # interfaces whose parameter array is no longer the model's (observation, not judged)
    stopped = False

    def observe(key, what, i):
        o = stats["obs"].setdefault(key, {"count": 0, "sample": None})
        o["count"] += 1
        if o["sample"] is None:
            o["sample"] = {"what": what, "ops": [[x["op"], x["o"], x["n"], x["s"], x["t"], x["out"]] for x in rec["steps"][:i + 1]][-8:]}

    def check_all(tag, i):
        for o, m in enumerate(W.objs, start=1):
            bad, drift = compare(project(m, menu, fam), expected[o], menu, fam)
            stats["drift"] += len(drift)
            if bad:
                a, d = bad[0]
                return {"ok": False, "key": _state_key(fam, a, tag, o), "step": i,
                        "what": "object %d after %s: %s: %s (%d differences)" % (o, tag, a, d, len(bad))}
        for k, itf in enumerate(W.itfs):
            bad = compare_itf(project_itf(itf), exp_itfs[k])
            par = [b for b in bad if b[0] == "interface-parameter-array"]
            bad = [b for b in bad if b[0] != "interface-parameter-array"]
            if par and k not in detached:
                # a once-used interface that no longer shares the model's parameter array: design level, the
                # property compares through freshly built interfaces
                detached.add(k)
                observe("interface:%s:interface-parameter-array:after-%s" % (fam, tag.split(":")[0]),
                        "interface %d (%s) after %s: %s" % (k + 1, exp_itfs[k]["kind"], tag, par[0][1]), i)
            if bad:
                a, d = bad[0]
                return {"ok": False, "key": "interface:%s:%s" % (fam, a), "step": i,
                        "what": "interface %d (%s) after %s: %s: %s" % (k + 1, exp_itfs[k]["kind"], tag, a, d)}
        return None

    bad = check_all("build", -1)
    if bad:
        return bad
    for i, st in enumerate(rec["steps"]):
        outcome, obs = W.do(st)
        stats["steps"] += 1
        tag = st["op"] + ((":" + st["t"]) if st["op"] in ("sim", "pairsim") else "")
        if outcome != st["out"] and st["op"] == "sim" and st["n"] and st["out"] == "RuntimeError":
            # simulating through an interface built BEFORE an edit: what the interface must do is not part of the
            # claim (observation); the real run may have advanced the generator and rule-assigned parameters, so the
            # rest of this history is not replayed
            observe("outcome:%s:%s:interface:%s-expected-RuntimeError" % (fam, tag, outcome),
                    "%s through an interface built before an edit gave %s, the design says RuntimeError" % (tag, outcome), i)
            stopped = True
            break
        if outcome != st["out"] and st["op"] == "sim" and st["out"] == "ok" and (obs or {}).get("error"):
            # the simulator itself raised (e.g. a Hill law at a state the integrator made slightly negative): the claim
            # is that the outcome is a function of the definition, so the model built at once must raise the same
            post = dict(expected)
            for e in st["objs"]:
                post[e["o"]] = e["p"]
            ref = "ok"
            judged = all(is_val(q["v"]) for q in post[st["o"]]["par"]) and not post[st["o"]]["assigned"]
            try:
                if not judged:
                    raise RuntimeError("not judged")
                fm = fresh_model(post[st["o"]], menu, fam)
                if st["t"] != "det" and int(st["gen"]["seed"]):
                    br.py_seed_random(int(st["gen"]["seed"]))
                W.simulate(fm, None, st["t"], st["s"] == "safe")
            except Exception as ex:  # noqa
                ref = type(ex).__name__
            if judged and ref != outcome:
                return {"ok": False, "key": "history-differs-from-fresh:%s:%s:raises-%s" % (fam, st["t"], outcome), "step": i,
                        "what": "%s after this history raised %s (%s), the freshly built model gave %s" % (tag, outcome, obs["error"], ref)}
            observe("simulation-raises:%s:%s:%s" % (fam, st["t"], outcome), "both the history object and the freshly built model raise: " + obs["error"], i)
            for e in st["objs"]:
                expected[e["o"]] = e["p"]
            exp_itfs = st["itfs"]
            stopped = True          # rule-assigned parameters and the generator are in an unknown state now
            break
        if outcome != st["out"]:
            via = "interface" if st["op"] == "sim" and st["n"] else "model"
            return {"ok": False, "key": "outcome:%s:%s:%s:%s-expected-%s" % (fam, tag, via, outcome, st["out"]), "step": i,
                    "what": "%s gave %s (%s), the specification says %s" % (tag, outcome, (obs or {}).get("error", ""), st["out"])}
        for e in st["objs"]:
            expected[e["o"]] = e["p"]
        exp_itfs = st["itfs"]
        bad = check_all(tag, i)
        if bad:
            return bad
        if st["out"] != "ok":
            stats["refusals"] += 1
        if st["op"] == "pairsim" and outcome == "ok":
            stats["pairs"] += 1
            d = same_obs(obs["pair"][0], obs["pair"][1], exact=st["t"] != "det")
            if d:
                return {"ok": False, "key": "copy-simulates-differently:%s:%s" % (fam, st["t"]), "step": i,
                        "what": "objects %d and %d have the same meaning but seeded %s runs differ: %s" % (st["o"], st["n"], st["t"], d)}
        if st["op"] == "sim" and outcome == "ok":
            stats["sims"] += 1
            sim = st["sim"]
            if st["n"] and (st["n"] - 1) in detached:
                stats["not_judged_sims"] += 1
            elif sim["cmp"] and (st["t"] == "det" or sim["fresh"]) and not pair_only:
                fm = fresh_model(expected[st["o"]], menu, fam)
                if st["t"] != "det":
                    br.py_seed_random(int(st["gen"]["seed"]))
                ref = W.simulate(fm, None, st["t"], st["s"] == "safe")
                d = same_obs(obs, ref, exact=st["t"] != "det")
                stats["fresh_cmp"] += 1
                if d:
                    via = "interface" if st["n"] else "model"
                    return {"ok": False, "key": "history-differs-from-fresh:%s:%s:via-%s" % (fam, st["t"], via), "step": i,
                            "what": "%s simulation through the %s after this history differs from the freshly built model: %s" % (st["t"], via, d)}
    if final:
        for o, m in enumerate(W.objs, start=1):
            e = expected[o]
            if not all(is_val(p["v"]) for p in e["par"]):
                continue
            modes = ["det", "sto", "vol", "delay", "dvol"] + (["cell"] if fam == "lineage" else [])
            fm = None if e["assigned"] else fresh_model(e, menu, fam)
            for mode in modes:
                sd = 1000 + 17 * o
                before = (m.get_species_dictionary(), m.get_parameter_dictionary())
                runs = []
                raised = None
                for rep in range(2):
                    br.py_seed_random(sd)
                    try:
                        runs.append(W.simulate(m, None, mode, False))
                    except Exception as ex:  # noqa
                        raised = ex
                        break
                    m.py_initialize()
                if raised is not None:
                    ref = "ok"
                    try:
                        br.py_seed_random(sd)
                        W.simulate(fm if fm is not None else fresh_model(e, menu, fam), None, mode, False)
                    except Exception as ex:  # noqa
                        ref = type(ex).__name__
                    if ref != type(raised).__name__:
                        return {"ok": False, "key": "history-differs-from-fresh:%s:%s:raises-%s" % (fam, mode, type(raised).__name__), "step": len(rec["steps"]),
                                "what": "final %s simulation raised %r, the freshly built model gave %s" % (mode, raised, ref)}
                    observe("simulation-raises:%s:%s:%s" % (fam, mode, type(raised).__name__), "both the history object and the freshly built model raise: %r" % (raised,), len(rec["steps"]) - 1)
                    break
                after = (m.get_species_dictionary(), m.get_parameter_dictionary())
                for nm in before[0]:
                    if float(before[0][nm]) != float(after[0][nm]) and not (float(before[0][nm]) == -1.0 and float(after[0][nm]) == 0.0):
                        return {"ok": False, "key": "simulation-changes-initial-condition:%s:%s" % (fam, mode), "step": len(rec["steps"]),
                                "what": "species %s: %r before, %r after a %s simulation" % (nm, before[0][nm], after[0][nm], mode)}
                for nm in before[1]:
                    if nm not in e["assigned"] and float(before[1][nm]) != float(after[1][nm]):
                        return {"ok": False, "key": "simulation-changes-parameter:%s:%s" % (fam, mode), "step": len(rec["steps"]),
                                "what": "parameter %s (no rule assigns it): %r before, %r after a %s simulation" % (nm, before[1][nm], after[1][nm], mode)}
                if fm is None:
                    continue
                for rep in range(2):
                    br.py_seed_random(sd)
                    runs.append(W.simulate(fm, None, mode, False))
                stats["final_modes"] += 1
                names = ["history model", "history model (re-initialised)", "fresh model", "fresh model (second run)"]
                for k in range(1, 4):
                    d = same_obs(runs[0], runs[k], exact=mode != "det")
                    if d:
                        kind = "repeat" if k == 1 else "history-differs-from-fresh"
                        return {"ok": False, "key": "%s:%s:%s:final" % (kind, fam, mode), "step": len(rec["steps"]),
                                "what": "%s simulation, same seed: %s vs %s: %s" % (mode, names[0], names[k], d)}
    stats["ok"] = True
    stats["stopped"] = 1 if stopped else 0
    return stats


def _one(menu, rec, final):
    try:
        return replay_one(menu, rec, final=final)
    except BaseException as e:  # noqa
        import traceback
        return {"harness_exception": repr(e), "tb": traceback.format_exc()[-2500:]}


_WARM = False


def _warm():
    """load the libraries and fill sympy's caches ONCE in the worker itself, so that the forked children start warm"""
    global _WARM
    if _WARM:
        return
    _WARM = True
    import numpy as np
    import bioscrape.lineage as bl
    from bioscrape.types import Model
    from bioscrape.simulator import py_simulate_model
    m = Model(species=["S1", "S2"], reactions=[([], ["S2"], "general", {"rate": "k1*S1 + exp(-t) + log(S1 + 1) + abs(S2) + Heaviside(S1 - 1/2)*min(S1, S2) + max(S2, k1)^2/volume"})],
              parameters=[("k1", 1.0)], rules=[("assignment", {"equation": "S2 = 2*S1 + 1"})], initial_condition_dict={"S1": 2, "S2": 0})
    tp = np.linspace(0.0, 1.0, 3)
    py_simulate_model(tp, Model=m, stochastic=True, return_dataframe=False)
    py_simulate_model(tp, Model=m, stochastic=False, return_dataframe=False)
    lm = bl.LineageModel(species=["S1"], reactions=[([], ["S1"], "massaction", {"k": 1.0})], initial_condition_dict={"S1": 0})
    bl.py_SimulateSingleCell(tp, Model=lm, return_dataframes=False)


def _guarded(menu, recs, final):
    """the histories of a job in a forked child (watchdog pattern of c09); if the child dies or does not finish, each
    history is repeated in a child of its own: a crash of the interpreter is then an observation about ONE history,
    a run that does not end has unbounded dynamics and is skipped (counted), not judged"""
    from .c09 import _forked
    _warm()
    res = _forked(lambda: {"ok": True, "out": [_one(menu, rec, final) for rec in recs]}, 20.0 + 4.0 * len(recs))
    if res.get("out") is not None:
        return res["out"]
    out = []
    for rec in recs:
        r = _forked(lambda: _one(menu, rec, final), 45.0)
        if r.get("skipped_unbounded"):
            r = {"ok": True, "skipped": 1}
        elif r.get("what") == "crash":
            r = {"ok": False, "key": "crash:%s" % rec["fam"], "what": "the interpreter died while this history was replayed", "step": len(rec["steps"])}
        elif r.get("what") == "exception" and "key" not in r:
            r = {"harness_exception": r.get("detail", "?"), "tb": ""}
        out.append(r)
    return out


def impl_replay(job):
    return {"out": _guarded(job["menu"], job["recs"], job.get("final", True))}


# ------------------------------------------------------------------ driver

def gen_runs(tier, seed):
    """(name, constants, simulate count or None, depth)"""
    q = tier == "quick"
    runs = [
        # exhaustive: every history of length 2 over the full C08 alphabet, length 3 over the small one
        ("g_exh2", consts(hlen=2, rules="RuleAll", rx="RxAll", sp="SpAll", xv="XV2", pv="PV2", modes="ModesPlain", maxrx=3, maxrules=2), None, 0),
        ("g_exh3", consts(hlen=3, sp="Sp12", par="ParC08", modes="ModesSmall", maxitf=1, rules="None"), None, 0),
        # long random histories, plain Model
        ("g_sim_small", consts(mode="sim", hlen=24, rules="RuleAll", rx="RxSmall", xv="XV2", pv="PV2", modes="ModesPlain", maxrx=3,
                               maxrules=2, maxitf=3, sp="SpAll", seeds="Seeds2", preset="PreSetAll"), 60 if q else 1500, 30),
        ("g_sim_full", consts(mode="sim", hlen=30, rules="RuleAll", rx="RxAll", xv="XV2", pv="PV2", modes="ModesPlain", maxrx=6,
                              maxrules=3, maxitf=3, sp="SpAll", seeds="Seeds2", presp="PreSpAll", preset="PreSetAll"), 60 if q else 1500, 36),
        # an interface re-used after a deterministic run of a model with a rule (observation C)
        ("g_det_itf", consts(mode="sim", hlen=10, rx="None", rules="None", sp="None", par="ParK1", pv="PV2", modes="ModesDet", maxitf=1,
                             presp="PreSp123", prerx="PreRx1", prerules="PreRules1", preset="PreSetAll", preinit=True), 40 if q else 400, 14),
        # second object family: LineageModel with lineage rules / events among the edits
        ("g_lin_exh2", consts(fam="lineage", hlen=2, rx="RxLinSmall", rules="RuleSp", lin="LinSmall", sp="Sp12", modes="ModesLin",
                              maxlin=2, maxitf=1, presp="PreSpAll", prerx="PreRxLin0"), None, 0),
        ("g_lin_sim", consts(fam="lineage", mode="sim", hlen=24, rx="RxLinSmall", rules="RuleAll", lin="LinAll", sp="SpAll",
                             xv="XV2", pv="PV2", modes="ModesLinAll", maxrx=4, maxrules=2, maxlin=5, maxitf=3, seeds="Seeds2",
                             par="ParC17", presp="PreSpAll", prerx="PreRxLin0", preset="PreSetLin"), 50 if q else 1200, 30),
    ]
    return runs


def mc_runs(tier):
    q = tier == "quick"
    d = 5 if q else 7
    base = dict(mode="mc", rules="RuleBoth", sp="Sp123", maxitf=2, maxrx=2, maxrules=1, modes="ModesSmall")
    runs = [("mc_plain", consts(hlen=d, **base), None),
            ("mc_lineage", consts(fam="lineage", mode="mc", hlen=d - 1, rx="RxLinSmall", rules="RuleSp", lin="LinSmall", sp="Sp12",
                                  modes="ModesLin", maxlin=2, maxitf=1, presp="PreSpAll"), None),
            # vacuity guards: each transcribed deviation must be refuted
            ("dev_noclear", consts(hlen=4, VecDesign="noclear", **base), "refuted"),
            ("dev_forget", consts(hlen=4, FlagDesign="forget", **base), "refuted"),
            ("dev_rebind", consts(hlen=5, DetDesign="rebind", **base), "refuted"),
            ("dev_alias", consts(hlen=4, SimDesign="alias", **base), "refuted")]
    return runs


def judge(v, jobs, results, counters):
    for job, res in zip(jobs, results):
        if "harness_exception" in res:
            raise common.MachineryError("%s harness failed: %s\n%s" % (PROP, res["harness_exception"], res.get("tb", "")))
        for k, rec in enumerate(job["recs"]):
            if "crash" in res:
                got = {"ok": False, "key": "crash:%s" % rec["fam"], "what": "worker died: %s" % res["crash"], "step": -1}
            else:
                got = res["out"][k]
            if "harness_exception" in got:
                raise common.MachineryError("%s harness failed: %s\n%s" % (PROP, got["harness_exception"], got.get("tb", "")))
            if got.get("ok"):
                for key in ("steps", "sims", "fresh_cmp", "refusals", "pairs", "drift", "final_modes", "skipped"):
                    counters[key] = counters.get(key, 0) + got.get(key, 0)
                counters["ok"] = counters.get("ok", 0) + 1
                counters["stopped"] = counters.get("stopped", 0) + got.get("stopped", 0)
                counters["not_judged_sims"] = counters.get("not_judged_sims", 0) + got.get("not_judged_sims", 0)
                for key, ob in got.get("obs", {}).items():
                    tgt = counters.setdefault("obs", {}).setdefault(key, {"count": 0, "sample": ob["sample"]})
                    tgt["count"] += ob["count"]
                counters["ok_" + rec["fam"]] = counters.get("ok_" + rec["fam"], 0) + 1
            else:
                small = dict(rec, steps=rec["steps"][:got.get("step", 0) + 1])
                v.violation(got["key"], got["what"], {"rec": small, "menu_from": "LifecycleGen", "got": got})


def impl_reseed(job):
    """'seeding the generator and simulating twice gives identical output' for every random primitive and every delay sampler at
    parameter values beyond those of the menu (gamma shapes below, at and above 1; large and small normals): seed, draw, seed
    again, draw again - the two sequences are bitwise equal, and a delay simulation with such delays repeats bitwise."""
    import numpy as np
    from bioscrape.types import Model
    from bioscrape.simulator import py_simulate_model
    import bioscrape.random as br
    out = []
    for sd in job["seeds"]:
        res = {"ok": True}
        try:
            prims = [("uniform", lambda: br.py_uniform_rv()), ("exponential", lambda: br.py_exponential_rv(2.5)), ("normal", lambda: br.py_normal_rv(1.0, 3.0)),
                     ("binomial", lambda: br.py_binom_rnd(17, 0.3)), ("binomial_f", lambda: br.py_binom_rnd_f(9.0, 0.6)),
                     ("approx_binomial", lambda: br.py_approx_binom_rnd(400, 0.25))]
            for k in (0.3, 0.75, 1.0, 1.5, 4.0, 25.0):
                prims.append(("gamma(k=%g)" % k, (lambda kk: (lambda: br.py_gamma_rv(kk, 0.5)))(k)))
                prims.append(("erlang(k=%g)" % k, (lambda kk: (lambda: br.py_erlang_rv(kk, 0.5)))(k)))
            # the stream after py_seed_random(s) is the one of MT19937-64 seeded with s - for 64-bit seeds as well
            from .c05 import mt64_reference
            br.py_seed_random(sd)
            got = [int(br.py_rand_int()) for _ in range(6)]
            if sd != 0 and got != mt64_reference(sd, 6):
                res = {"ok": False, "what": "reseed:seed-not-honoured", "detail": "after py_seed_random(%d) the generator does not produce the stream of that seed" % sd}
                out.append(res)
                continue
            for name, fn in prims:
                br.py_seed_random(sd)
                a = [fn() for _ in range(40)]
                br.py_seed_random(sd)
                b_ = [fn() for _ in range(40)]
                if a != b_ and not (np.isnan(a).all() and np.isnan(b_).all()):
                    res = {"ok": False, "what": "reseed:" + name.split("(")[0], "detail": "%s: two sequences drawn after py_seed_random(%d) differ at draw %d" % (
                        name, sd, next(i for i in range(40) if a[i] != b_[i]))}
                    break
            if res["ok"]:
                tp = np.linspace(0, 6, 13)
                for dtype, dd in (("gamma", {"k": 0.75, "theta": 1.5}), ("gamma", {"k": 1.0, "theta": 0.5}), ("gamma", {"k": 3.5, "theta": 0.25}),
                                  ("gaussian", {"mean": 1.0, "std": 0.75}), ("fixed", {"delay": 0.7})):
                    m = Model(species=["A", "B", "C"], reactions=[(["A"], [], "massaction", {"k": 0.8}, dtype, [], ["B"], dict(dd)), (["B"], ["C"], "massaction", {"k": 0.3})],
                              initial_condition_dict={"A": 30, "B": 0, "C": 0})
                    runs = []
                    for _ in range(2):
                        br.py_seed_random(sd + 3)
                        runs.append(np.array(py_simulate_model(tp, Model=m, stochastic=True, delay=True, return_dataframe=False).py_get_result()))
                    if not np.array_equal(runs[0], runs[1]):
                        res = {"ok": False, "what": "reseed:delay-simulation:" + dtype, "detail": "delay simulation with a %s delay %r differs between two runs from seed %d" % (dtype, dd, sd + 3)}
                        break
        except BaseException as e:  # noqa
            res = {"ok": False, "what": "reseed:exception", "detail": repr(e)[:300]}
        out.append(res)
    return {"out": out}


def run(tier):
    t0 = time.time()
    seed = common.seed()
    v = common.Verdict(PROP)
    menu = get_menu()
    mc = []
    states = trans = 0
    for name, cs, expect in mc_runs(tier):
        r, info = model_check(name, cs, v, expect_refuted=expect)
        mc.append(info)
        if expect is None:
            states += r.distinct
            trans += r.generated
    recs, gen, jobs = [], [], []
    for k, (name, cs, nsim, depth) in enumerate(gen_runs(tier, seed)):
        cfg = common.make_cfg(name, spec="GSpecSim" if nsim else "GSpecExh", constants=cs, invariants=INVS + ["Emit"])
        if nsim:
            r = common.run_tlc_many("LifecycleGen", cfg, 3, nsim, depth, seed * 31 + k)
        else:
            r = common.run_tlc("LifecycleGen", cfg, workers=NW, keep_stdout=False)
        rs = [x for x in r.records if "steps" in x]
        recs += rs
        gen.append({"config": name, "kind": "simulate" if nsim else "exhaustive", "histories": len(rs), "states": r.generated})
        # the closing comparison (every mode twice, re-initialised, against the fresh model twice) runs on every random
        # history and, in the quick tier, on every third chunk of the exhaustive short ones
        chs = pool.chunks(rs, 12)
        jobs += [{"menu": menu, "recs": ch, "final": bool(nsim) or tier != "quick" or j % 3 == 0} for j, ch in enumerate(chs)]
    results = pool.run_jobs("c08", "impl_replay", jobs, nworkers=NW)
    counters = {}
    judge(v, jobs, results, counters)
    rjobs = [{"seeds": [seed * 977 + 13 * j + i for i in range(2 if tier == "quick" else 8)]} for j in range(4)]
    # seeds that do not fit 32 bits (the generator is a 64-bit one and py_seed_random takes 64-bit seeds)
    rjobs.append({"seeds": [2 ** 32, 3 * 2 ** 32, 2 ** 40 + 5 * seed, 2 ** 63 + 11]})
    n_reseed = 0
    for job, res in zip(rjobs, pool.run_jobs("c08", "impl_reseed", rjobs, nworkers=5)):
        if "harness_exception" in res:
            raise common.MachineryError("C08 reseed harness failed: %s\n%s" % (res["harness_exception"], res.get("tb", "")))
        for i, sd in enumerate(job["seeds"]):
            got = {"ok": False, "what": "reseed:crash", "detail": "worker died: %s" % res["crash"]} if "crash" in res else res["out"][i]
            if got["ok"]:
                n_reseed += 1
            else:
                v.violation(got["what"], got["detail"], {"reseed_seed": sd})
    rc = v.finish()
    s = recs[len(recs) // 2] if recs else {"steps": []}
    cov = {"states": states, "reseed_sequences_of_every_primitive_and_delay_sampler": n_reseed, "transitions": trans, "traces_validated_against_impl": counters.get("ok", 0),
           "samples": [{"fam": s.get("fam"), "ops": [[x["op"], x["o"], x["n"], x["s"], x["t"], x["out"]] for x in s["steps"]][:14]}],
           "exhaustive": True, "model_checking_runs": mc, "generation": gen, "histories_generated": len(recs),
           "histories_by_family": {"model": counters.get("ok_model", 0), "lineage": counters.get("ok_lineage", 0)},
           "steps_projected_and_compared": counters.get("steps", 0), "simulations_in_histories": counters.get("sims", 0),
           "simulations_compared_with_fresh_model": counters.get("fresh_cmp", 0), "refusals_replayed": counters.get("refusals", 0),
           "final_mode_checks": counters.get("final_modes", 0), "design_level_drift": counters.get("drift", 0),
           "histories_skipped_by_watchdog": counters.get("skipped", 0),
           "observations_not_judged": counters.get("obs", {}), "histories_cut_at_an_unjudged_step": counters.get("stopped", 0),
           "simulations_through_rebound_interface_not_judged": counters.get("not_judged_sims", 0),
           "checker_cmd": "tlc LifecycleGen (INVARIANTS %s; PROPERTIES %s; VIEW View)" % (" ".join(INVS), " ".join(PROPS))}
    common.write_evidence(PROP, tier, cov, time.time() - t0, len(v.alarms) + sum(v.known_hit.values()),
                          assumptions=["simulation outputs are compared between the history object and a model built at once from the SPEC's definition record (the property is relational); rows bitwise for seeded stochastic modes, 1e-12 for the integrator",
                                       "an interface used after its model was re-initialised (accepted by check_interface, stale arrays) is outside the claim and not generated",
                                       "what an interface built BEFORE an edit does when it is used (plain simulators refuse it, the lineage simulators do not check) and whether a once-used interface keeps sharing the parameter array (the deterministic simulator re-binds it when the model has rules) are observations, counted and not judged: the property compares through the model / freshly built interfaces",
                                       "values written by a rule into a parameter are unconstrained (Dirty); such models are only checked for 'nothing else changes'",
                                       "the order in which ONE call introduces several new parameters is design level (sympy's traversal) and counted as drift"])
    return rc


def replay(path):
    case = json.load(open(path))["case"]
    if "reseed_seed" in case:
        res = pool.run_jobs("c08", "impl_reseed", [{"seeds": [case["reseed_seed"]]}], nworkers=1)[0]
        print(json.dumps(res, indent=1)[:2000])
        if "crash" in res or not res["out"][0].get("ok"):
            print("VIOLATION property=%s replay=%s" % (PROP, path))
            return 1
        return 0
    menu = get_menu()
    res = pool.run_jobs("c08", "impl_replay", [{"menu": menu, "recs": [case["rec"]], "final": True}], nworkers=1)[0]
    print(json.dumps(res, indent=1)[:4000])
    if "crash" in res or not res["out"][0].get("ok"):
        print("VIOLATION property=%s replay=%s" % (PROP, path))
        return 1
    return 0
