"""C02 - rate and rule expressions evaluate to their mathematical meaning.

(M) spec/Expr.tla + ExprGen.tla: expression trees with a compositional exact meaning (rationals and
    symbolic exp/ln atoms), built by a postfix stack machine.  TLC checks on every reachable entry that
    the machine's compositional values are the recursive meaning, that volume = 1 reads like no volume,
    algebraic identities of every operator, and that the symbolic derivative D evaluates to the first
    Taylor coefficient of an independent power-series arithmetic.
(G) every tree of depth <= 1 over the full leaf/operator alphabet (two environments), a hash sample
    of ALL trees of depth <= 2 over one leaf per class (the rest of them are only model-checked),
    and random trees of depth <= 5 with random environments are rendered in several concrete spellings
    and evaluated through five access paths of the real code; a tree with an unknown name or an
    unsupported function must be refused at parse time or when the model is built.
"""
import concurrent.futures as cf
import json
import math
import os
import time

from .. import common, pool
from ..rat import f, symval

PROP = "C02"


def _nw():
    """worker budget (TLC workers / pool processes); VERIF_WORKERS caps it on a shared machine"""
    return max(2, int(os.environ.get("VERIF_WORKERS", common.NCPU)))

PATHS = ("parse_expression", "parse_general_expression", "general_propensity", "assignment_rule", "growth_law",
         # the same string compiled a second time, in the same process, for a model that declares the same
         # species in the opposite order (ExprGen.DeclarationOrder: the meaning is attached to names, not positions)
         "parse_expression@redeclared", "general_propensity@redeclared", "assignment_rule@redeclared",
         # the expression as the right-hand side of an assignment rule whose target is a PARAMETER
         "assignment_rule_parameter",
         # ... and of an assignment rule with frequency 'dt' (executed on a rule step)
         "assignment_rule_dt")

# identifier pools: underscores, digits, and the single letters that collide with sympy constants, each of
# them once as a species and once as a parameter
NAMEMAPS = [
    {"sp": ["A", "B_1", "x2"], "par": ["k1", "k_2", "p3x"]},
    {"sp": ["C", "O", "Q"], "par": ["N", "I", "E"]},
    {"sp": ["N", "I", "E"], "par": ["S", "C", "O"]},
    {"sp": ["S", "x2", "A"], "par": ["Q", "k1", "B_1"]},
]
# (name map, style, leading-underscore parameter spelling)
VARIANTS = [(0, 0, False), (1, 1, False), (2, 2, False), (3, 1, True), (0, 2, True), (1, 0, False), (2, 1, False), (3, 0, False)]
STYLES = [
    {"full": True, "sp": " ", "pow": "^", "step": "Heaviside", "dec": False, "cap": False},
    {"full": False, "sp": "", "pow": "**", "step": "heaviside", "dec": True, "cap": True},
    {"full": True, "sp": "", "pow": "^", "step": "heaviside", "dec": True, "cap": False},
]
UNSUP_INFIX = {"lt": "<", "ge": ">="}


# --------------------------------------------------------------------------- rendering (pure python)

def _terminating(d):
    for p in (2, 5):
        while d % p == 0:
            d //= p
    return d == 1


def _num(q, st):
    """-> (text, precedence).  precedence: 1 add/sub, 2 mul/div, 3 unary minus, 4 power, 5 atom"""
    n, d = int(q[0]), int(q[1])
    if d == 1:
        return (str(n), 5) if n >= 0 else (str(n), 3)
    if st["dec"] and _terminating(d):
        s = repr(n / d)
        return (s, 5) if n >= 0 else (s, 3)
    return ("%d/%d" % (n, d), 2)


def render(e, names, st, underscore):
    """Concrete spelling of a tree.  Full style parenthesises every composite; the minimal style relies on the
    usual precedence (power binds tighter than unary minus, right-associative; * / left-associative)."""
    sp = st["sp"]

    def par(tp, need):
        s, p = tp
        return "(" + s + ")" if (st["full"] and p < 5) or p < need else s

    def go(e):
        k = e["k"]
        if k == "num":
            return _num(e["q"], st)
        if k == "sp":
            return names["sp"][e["i"] - 1], 5
        if k == "par":
            return ("_" if underscore else "") + names["par"][e["i"] - 1], 5
        if k == "t":
            return "t", 5
        if k == "vol":
            return "volume", 5
        if k == "unknown":
            return e["s"], 5
        a = e["a"]
        if k == "unsup":
            if e["s"] in UNSUP_INFIX:
                return "(" + par(go(a[0]), 2) + sp + UNSUP_INFIX[e["s"]] + sp + par(go(a[1]), 2) + ")", 5
            return e["s"] + "(" + go(a[0])[0] + ")", 5
        if k == "neg":
            return "-" + par(go(a[0]), 3), 3
        if k in ("exp", "log"):
            return k + "(" + go(a[0])[0] + ")", 5
        if k == "abs":
            return ("Abs" if st["cap"] else "abs") + "(" + go(a[0])[0] + ")", 5
        if k == "step":
            return st["step"] + "(" + go(a[0])[0] + ")", 5
        if k in ("min", "max"):
            return (k.capitalize() if st["cap"] else k) + "(" + go(a[0])[0] + "," + sp + go(a[1])[0] + ")", 5
        x, y = go(a[0]), go(a[1])
        if k == "add":
            return par(x, 1) + sp + "+" + sp + par(y, 1), 1
        if k == "sub":
            return par(x, 1) + sp + "-" + sp + par(y, 2), 1
        if k == "mul":
            return par(x, 2) + sp + "*" + sp + par(y, 2), 2
        if k == "div":
            return par(x, 2) + sp + "/" + sp + par(y, 3), 2
        if k == "pow":
            return par(x, 5) + st["pow"] + par(y, 3), 4
        raise ValueError(k)

    return go(e)[0]


def tree_size(e):
    return 1 + sum(tree_size(a) for a in e.get("a", []))


def tree_kinds(e, out=None):
    out = set() if out is None else out
    out.add(e["k"] if e["k"] != "unsup" else "unsup:" + e["s"])
    for a in e.get("a", []):
        tree_kinds(a, out)
    return out


def sv_float(sv):
    """SVSeq form [[atom, coef], ...] -> (float, scale)"""
    terms = [[t[1], [] if t[0][0] == "one" else [[t[0][0], t[0][1]]]] for t in sv]
    val = symval(terms)
    scale = sum(abs(symval([t])) for t in terms)
    return val, scale


def make_case(rec, variant):
    nm, sty, us = variant
    names = NAMEMAPS[nm]
    s = render(rec["e"], names, STYLES[sty], us)
    env = rec["env"]
    case = {"s": s, "sp": names["sp"], "par": names["par"], "x": [f(q) for q in env["x"]], "p": [f(q) for q in env["p"]],
            "t": f(env["t"]), "V": f(env["V"]), "rej": rec["out"] == "rejected", "variant": list(variant)}
    if not case["rej"]:
        case["E"], case["Es"] = sv_float(rec["val"])
        case["W"], case["Ws"] = sv_float(rec["vol"])
        case["dt"] = 1.0 / max(1.0, abs(case["E"]))
    else:
        case["dt"] = 1.0
    return case


# --------------------------------------------------------------------------- implementation side (worker)

_BASE = {}


def _base_model(sp, par):
    from bioscrape.types import Model
    key = (tuple(sp), tuple(par))
    if key not in _BASE:
        _BASE[key] = Model(species=list(sp), parameters=[(n, 1.0) for n in par], initial_condition_dict={n: 0.0 for n in sp})
    return _BASE[key]


def _exc(e):
    return {"exc": "%s: %s" % (type(e).__name__, str(e)[:160])}


def _vectors(s2i, p2i, case):
    import numpy as np
    st = np.zeros(len(s2i))
    for n, v in zip(case["sp"], case["x"]):
        st[s2i[n]] = v
    pv = np.full(len(p2i), np.nan)
    for n, v in zip(case["par"], case["p"]):
        pv[p2i[n]] = v
    return st, pv


def _model(case, reaction, rule, redeclared=False):
    from bioscrape.types import Model
    return Model(species=(["RRX", "OUTX"] + list(reversed(case["sp"]))) if redeclared else (list(case["sp"]) + ["OUTX", "RRX"]),
                 parameters=[(n, 1.0) for n in case["par"]],
                 reactions=[([], ["OUTX"], "general", {"rate": case["s"]})] if reaction else [],
                 rules=[("assignment", {"equation": "RRX = " + case["s"]})] if rule else [],
                 initial_condition_dict=dict({n: 0.0 for n in case["sp"]}, OUTX=0.0, RRX=0.0))


def _eval_prop(m, case):
    st, pv = _vectors(m.get_species2index(), m.get_params2index(), case)
    pr = m.get_propensities()[0]
    return [float(pr.py_get_propensity(st, pv, case["t"])), float(pr.py_get_volume_propensity(st, pv, case["V"], case["t"])),
            type(pr).__name__]


def _eval_rule(m, case):
    from bioscrape.simulator import ModelCSimInterface
    s2i = m.get_species2index()
    st, pv = _vectors(s2i, m.get_params2index(), case)
    itf = ModelCSimInterface(m)
    itf.py_set_param_values(pv)
    a = st.copy()
    itf.py_apply_repeated_rules(a, case["t"], True)
    b = st.copy()
    itf.py_apply_repeated_volume_rules(b, case["V"], case["t"], True)
    return [float(a[s2i["RRX"]]), float(b[s2i["RRX"]])]


def eval_case(case):
    import numpy as np
    from bioscrape.types import parse_expression, StateDependentVolume
    obs = {}
    sp2i = {n: i for i, n in enumerate(case["sp"])}
    p2i = {n: i for i, n in enumerate(case["par"])}
    x, p = np.array(case["x"], dtype=float), np.array(case["p"], dtype=float)
    try:
        term = parse_expression(case["s"], sp2i, p2i)
        obs[PATHS[0]] = [float(term.py_evaluate(x, p, case["t"])), float(term.py_volume_evaluate(x, p, case["V"], case["t"]))]
    except Exception as e:  # noqa
        obs[PATHS[0]] = _exc(e)
    try:
        base = _base_model(case["sp"], case["par"])
        st, pv = _vectors(base.get_species2index(), base.get_params2index(), case)
        term = base.parse_general_expression(case["s"])
        obs[PATHS[1]] = [float(term.py_evaluate(st, pv, case["t"])), float(term.py_volume_evaluate(st, pv, case["V"], case["t"]))]
    except Exception as e:  # noqa
        obs[PATHS[1]] = _exc(e)
    # one model with the expression as a general propensity and as an assignment rule; if it cannot be
    # built, one model each so that the refusing path is known
    try:
        m = _model(case, True, True)
        both = True
    except Exception:  # noqa
        both = False
    for path, (rx, ru), fn in ((PATHS[2], (True, False), _eval_prop), (PATHS[3], (False, True), _eval_rule)):
        try:
            mm = m if both else _model(case, rx, ru)
            obs[path] = fn(mm, case)
        except Exception as e:  # noqa
            obs[path] = _exc(e)
    # second compilation of the same string with the species declared in the opposite order
    try:
        n = len(case["sp"])
        term = parse_expression(case["s"], {nm: n - 1 - i for i, nm in enumerate(case["sp"])}, p2i)
        obs[PATHS[5]] = [float(term.py_evaluate(x[::-1].copy(), p, case["t"])), float(term.py_volume_evaluate(x[::-1].copy(), p, case["V"], case["t"]))]
    except Exception as e:  # noqa
        obs[PATHS[5]] = _exc(e)
    try:
        m2 = _model(case, True, True, redeclared=True)
        both2 = True
    except Exception:  # noqa
        both2 = False
    for path, (rx, ru), fn in ((PATHS[6], (True, False), _eval_prop), (PATHS[7], (False, True), _eval_rule)):
        try:
            mm = m2 if both2 else _model(case, rx, ru, redeclared=True)
            obs[path] = fn(mm, case)
        except Exception as e:  # noqa
            obs[path] = _exc(e)
    try:
        from bioscrape.types import Model as _Model
        from bioscrape.simulator import ModelCSimInterface as _Itf
        mp = _Model(species=list(case["sp"]), parameters=[(n, 1.0) for n in case["par"]] + [("PRX", 0.0)],
                    rules=[("assignment", {"equation": "PRX = " + case["s"]})], initial_condition_dict={n: 0.0 for n in case["sp"]})
        p2i = mp.get_params2index()
        st, pv = _vectors(mp.get_species2index(), p2i, dict(case, par=list(case["par"]) + ["PRX"], p=list(case["p"]) + [0.0]))
        vals = []
        for volume_form in (False, True):
            itf = _Itf(mp)
            itf.py_set_param_values(pv.copy())
            a_ = st.copy()
            if volume_form:
                itf.py_apply_repeated_volume_rules(a_, case["V"], case["t"], True)
            else:
                itf.py_apply_repeated_rules(a_, case["t"], True)
            vals.append(float(itf.py_get_param_values()[p2i["PRX"]]))
        obs[PATHS[8]] = vals
    except Exception as e:  # noqa
        obs[PATHS[8]] = _exc(e)
    try:
        from bioscrape.types import Model as _Model2
        from bioscrape.simulator import ModelCSimInterface as _Itf2
        md = _Model2(species=list(case["sp"]) + ["RRX"], parameters=[(n, 1.0) for n in case["par"]],
                     rules=[("assignment", {"equation": "RRX = " + case["s"]}, "dt")], initial_condition_dict=dict({n: 0.0 for n in case["sp"]}, RRX=0.0))
        s2i_d = md.get_species2index()
        st, pv = _vectors(s2i_d, md.get_params2index(), case)
        itf = _Itf2(md)
        itf.py_set_param_values(pv)
        a_ = st.copy()
        itf.py_apply_repeated_rules(a_, case["t"], True)
        b_ = st.copy()
        itf.py_apply_repeated_volume_rules(b_, case["V"], case["t"], True)
        obs[PATHS[9]] = [float(a_[s2i_d["RRX"]]), float(b_[s2i_d["RRX"]])]
    except Exception as e:  # noqa
        obs[PATHS[9]] = _exc(e)
    try:
        base = _base_model(case["sp"], case["par"])
        st, pv = _vectors(base.get_species2index(), base.get_params2index(), case)
        vol = StateDependentVolume()
        vol.setup(2.0, 0.1, case["s"], base)
        V0 = 3.0
        step = float(vol.py_get_volume_step(st, pv, case["t"], V0, case["dt"]))
        obs[PATHS[4]] = [math.log1p(step / V0) / case["dt"] if step / V0 > -1 else float("nan")]
    except Exception as e:  # noqa
        obs[PATHS[4]] = _exc(e)
    return obs


def impl_eval(job):
    import warnings
    import numpy as np
    warnings.simplefilter("ignore")
    np.seterr(all="ignore")
    return {"obs": [eval_case(c) for c in job["cases"]]}


# --------------------------------------------------------------------------- judging

def _close(got, want, scale):
    if got is None or isinstance(got, str) or math.isnan(got) or math.isinf(got):
        return False
    return abs(got - want) <= 1e-9 * abs(want) + 1e-12 + 1e-13 * scale


def _refusal_class(msg, underscore):
    """names the class of a refused valid expression from the way it is refused"""
    import re
    if underscore and re.search(r"Unspecified Parameters: _", msg):
        return "underscore-name"
    m = re.search(r"This should be a number: .*?\b([A-Za-z_]\w*)\(", msg)
    if m:
        return "parser-rewrite-to-" + m.group(1)      # the parser rewrote the formula with a function the code does not know
    if "unable to parse" in msg:
        return "unparsable"
    return "other-" + msg.split(":")[0]


def judge(rec, case, obs):
    """-> list of (class, path, detail, text) for every failing path of the case"""
    bad = []
    kinds = tree_kinds(rec["e"])
    for path in PATHS:
        o = obs.get(path)
        if o is None:
            bad.append(("no-observation", path, "", "no observation"))
            continue
        if case["rej"]:
            if isinstance(o, dict):
                continue
            what = "+".join(sorted(k for k in kinds if k == "unknown" or k.startswith("unsup")))
            bad.append(("accepted-invalid", path, what, "'%s' was given the value %r instead of being refused" % (case["s"], o[0])))
            continue
        if isinstance(o, dict):
            nm, sty, us = case["variant"]
            feat = _refusal_class(o["exc"], us and "par" in kinds)
            bad.append(("rejected-valid", path, feat, "'%s' is refused: %s" % (case["s"], o["exc"])))
            continue
        special = "+".join(sorted(kinds - {"num", "sp", "par"}))
        if path == "growth_law":
            if not (_close(o[0], case["E"], case["Es"]) or (rec["hasvol"] and _close(o[0], case["W"], case["Ws"]))):
                bad.append(("wrong-value", path, special, "growth law '%s' grows at %r, the formula gives %r" % (case["s"], o[0], case["E"])))
            continue
        if not _close(o[0], case["E"], case["Es"]):
            bad.append(("wrong-value", path + ":plain", special, "'%s' evaluates to %r, the formula gives %r (x=%s p=%s t=%s)" % (
                case["s"], o[0], case["E"], case["x"], case["p"], case["t"])))
        if not _close(o[1], case["W"], case["Ws"]):
            bad.append(("wrong-value", path + ":volume", special, "'%s' evaluates to %r at volume %s, the formula gives %r (x=%s p=%s t=%s)" % (
                case["s"], o[1], case["V"], case["W"], case["x"], case["p"], case["t"])))
    return bad


# --------------------------------------------------------------------------- the check

def _cfg(name, mode, depth, stack, leaves, un, bi, envs, k, r, invs=("Compositional", "UnitVolume", "Algebra", "DerivJet", "DeclarationOrder", "Emit")):
    return common.make_cfg(name, spec="Spec",
                           constants={"Mode": '"%s"' % mode, "MaxDepth": str(depth), "MaxStack": str(stack),
                                      "Leaves": ("<-", leaves), "UnChoice": ("<-", un), "BinChoice": ("<-", bi),
                                      "EnvSet": ("<-", envs), "SampleK": str(k), "SampleR": str(r)},
                           invariants=list(invs))


def run(tier):
    t0 = time.time()
    v = common.Verdict(PROP)
    seed = common.seed()
    quick = tier == "quick"
    k2 = 60 if quick else 8
    cfg1 = _cfg("expr_exh1", "exh", 1, 2, "LeavesFull", "UnAll", "BinAll", "ExhEnvs", 1, 0)
    cfg2 = _cfg("expr_exh2", "exh", 2, 3, "LeavesSmall" if quick else "LeavesSmallT", "UnOps", "BinOps", "ExhEnv1", k2, seed % k2)
    cfg3 = _cfg("expr_sim", "sim", 5, 4, "LeavesFull", "UnAll", "BinAll", "ExhEnvs", 1, 0)
    nsim = 8000 if quick else 120000
    w2 = max(2, _nw() - 4)
    with cf.ThreadPoolExecutor(max_workers=3) as ex:
        f1 = ex.submit(common.run_tlc, "ExprGen", cfg1, workers=1, allow_violation=True, keep_stdout=False)
        f2 = ex.submit(common.run_tlc, "ExprGen", cfg2, workers=w2, allow_violation=True, keep_stdout=False)
        f3 = ex.submit(common.run_tlc_many, "ExprGen", cfg3, 3, nsim, 60, seed, allow_violation=True)
        r1, r2, r3 = f1.result(), f2.result(), f3.result()
    for nm, r in (("depth<=1", r1), ("depth<=2", r2), ("random depth<=5", r3)):
        if r.violated:
            v.violation("spec:" + r.violated, "TLC refuted %s on Expr/ExprGen (%s)" % (r.violated, nm), {"tlc_tail": r.stdout[-3000:]})
    t_tlc = time.time() - t0
    groups = [("exh1", r1.records, 2), ("exh2", r2.records, 1), ("sim", r3.records, 2)]
    recs, cases = [], []
    for gname, rs, nvar in groups:
        for i, rec in enumerate(rs):
            rec["src"] = gname
            for j in range(nvar):
                variant = VARIANTS[(i * 3 + j * 5 + seed) % len(VARIANTS)]
                recs.append(rec)
                cases.append(make_case(rec, variant))
    idx = list(range(len(cases)))
    jobs = [{"cases": [cases[i] for i in ch]} for ch in pool.chunks(idx, 60)]
    results = pool.run_jobs("c02", "impl_eval", jobs, nworkers=_nw())
    failing = {}
    n_eval = 0
    per_path = {p: 0 for p in PATHS}
    k = 0
    for job, res in zip(jobs, results):
        if "harness_exception" in res:
            raise common.MachineryError("C02 harness failed: %s\n%s" % (res["harness_exception"], res.get("tb", "")))
        if "crash" in res:
            v.violation("crash", "worker died with status %s while evaluating expressions" % res["crash"], {"cases": job["cases"][:5]})
            k += len(job["cases"])
            continue
        for case, obs in zip(job["cases"], res["obs"]):
            rec = recs[k]
            k += 1
            for p in PATHS:
                per_path[p] += 1
            n_eval += len(PATHS)
            for cls, path, detail, text in judge(rec, case, obs):
                size = tree_size(rec["e"])
                cur = failing.setdefault((cls, path, "" if cls == "wrong-value" else detail), {"n": 0, "size": 10 ** 9})
                cur["n"] += 1
                if size < cur["size"]:
                    cur.update(size=size, detail=detail, text=text, rec=rec, case=case, obs=obs)
    refused_valid = {}
    for (cls, path, _d), fl in sorted(failing.items()):
        if cls == "rejected-valid":
            # a valid expression that is REFUSED when parsed / built is never given a wrong value: C02 does not
            # forbid it.  Recorded as an observation (evidence), not reported as a violation.
            refused_valid["%s:%s" % (fl["detail"], path)] = {"cases": fl["n"], "sample": fl["case"]["s"], "refusal": fl["obs"][path]["exc"][:120]}
            continue
        v.violation("%s:%s:%s" % (cls, fl["detail"], path), "%s [%d failing cases; smallest shown]" % (fl["text"], fl["n"]),
                    {"rec": {kk: fl["rec"][kk] for kk in fl["rec"] if kk != "src"}, "variant": fl["case"]["variant"], "obs": fl["obs"]})
    rc = v.finish()
    nrej = sum(1 for r in recs if r["out"] == "rejected")
    depth_hist = {}
    for gname, rs, _ in groups:
        for rec in rs:
            depth_hist[str(rec["d"])] = depth_hist.get(str(rec["d"]), 0) + 1
    sample = cases[len(cases) // 2]
    cov = {"states": r1.distinct + r2.distinct + r3.distinct, "transitions": r1.generated + r2.generated + r3.generated,
           "traces_validated_against_impl": len(r1.records) + len(r2.records) + len(r3.records),
           "samples": [{"expression": sample["s"], "x": sample["x"], "p": sample["p"], "t": sample["t"], "V": sample["V"],
                        "expected": "rejected" if sample["rej"] else [sample["E"], sample["W"]]},
                       {"tree": r3.records[0]["e"] if r3.records else None}],
           "exhaustive": True,
           "trees_depth_le1_full_alphabet": len(r1.records), "trees_depth_le2_model_checked_states": r2.distinct,
           "trees_depth_le2_replayed_sample": len(r2.records), "trees_random_depth_le5": len(r3.records),
           "trees_by_depth": depth_hist, "renderings_evaluated": len(cases), "expected_rejections": nrej,
           "rejected_valid_expressions": refused_valid,
           "implementation_evaluations": n_eval, "evaluations_per_path": per_path, "tlc_wall_s": round(t_tlc, 1),
           "checker_cmd": " ; ".join([r1.cmd, r2.cmd, r3.cmd])}
    common.write_evidence(PROP, tier, cov, time.time() - t0, len(v.alarms) + sum(v.known_hit.values()),
                          assumptions=["exp/log are applied to rational-valued subtrees and transcendental values are combined linearly (plus products/powers of c*exp(q) monomials); nested transcendentals are not generated",
                                       "abs/Heaviside/min/max take rational-valued operands; Heaviside arguments stay >= 1/1000 away from 0",
                                       "rejected trees carry exactly one unknown name / unsupported function in a position where no algebraic simplification removes it",
                                       "depth-2 trees over the full leaf alphabet are model-checked over one leaf per class and replayed as a hash sample",
                                       "a growth law mentioning 'volume' may read it as 1 or as the current volume"])
    return rc


def replay(path):
    case_file = json.load(open(path))["case"]
    if "rec" not in case_file:
        print(json.dumps(case_file, indent=1)[:3000])
        return 1
    rec = case_file["rec"]
    case = make_case(rec, tuple(case_file["variant"]))
    res = pool.run_jobs("c02", "impl_eval", [{"cases": [case]}], nworkers=1)[0]
    bad = judge(rec, case, res["obs"][0])
    print(json.dumps({"expression": case["s"], "obs": res["obs"][0], "failing": [b[:3] + (b[3],) for b in bad]}, indent=1))
    if bad:
        print("VIOLATION property=%s replay=%s" % (PROP, path))
        return 1
    return 0
