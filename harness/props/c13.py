"""C13 - an imported SBML file has the semantics of the SBML document.

(M) spec/Sbml.tla + SbmlDoc.tla: plain documents are constructed by actions (species with amount and/or
    concentration, globals, reactions with stoichiometries 1..3, modifiers, kinetic laws, local parameters
    that collide with a global / another reaction's local - with a different OR THE SAME value - or are
    unused, assignment rules (also on a global parameter that a kinetic law reads) and rate rules in any
    order and number); Import gives them SBML L3 meaning with explicit environments.  TLC checks the
    scoping lemma (renaming a local apart preserves the meaning), that a one-namespace flattening refines
    it, rule-order independence, sequential = simultaneous assignment, and that a rate rule contributes
    its formula once to its variable only.
(G) every document is written WITH LIBSBML DIRECTLY (no bioscrape code), imported with
    Model(sbml_filename=...), and compared with the spec's meaning: species and global-parameter values,
    update arrays by species name, get_rules(), the state after the repeated assignments and the net
    rate equations (ModelCSimInterface) at rational probe states; then every global is re-tuned with
    set_params and the rate equations are probed again (locals must not move).
"""
import json
import os
import time

from .. import common, pool

PROP = "C13"
W = int(os.environ.get("VERIF_WORKERS", str(common.NCPU)))


def _context(doc):
    """input class of a document: do local names collide, and the pattern of rule kinds (A / R)."""
    gl = {p["id"] for p in doc["params"]}
    seen, collide = set(), False
    for rx in doc["rx"]:
        for lp in rx["locals"]:
            if lp["id"] in gl or lp["id"] in seen:
                collide = True
        seen |= {lp["id"] for lp in rx["locals"]}
    pat = "".join("A" if ru["kind"] == "assignment" else "R" for ru in doc["rules"]) or "-"
    return ("colliding-locals" if collide else "plain-locals" if seen else "no-locals"), pat


def _rename(o, mp):
    """the same record with some identifiers spelled differently (ids are abstract names in SbmlDoc.tla)"""
    if isinstance(o, str):
        return mp.get(o, o)
    if isinstance(o, list):
        return [_rename(x, mp) for x in o]
    if isinstance(o, dict):
        return {mp.get(k, k): _rename(v, mp) for k, v in o.items()}
    return o


def _one(rec, alt_ids=False):
    import shutil
    if alt_ids:
        # parameter q is spelled "kq": an identifier that CONTAINS the ids of the parameters k and q's namesakes
        rec = _rename(rec, {"q": "kq"})
    import tempfile
    import numpy as np
    from bioscrape.types import Model
    from bioscrape.simulator import ModelCSimInterface
    from ..sbmlmodel import write_doc, freq_class
    from ..rat import f, close
    from ..build import sname
    doc, ns, exp = rec["doc"], rec["ns"], rec["exp"]
    names = [sname(i + 1) for i in range(ns)]
    loc, pat = _context(doc)
    bad = []
    tmp = tempfile.mkdtemp(prefix="verif_c13_")
    try:
        path = os.path.join(tmp, "doc.xml")
        write_doc(doc, path)
        try:
            m = Model(sbml_filename=path)
        except BaseException as e:  # noqa
            return {"bad": [["import-exception:%s" % type(e).__name__, "%s,%s" % (loc, pat), repr(e)[:300]]], "n": 0}
        sd = {k: float(v) for k, v in m.get_species_dictionary().items()}
        s2i = m.get_species2index()
        if set(sd) != set(names):
            bad.append(["species-set", pat, "species %r, document declares %r" % (sorted(sd), names)])
            return {"bad": bad, "n": 0}
        kinds = {sp["id"]: ("amount+concentration" if sp["hasAmt"] and sp["hasConc"] else "amount" if sp["hasAmt"] else
                            "concentration" if sp["hasConc"] else "unset") for sp in doc["species"]}
        for i, s in enumerate(names):
            if not close(sd[s], f(exp["init"][i])):
                bad.append(["species-initial-value", kinds[s], "%s = %r, document says %r" % (s, sd[s], f(exp["init"][i]))])
        pd = {k: float(v) for k, v in m.get_parameter_dictionary().items()}
        gp = exp["par"] if isinstance(exp["par"], dict) else {}
        for k, v in gp.items():
            if k not in pd:
                bad.append(["global-parameter", "missing", "global parameter %s is not a parameter of the model" % k])
            elif not close(pd[k], f(v)):
                bad.append(["global-parameter", "value:" + loc, "%s = %r, document says %r" % (k, pd[k], f(v))])
        U, D = m.py_get_update_array(), m.py_get_delay_update_array()
        nrx, nrate = len(doc["rx"]), exp["nrate"]
        cols = [[int(U[s2i[s], r]) for s in names] for r in range(U.shape[1])]
        for r in range(min(nrx, len(cols))):
            if cols[r] != exp["stoich"][r]:
                bad.append(["stoichiometry", "reaction", "reaction %d changes %r, document says %r" % (r, cols[r], exp["stoich"][r])])
        if np.any(D != 0):
            bad.append(["stoichiometry", "delayed", "a plain document produced delayed updates"])
        # the two structural symptoms of rule_type / rule_rxn being carried over between rules
        rate_vars = [ru["var"] for ru in doc["rules"] if ru["kind"] == "rate"]
        rules = m.get_rules()
        got_targets = [rt[1].get("equation", "").split("=")[0].strip() for rt in rules]
        exp_targets = sorted(a["target"] for a in exp["assigned"])
        structural = False
        extra = list(got_targets)
        for t in exp_targets:
            if t in extra:
                extra.remove(t)
        if extra and all(t in rate_vars for t in extra):
            structural = True
            bad.append(["rate-rule-after-assignment", "", "rules %s: rate rule(s) on %s were ALSO imported as assignment rule(s): get_rules() = %r" % (
                pat, extra, [(rt[0], rt[1].get("equation")) for rt in rules])])
        elif sorted(got_targets) != exp_targets:
            bad.append(["assignment-rules", pat, "assignment rules on %r, document has %r" % (sorted(got_targets), exp_targets)])
        for rt in rules:
            fq = rt[2] if len(rt) > 2 else "repeated"
            if rt[0] != "assignment" or freq_class(fq)[0] != "repeat":
                bad.append(["assignment-rules", "kind", "rule %r imported as %s with frequency %r (must be a repeated assignment)" % (rt[1], rt[0], fq)])
        if len(cols) != nrx + nrate:
            rr_cols = cols[nrx:]
            unit = [[1 if s == v else 0 for s in names] for v in rate_vars]
            if len(cols) > nrx + nrate and all(c in unit for c in rr_cols):
                structural = True
                bad.append(["rule-after-rate-rule", "", "rules %s: %d rate rule(s) became %d source reactions (a rate-rule reaction was appended again): extra columns %r" % (
                    pat, nrate, len(rr_cols), rr_cols)])
            else:
                bad.append(["reaction-count", pat, "%d reaction columns for %d reactions and %d rate rules" % (len(cols), nrx, nrate)])
        n = 0
        if not structural:
            itf = ModelCSimInterface(m)
            itf.py_prep_deterministic_simulation()
            for i, xx in enumerate(rec["X"]):
                x = np.zeros(ns)
                for k, s in enumerate(names):
                    x[s2i[s]] = f(xx[k])
                itf.py_apply_repeated_rules(x, 0.0, True)
                for k, s in enumerate(names):
                    if not close(float(x[s2i[s]]), f(exp["post"][i][k])):
                        bad.append(["assignment-value", pat, "probe %d: %s = %r after the assignment rules, document says %r" % (i, s, float(x[s2i[s]]), f(exp["post"][i][k]))])
                dx = np.zeros(ns)
                itf.py_calculate_deterministic_derivative(x, dx, 0.0)
                for k, s in enumerate(names):
                    n += 1
                    if not close(float(dx[s2i[s]]), f(exp["deriv"][i][k])):
                        bad.append(["derivative", "%s,%s" % (loc, pat), "probe %d: d%s/dt = %r, stoichiometry x kinetic law + rate rules give %r" % (
                            i, s, float(dx[s2i[s]]), f(exp["deriv"][i][k]))])
            # the user re-tunes one global parameter of the imported model: reactions that read the global follow,
            # a local parameter (whatever its name and value) binds only in its reaction and must not move
            for rt in (rec.get("retune") or []):
                if rt["id"] not in pd:
                    continue
                m.set_params({rt["id"]: f(rt["val"])})
                try:
                    for i, xx in enumerate(rec["X"]):
                        x = np.zeros(ns)
                        for k, s in enumerate(names):
                            x[s2i[s]] = f(xx[k])
                        itf.py_apply_repeated_rules(x, 0.0, True)
                        dx = np.zeros(ns)
                        itf.py_calculate_deterministic_derivative(x, dx, 0.0)
                        for k, s in enumerate(names):
                            n += 1
                            if not close(float(dx[s2i[s]]), f(rt["deriv"][i][k])):
                                bad.append(["derivative-after-set_params", "%s,%s" % (loc, pat), "after set_params({%s: %r}) probe %d: d%s/dt = %r, the document with that global value gives %r" % (
                                    rt["id"], f(rt["val"]), i, s, float(dx[s2i[s]]), f(rt["deriv"][i][k]))])
                finally:
                    m.set_params({rt["id"]: pd[rt["id"]]})
    finally:
        shutil.rmtree(tmp, ignore_errors=True)
    return {"bad": bad[:30], "n": n}


def impl_import(job):
    return {"out": [_one(rec, alt_ids=(i % 2 == 1)) for i, rec in enumerate(job["recs"])]}


def tlc_runs(tier):
    inv = ["Scoping", "Flattening", "RuleOrder", "SeqSim", "RateRuleOnce", "Emit"]
    runs = []
    cfg = common.make_cfg("sbmldoc_exhrx", spec="Spec", constants={"NS": "3", "MaxRx": "1", "MaxRules": "0", "Mode": '"exhrx"'}, invariants=inv)
    runs.append(("exhrx", common.run_tlc("SbmlDoc", cfg, workers=min(W, 8), allow_violation=True, keep_stdout=False)))
    cfg = common.make_cfg("sbmldoc_exhrules", spec="Spec", constants={"NS": "4", "MaxRx": "2", "MaxRules": "3", "Mode": '"exhrules"'}, invariants=inv)
    runs.append(("exhrules", common.run_tlc("SbmlDoc", cfg, workers=min(W, 8), allow_violation=True, keep_stdout=False)))
    nsim = 720 if tier == "quick" else 20000
    cfg = common.make_cfg("sbmldoc_sim", spec="Spec", constants={"NS": "4", "MaxRx": "3", "MaxRules": "3", "Mode": '"sim"'}, invariants=inv)
    runs.append(("sim", common.run_tlc_many("SbmlDoc", cfg, nproc=min(W, 6), simulate=nsim, depth=30, base_seed=common.seed() * 10 + 3,
                                            allow_violation=True)))
    return runs


def run(tier):
    t0 = time.time()
    v = common.Verdict(PROP)
    recs, states, trans, cmds, per_run = [], 0, 0, [], {}
    for name, r in tlc_runs(tier):
        if r.violated:
            v.violation("spec:" + r.violated, "TLC refuted %s on Sbml/SbmlDoc (%s)" % (r.violated, name), {"tlc_tail": r.stdout[-3000:]})
        recs += r.records
        per_run[name] = len(r.records)
        states += r.distinct
        trans += r.generated
        cmds.append(r.cmd)
    if not recs:
        raise common.MachineryError("C13: TLC produced no document")
    jobs = [{"recs": ch} for ch in pool.chunks(recs, 40)]
    results = pool.run_jobs("c13", "impl_import", jobs, nworkers=W)
    ok = nder = 0
    for job, res in zip(jobs, results):
        if "harness_exception" in res:
            raise common.MachineryError("C13 harness failed: %s\n%s" % (res["harness_exception"], res.get("tb", "")))
        if "crash" in res:
            v.violation("crash", "worker died with status %s" % res["crash"], {"rec": job["recs"][0]})
            continue
        for rec, got in zip(job["recs"], res["out"]):
            nder += got["n"]
            if not got["bad"]:
                ok += 1
            for b in got["bad"]:
                key = b[0] if not b[1] else "%s:%s" % (b[0], b[1])
                v.violation(key, b[2], {"rec": rec, "bad": b})
    rc = v.finish()
    pats, locs, kinds = {}, {}, {}
    for rec in recs:
        loc, pat = _context(rec["doc"])
        pats[pat] = pats.get(pat, 0) + 1
        locs[loc] = locs.get(loc, 0) + 1
        for sp in rec["doc"]["species"]:
            k = "%s%s" % ("A" if sp["hasAmt"] else "-", "C" if sp["hasConc"] else "-")
            kinds[k] = kinds.get(k, 0) + 1
    cov = {"states": states, "transitions": trans, "traces_validated_against_impl": ok,
           "samples": [recs[len(recs) // 2]["doc"], recs[-1]["doc"]], "exhaustive": True, "documents": len(recs), "documents_per_run": per_run,
           "derivative_components_compared": nder, "documents_by_rule_pattern": pats, "documents_by_local_parameters": locs,
           "species_by_initial_value_kind": kinds, "checker_cmd": " ; ".join(cmds)}
    common.write_evidence(PROP, tier, cov, time.time() - t0, len(v.alarms) + sum(v.known_hit.values()),
                          assumptions=["documents stay inside the documented subset: one compartment of size 1, ordinary species, no events / function definitions / initial assignments",
                                       "a rule variable is not changed by a reaction and has one rule; assignment maths do not read assigned variables (SBML forbids loops; chains are not generated)",
                                       "libsbml writes what the harness asks it to (the files are produced without any bioscrape code)",
                                       "derivatives are compared at three exactly representable states per document (rtol 1e-9)"])
    return rc


def replay(path):
    case = json.load(open(path))["case"]
    res = pool.run_jobs("c13", "impl_import", [{"recs": [case["rec"]]}], nworkers=1)[0]
    print(json.dumps(res, indent=1)[:6000])
    if "out" not in res or res["out"][0]["bad"]:
        print("VIOLATION property=%s replay=%s" % (PROP, path))
        return 1
    return 0
