"""C10 - delayed reactions deliver their delayed part exactly once, after the delay.

(M) spec/DelaySsa.tla: the delay loop (queue wins / skip / fire) with the three delay laws as
    transforms of their inputs (fixed; Box-Muller gaussian; Marsaglia-Tsang gamma incl. a rejected
    proposal); invariants D1 (every firing = immediate + queued, queued = delivered + pending; state =
    x0 + immediate columns of firings + delayed columns of deliveries), pending entries only ahead of
    the clock, D2 (the queued slot is the grid time nearest to t_fire + delay, asserted at every
    insertion), D3 (zero delay: delayed column applied at the firing itself).
(G) behaviours replayed through the scripted stream (exponential, selection and delay-sampler
    draws) into DelaySSASimulator.py_delay_simulate and py_simulate_model(delay=True): rows exact,
    the final queue drained and compared slot by slot with the spec's pending bag, draw count exact.
(T) seeded real runs of the same programs validated by TraceSsa.tla (queue accounting at every event).
"""
import json
import math
import time

from .. import common, pool
from ..rat import f
from ..build import build
from . import c06

PROP = "C10"


def _used_queue(nr, nt, dt, preload, reanchored=True):
    """A queue for a continued run: it holds the deliveries of `preload` (slot k = k*dt after the start).  When it holds
    any, it is a queue that has been in use: its ring was turned by a number of steps that is not a multiple of its
    length, the deliveries were entered relative to its clock, and the simulator re-anchors that clock - by DelayQueue.tla (the ring refines a
    bag of (time, reaction) entries) indistinguishable from a fresh queue with the same entries."""
    from bioscrape.simulator import ArrayDelayQueue
    q = ArrayDelayQueue.setup_queue(nr, nt, dt)
    turned = 0
    if preload and nt > 1:
        turned = 1 + (len(preload) + sum(k for k, _, _ in preload)) % (nt - 1)
        for _ in range(turned):
            q.py_advance_time()
    if turned and not reanchored:
        # the delay + volume simulator takes the queue's clock as it is: the caller sets it to the start time
        q.py_set_current_time(0.0)
        turned = 0
    for k, rr, c in preload:
        # the queue's clock stands at turned*dt; DelaySSASimulator sets it to the first requested time when it takes the queue
        q.py_add_reaction((turned + k) * dt, rr - 1, float(c))
    return q


def draws_for(steps):
    d = []
    for st in steps:
        if f(st["e"]) != 0.0:
            d.append(math.exp(-f(st["e"])))
        if st["a"] == "fire":
            d.append(f(st["u"]))
            for kind, q in st["dd"]:
                d.append(f(q) if kind == "u" else math.exp(-f(q)) if kind == "expneg" else 1e-12)
    return d


def impl_replay(job):
    import numpy as np
    from bioscrape.simulator import (ModelCSimInterface, SafeModelCSimInterface, DelaySSASimulator, ArrayDelayQueue,
                                     py_simulate_model)
    import bioscrape.random as brandom
    out = []
    for rec in job["recs"]:
        res = {"ok": True}
        try:
            nt, dt = rec["nt"], f(rec["dt"])
            tp = np.array([i * dt for i in range(nt)])
            if (rec.get("nt", 0) + len(rec.get("steps", []))) % 3 == 2:
                tp = np.repeat(tp, 2)[::2]      # the same grid as a non-contiguous view
            m, _ = build(rec["prog"], x0=[[v, 1] for v in rec["x0"]], ns=rec["ns"], via_ctor=job["via"] == 1)
            s2i = m.get_species2index()
            cols = [s2i["S%d" % (i + 1)] for i in range(rec["ns"])]
            nr = len(rec["prog"]["rx"])
            draws = draws_for(rec["steps"])
            brandom.py_verif_script(draws + [0.5] * 4)
            if job["via"] == 2 and not rec.get("preload"):
                r = py_simulate_model(tp, Model=m, stochastic=True, delay=True, safe=rec["safe"], return_dataframe=False)
            else:
                itf = SafeModelCSimInterface(m) if rec["safe"] else ModelCSimInterface(m)
                itf.py_set_dt(dt)
                q = _used_queue(nr, nt, dt, rec.get("preload", []))
                r = DelaySSASimulator().py_delay_simulate(itf, q, tp)
            used, _, under = brandom.py_verif_script_status()
            brandom.py_verif_script(None)
            got = r.py_get_result()
            rows = [[float(got[i, c]) for c in cols] for i in range(got.shape[0])]
            want = [[float(v) for v in row] for row in rec["rows"]]
            fq = r.py_get_delay_queue()
            nqt = fq.py_get_next_queue_time()
            pend = []
            for _ in range(nt):
                a = np.zeros(nr)
                fq.py_get_next_reactions(a)
                fq.py_advance_time()
                pend.append([float(v) for v in a])
            wantp = [[float(v) for v in slot] for slot in rec["pending"]]
            if rows != want:
                k = next((i for i in range(min(len(rows), len(want))) if rows[i] != want[i]), -1)
                res = {"ok": False, "what": "rows", "detail": "row %d: got %r expected %r" % (k, rows[k] if k >= 0 else None, want[k] if k >= 0 else None)}
            elif used != len(draws):
                res = {"ok": False, "what": "draws", "detail": "consumed %d draws, the behaviour has %d" % (used, len(draws))}
            elif abs(nqt - rec["slot"] * dt) > 1e-9:
                res = {"ok": False, "what": "queue-clock", "detail": "final next queue time %r, expected %r" % (nqt, rec["slot"] * dt)}
            elif pend != wantp:
                res = {"ok": False, "what": "pending", "detail": "still-queued deliveries %r, expected %r" % (pend, wantp)}
            elif not (job["via"] == 2 and not rec.get("preload")):
                # the same behaviour once more through the SAME interface and simulator objects with a fresh queue: nothing of
                # the first run (queued deliveries, state, clock) is carried over
                sim = DelaySSASimulator()
                for tag in ("second", "third (same simulator object)"):
                    q2 = ArrayDelayQueue.setup_queue(nr, nt, dt)
                    for k, rr, c in rec.get("preload", []):
                        q2.py_add_reaction(k * dt, rr - 1, float(c))
                    brandom.py_verif_script(draws + [0.5] * 4)
                    g = sim.py_delay_simulate(itf, q2, tp).py_get_result()
                    brandom.py_verif_script(None)
                    rows2 = [[float(g[i, c]) for c in cols] for i in range(g.shape[0])]
                    if rows2 != want:
                        k = next((i for i in range(min(len(rows2), len(want))) if rows2[i] != want[i]), -1)
                        res = {"ok": False, "what": "rows-repeated-run", "detail": "%s run on the same interface, row %d: got %r expected %r" % (
                            tag, k, rows2[k] if k >= 0 else None, want[k] if k >= 0 else None)}
                        break
        except BaseException as e:  # noqa
            try:
                brandom.py_verif_script(None)
            except Exception:
                pass
            res = {"ok": False, "what": "exception", "detail": repr(e)[:300]}
        out.append(res)
    return {"out": out}


def impl_moments(job):
    """A-DelayDist: the samplers at parameter values OUTSIDE the rational scheme of DelaySsa.tla (gamma shapes such as 1, 3/2, 2, where
    1/sqrt(9d) is irrational) are bound to 'Gaussian(mean, std)' / 'Gamma(shape k, scale theta)' by their first two moments on seeded
    samples (6 standard errors; the seeds are fixed by VERIF_SEED, so the outcome is deterministic)."""
    import math
    import numpy as np
    from bioscrape.types import Model
    import bioscrape.random as brandom
    out = []
    for case in job["cases"]:
        fam, a, b_, N, seed = case["fam"], case["a"], case["b"], case["n"], case["seed"]
        try:
            dd = {"mean": a, "std": b_} if fam == "gaussian" else {"k": a, "theta": b_}
            m = Model(species=["A", "B"], reactions=[(["A"], [], "massaction", {"k": 1.0}, fam, [], ["B"], dd)], initial_condition_dict={"A": 1, "B": 0})
            dl = m.get_delays()[0]
            st, pv = np.array([1.0, 0.0]), m.get_parameter_values().copy()
            brandom.py_seed_random(seed)
            xs = np.array([dl.py_get_delay(st, pv) for _ in range(N)])
            mean, var = (a, b_ * b_) if fam == "gaussian" else (a * b_, a * b_ * b_)
            kurt = 0.0 if fam == "gaussian" else 6.0 / a
            se_mean = math.sqrt(var / N)
            se_var = var * math.sqrt((2.0 + kurt) / N)
            gm, gv = float(xs.mean()), float(xs.var(ddof=1))
            r = {"ok": True, "mean": gm, "var": gv}
            if not np.all(np.isfinite(xs)) or (fam == "gamma" and float(xs.min()) < 0):
                r = {"ok": False, "what": "support", "detail": "%s(%r, %r): a sample is not finite or negative" % (fam, a, b_)}
            elif abs(gm - mean) > 6 * se_mean:
                r = {"ok": False, "what": "mean", "detail": "%s(%r, %r): sample mean %.6g of %d draws, distribution mean %.6g (6 standard errors = %.3g)" % (fam, a, b_, gm, N, mean, 6 * se_mean)}
            elif abs(gv - var) > 6 * se_var:
                r = {"ok": False, "what": "variance", "detail": "%s(%r, %r): sample variance %.6g of %d draws, distribution variance %.6g (6 standard errors = %.3g)" % (fam, a, b_, gv, N, var, 6 * se_var)}
        except BaseException as e:  # noqa
            r = {"ok": False, "what": "exception", "detail": repr(e)[:300]}
        out.append(r)
    return {"out": out}


def impl_offset(job):
    """A grid that starts LATER than the initial time 0 (consequence of DelaySsa.tla with the queue clock at the initial time): a
    reaction A -> (fixed delay d) B whose rate is so large that all N molecules fire within the first 1e-4 time units.  Whatever the
    random numbers, every delivery is due before d + dt/2 + 1e-4; on a grid whose first point t0 >= d + dt lies on the queue's
    lattice, the first reported row already holds all N products, A is 0 from the first row on, and nothing is pending at the end."""
    import numpy as np
    from bioscrape.types import Model
    from bioscrape.simulator import py_simulate_model, ModelCSimInterface, DelaySSASimulator, ArrayDelayQueue
    import bioscrape.random as brandom
    out = []
    for case in job["cases"]:
        N, d, dt, k0, nt, seed, via = case["N"], case["d"], case["dt"], case["k0"], case["nt"], case["seed"], case["via"]
        try:
            m = Model(species=["A", "B"], reactions=[(["A"], [], "massaction", {"k": 1.0e7}, "fixed", [], ["B"], {"delay": d})],
                      initial_condition_dict={"A": N, "B": 0})
            tp = np.array([(k0 + i) * dt for i in range(nt)])
            brandom.py_seed_random(seed)
            if via == 0:
                r = py_simulate_model(tp, Model=m, stochastic=True, delay=True, return_dataframe=False)
            else:
                itf = ModelCSimInterface(m)
                itf.py_set_dt(dt)
                r = DelaySSASimulator().py_delay_simulate(itf, ArrayDelayQueue.setup_queue(1, nt + k0, dt), tp)
            rows = np.array(r.py_get_result(), dtype=float)
            s2i = m.get_species2index()
            A_, B_ = rows[:, s2i["A"]], rows[:, s2i["B"]]
            res = {"ok": True}
            if rows.shape[0] != nt:
                res = {"ok": False, "what": "offset-grid:rows", "detail": "%d rows for %d time points" % (rows.shape[0], nt)}
            elif not (np.all(A_ == 0) and np.all(B_ == N)):
                res = {"ok": False, "what": "offset-grid:delivery", "detail": "grid starting at %g (delay %g, dt %g): A = %r, B = %r; every one of the %d firings is due before the first requested time" % (
                    tp[0], d, dt, A_.tolist(), B_.tolist(), N)}
        except BaseException as e:  # noqa
            res = {"ok": False, "what": "offset-grid:exception", "detail": repr(e)[:300]}
        out.append(res)
    return {"out": out}


def impl_replay_dv(job):
    """DelayVolumeSsa behaviours through DelayVolumeSSASimulator / py_simulate_model(delay=True, volume=..)."""
    import numpy as np
    from bioscrape.types import Volume, StochasticTimeThresholdVolume
    from bioscrape.simulator import (ModelCSimInterface, SafeModelCSimInterface, DelayVolumeSSASimulator, ArrayDelayQueue,
                                     py_simulate_model)
    import bioscrape.random as brandom
    out = []
    for rec in job["recs"]:
        res = {"ok": True}
        try:
            nt, dt, V0, G = rec["nt"], f(rec["dt"]), f(rec["V0"]), rec["G"]
            tp = np.array([i * dt for i in range(nt)])
            if (rec.get("nt", 0) + len(rec.get("steps", []))) % 3 == 2:
                tp = np.repeat(tp, 2)[::2]      # the same grid as a non-contiguous view
            m, _ = build(rec["prog"], x0=[[v, 1] for v in rec["x0"]], ns=rec["ns"], via_ctor=job["via"] == 1)
            s2i = m.get_species2index()
            cols = [s2i["S%d" % (i + 1)] for i in range(rec["ns"])]
            nr = len(rec["prog"]["rx"])
            if G == 1:
                vol = Volume()
            else:
                vol = StochasticTimeThresholdVolume(dt, 1e9, 0.0)       # doubling per dt, never initialised: never divides
            vol.py_set_volume(V0)
            draws = draws_for(rec["steps"])
            brandom.py_verif_script(draws + [0.5] * 4)
            if job["via"] == 2 and not rec.get("preload"):
                r = py_simulate_model(tp, Model=m, stochastic=True, delay=True, safe=rec["safe"], volume=(V0 if G == 1 else vol), return_dataframe=False)
            else:
                itf = SafeModelCSimInterface(m) if rec["safe"] else ModelCSimInterface(m)
                itf.py_set_dt(dt)
                q = _used_queue(nr, nt, dt, rec.get("preload", []), reanchored=False)
                r = DelayVolumeSSASimulator().py_delay_volume_simulate(itf, q, vol, tp)
            used, _, under = brandom.py_verif_script_status()
            brandom.py_verif_script(None)
            got = r.py_get_result()
            rows = [[float(got[i, c]) for c in cols] for i in range(got.shape[0])]
            want = [[float(v) for v in row] for row in rec["rows"]]
            vols = [float(v) for v in r.py_get_volume()]
            wantv = [V0 * G ** k for k in rec["vols"]]
            fq = r.py_get_delay_queue()
            nqt = fq.py_get_next_queue_time()
            pend = []
            for _ in range(nt):
                a = np.zeros(nr)
                fq.py_get_next_reactions(a)
                fq.py_advance_time()
                pend.append([float(v) for v in a])
            wantp = [[float(v) for v in slot] for slot in rec["pending"]]
            if rows != want:
                k = next((i for i in range(min(len(rows), len(want))) if rows[i] != want[i]), -1)
                res = {"ok": False, "what": "rows", "detail": "row %d: got %r expected %r" % (k, rows[k] if k >= 0 else None, want[k] if k >= 0 else None)}
            elif used != len(draws):
                res = {"ok": False, "what": "draws", "detail": "consumed %d draws, the behaviour has %d" % (used, len(draws))}
            elif len(vols) != len(wantv) or any(abs(a - b) > 1e-9 * b for a, b in zip(vols, wantv)):
                res = {"ok": False, "what": "volume", "detail": "volume trace %r, expected %r" % (vols, wantv)}
            elif abs(nqt - rec["slot"] * dt) > 1e-9:
                res = {"ok": False, "what": "queue-clock", "detail": "final next queue time %r, expected %r" % (nqt, rec["slot"] * dt)}
            elif pend != wantp:
                res = {"ok": False, "what": "pending", "detail": "still-queued deliveries %r, expected %r" % (pend, wantp)}
        except BaseException as e:  # noqa
            try:
                brandom.py_verif_script(None)
            except Exception:
                pass
            res = {"ok": False, "what": "exception", "detail": repr(e)[:300]}
        out.append(res)
    return {"out": out}


def dvssa_cfg(name, ns, maxrx, maxside, nt):
    return common.make_cfg(name, spec="Spec", constants={"NS": str(ns), "MaxRx": str(maxrx), "MaxSide": str(maxside), "NT": str(nt)},
                           invariants=["Accounting", "StateAccounting", "PendingAhead", "OneStepPerDt", "VolumeTrace", "Emit"],
                           properties=["ZeroDelayImmediate"])


def dssa_cfg(name, ns, maxrx, maxside, nt):
    return common.make_cfg(name, spec="Spec", constants={"NS": str(ns), "MaxRx": str(maxrx), "MaxSide": str(maxside), "NT": str(nt)},
                           invariants=["Accounting", "StateAccounting", "PendingAhead", "Emit"], properties=["ZeroDelayImmediate"])


def run(tier):
    import concurrent.futures as cf
    t0 = time.time()
    seed = common.seed()
    v = common.Verdict(PROP)
    n = 2400 if tier == "quick" else 40000
    g1 = common.run_tlc_many("DelaySsa", dssa_cfg("dssa_a", 2, 3, 2, 6), 8, n, 140, seed, allow_violation=True)
    g2 = common.run_tlc_many("DelaySsa", dssa_cfg("dssa_b", 3, 2, 3, 8), 8, n // 2, 160, seed + 29, allow_violation=True)
    for g in (g1, g2):
        if g.violated:
            v.violation("spec:" + g.violated, "TLC refuted %s on DelaySsa.tla" % g.violated, {"tlc_tail": g.stdout[-3000:]})
    recs = g1.records + g2.records
    jobs = [{"recs": ch, "via": i % 3} for i, ch in enumerate(pool.chunks(recs, 60))]
    results = pool.run_jobs("c10", "impl_replay", jobs)
    ok = 0
    fam = {"none": 0, "fixed": 0, "gaussian": 0, "gamma": 0}
    nq = nrej = nfire = 0
    for job, res in zip(jobs, results):
        if "harness_exception" in res:
            raise common.MachineryError("C10 harness failed: %s\n%s" % (res["harness_exception"], res.get("tb", "")))
        for i, rec in enumerate(job["recs"]):
            got = {"ok": False, "what": "crash", "detail": "worker died: %s" % res["crash"]} if "crash" in res else res["out"][i]
            for st in rec["steps"]:
                if st["a"] == "fire":
                    nfire += 1
                    dl = rec["prog"]["rx"][st["r"] - 1]["delay"]["type"]
                    fam[dl] += 1
                    nq += 1 if st["to"] else 0
                    nrej += 1 if len(st["dd"]) > 3 else 0
            if got["ok"]:
                ok += 1
            else:
                fams = "+".join(sorted({rx["delay"]["type"] for rx in rec["prog"]["rx"]}))
                v.violation("replay:%s:%s" % (got["what"], fams), got["detail"], {"rec": rec, "via": job["via"], "got": got})
    # ---- A-DelayDist: moments of the samplers at parameter values outside the rational scheme
    mcases = []
    for j, (fam, a, b_) in enumerate([("gamma", k, th) for k in (1.0, 1.5, 2.0, 3.0, 0.5, 7.25, 0.2, 0.3) for th in (0.25, 1.0, 4.0)] +
                                     [("gaussian", mu, sd) for mu in (0.0, 2.5, 40.0) for sd in (0.125, 1.0, 3.0)]):
        mcases.append({"fam": fam, "a": a, "b": b_, "n": 20000 if tier == "quick" else 200000, "seed": seed * 7919 + 31 * j + 5})
    mom_ok = 0
    for job, res in zip([{"cases": ch} for ch in pool.chunks(mcases, 3)], pool.run_jobs("c10", "impl_moments", [{"cases": ch} for ch in pool.chunks(mcases, 3)])):
        if "harness_exception" in res:
            raise common.MachineryError("C10 moments harness failed: %s\n%s" % (res["harness_exception"], res.get("tb", "")))
        for i, case in enumerate(job["cases"]):
            got = {"ok": False, "what": "crash", "detail": "worker died: %s" % res["crash"]} if "crash" in res else res["out"][i]
            if got["ok"]:
                mom_ok += 1
            else:
                v.violation("delay-distribution:%s:%s" % (case["fam"], got["what"]), got["detail"], {"case": case, "got": got})
    # ---- grids that start later than the initial time
    ocases = [{"N": 5 + j, "d": d, "dt": dt, "k0": k0, "nt": 6, "seed": seed * 131 + j, "via": j % 2}
              for j, (d, dt, k0) in enumerate([(0.5, 0.25, 4), (1.0, 0.5, 3), (0.25, 0.25, 2), (2.0, 1.0, 3), (0.0, 0.5, 1), (0.75, 0.25, 5)])]
    off_ok = 0
    ojobs = [{"cases": ch} for ch in pool.chunks(ocases, 2)]
    for job, res in zip(ojobs, pool.run_jobs("c10", "impl_offset", ojobs)):
        if "harness_exception" in res:
            raise common.MachineryError("C10 offset harness failed: %s\n%s" % (res["harness_exception"], res.get("tb", "")))
        for i, case in enumerate(job["cases"]):
            got = {"ok": False, "what": "offset-grid:crash", "detail": "worker died: %s" % res["crash"]} if "crash" in res else res["out"][i]
            if got["ok"]:
                off_ok += 1
            else:
                v.violation(got["what"], got["detail"], {"offset_case": case, "got": got})
    # ---- the delay + volume simulator (DelayVolumeSsa.tla)
    g3 = common.run_tlc_many("DelayVolumeSsa", dvssa_cfg("dvssa_a", 2, 3, 2, 6), 8, n // 2, 180, seed + 41, allow_violation=True)
    if g3.violated:
        v.violation("spec:" + g3.violated, "TLC refuted %s on DelayVolumeSsa.tla" % g3.violated, {"tlc_tail": g3.stdout[-3000:]})
    jobs3 = [{"recs": ch, "via": i % 3} for i, ch in enumerate(pool.chunks(g3.records, 60))]
    ok_dv = 0
    for job, res in zip(jobs3, pool.run_jobs("c10", "impl_replay_dv", jobs3)):
        if "harness_exception" in res:
            raise common.MachineryError("C10 harness failed: %s\n%s" % (res["harness_exception"], res.get("tb", "")))
        for i, rec in enumerate(job["recs"]):
            got = {"ok": False, "what": "crash", "detail": "worker died: %s" % res["crash"]} if "crash" in res else res["out"][i]
            if got["ok"]:
                ok_dv += 1
            else:
                fams = "+".join(sorted({rx["delay"]["type"] for rx in rec["prog"]["rx"]}))
                v.violation("replay-delay-volume:%s:%s" % (got["what"], fams), got["detail"], {"rec": rec, "via": job["via"], "got": got, "dv": True})
    # (T) seeded runs of the same programs, validated event by event
    items = []
    for i, rec in enumerate(recs[: (300 if tier == "quick" else 4000)]):
        r2 = dict(rec, tp=[[k * rec["dt"][0], rec["dt"][1]] for k in range(rec["nt"])])
        items.append({"id": i + 1, "rec": r2, "kind": "delay", "seed": seed * 7919 + i + 1, "V": [1, 1]})
    tres = pool.run_jobs("c06", "impl_trace", [{"items": ch} for ch in pool.chunks(items, 40)])
    traces = {}
    byid = {it["id"]: it for it in items}
    skipped = 0
    for res in tres:
        if "out" not in res:
            v.violation("crash:seeded-delay-run", "worker died: %r" % (res.get("crash"),), {})
            continue
        for o in res["out"]:
            it = byid[o["id"]]
            if "exc" in o:
                v.violation("exception:seeded-delay-run", o["exc"], {"item": it})
                continue
            if o["non_integer"] is not None or len(o["ev"]) > 600 or any(abs(c) > 150 for e in o["ev"] for c in e["x"]):
                skipped += 1
                continue
            rec = it["rec"]
            traces.setdefault(rec["ns"], []).append({"id": o["id"], "prog": rec["prog"], "safe": rec["safe"], "x0": rec["x0"], "kind": "delay",
                                                     "V": [1, 1], "ev": o["ev"], "rows": o["rows"], "pending": o["pending"]})
    accepted = 0
    with cf.ThreadPoolExecutor(max_workers=6) as ex:
        futs = [ex.submit(c06.validate, ch, ns) for ns, trs in traces.items() for ch in pool.chunks(trs, 100)]
        verdicts = {}
        for fu in futs:
            vd, _ = fu.result()
            verdicts.update(vd)
    for ns, trs in traces.items():
        for tr in trs:
            vd = verdicts.get(tr["id"])
            if vd is None:
                raise common.MachineryError("no verdict for trace %s" % tr["id"])
            if vd["verdict"] == "accepted":
                accepted += 1
            else:
                v.violation("trace:%s" % vd["clause"], "seeded delay run rejected at event %d: %s" % (vd["at"], vd["clause"]),
                            {"item": byid[tr["id"]], "trace": tr, "verdict": vd})
    rc = v.finish()
    s = recs[3] if len(recs) > 3 else {}
    cov = {"states": g1.generated + g2.generated, "transitions": g1.generated + g2.generated,
           "traces_validated_against_impl": ok + accepted + ok_dv, "delay_volume_behaviours_replayed": len(g3.records), "delay_volume_behaviours_exact": ok_dv,
           "samples": [{"prog": s.get("prog"), "dt": s.get("dt"), "x0": s.get("x0"), "steps": s.get("steps", [])[:8], "rows": s.get("rows"), "pending": s.get("pending")}],
           "behaviours_replayed": len(recs), "behaviours_exact": ok, "fire_events": nfire, "fires_by_delay_family": fam,
           "offset_grid_cases_ok": off_ok, "delay_sampler_moment_cases": len(mcases), "delay_sampler_moment_cases_ok": mom_ok, "fires_queued": nq, "gamma_rejected_proposals": nrej, "behaviours_with_preloaded_queue": sum(1 for r in recs if r.get("preload")), "seeded_traces_accepted": accepted, "seeded_runs_skipped_unbounded": skipped,
           "checker_cmd": g1.cmd + " ; tlc TraceSsa"}
    common.write_evidence(PROP, tier, cov, time.time() - t0, len(v.alarms) + sum(v.known_hit.values()),
                          assumptions=["A-Transforms: Box-Muller yields Normal(mean, std) and Marsaglia-Tsang yields Gamma(k, theta) (cited theorems); the code is bound to the transforms exactly",
                                       "gaussian inputs use cos(2 pi u2) = +1/-1; gamma shapes 4/3 and 13/3 (rational 1/sqrt(9d)); acceptance uniform scripted tiny",
                                       "with all delays zero the delay simulator is an exact sampler of the same chain by A-Gillespie (selection/holding-time premises as in C05, memoryless restart at queue slots)",
                                       "delayed reactants are not generated (nothing guards their supply at delivery time)"])
    return rc


def replay(path):
    case = json.load(open(path))["case"]
    if "rec" in case:
        res = pool.run_jobs("c10", "impl_replay_dv" if case.get("dv") else "impl_replay", [{"recs": [case["rec"]], "via": case.get("via", 0)}], nworkers=1)[0]
        print(json.dumps(res, indent=1))
        bad = not res["out"][0]["ok"]
    elif "offset_case" in case:
        res = pool.run_jobs("c10", "impl_offset", [{"cases": [case["offset_case"]]}], nworkers=1)[0]
        print(json.dumps(res, indent=1))
        bad = not res["out"][0]["ok"]
    elif "case" in case and "fam" in case.get("case", {}):
        res = pool.run_jobs("c10", "impl_moments", [{"cases": [case["case"]]}], nworkers=1)[0]
        print(json.dumps(res, indent=1))
        bad = not res["out"][0]["ok"]
    else:
        return c06.replay(path)
    if bad:
        print("VIOLATION property=%s replay=%s" % (PROP, path))
        return 1
    return 0
