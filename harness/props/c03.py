"""C03 - stoichiometry and net rate equations follow the reaction list.

(M) spec/Crn.tla: matrices defined by name (products minus reactants with multiplicity) and by
    index (first-mention order + per-mention update dictionaries + matrix fill); TLC checks that the
    index construction read through the index map is the by-name definition for every program of
    the bounded family and every declaration order, that a species on both sides cancels, and that
    a referenced-but-unset parameter always yields the outcome "unspecified".
(G) every generated program (exhaustive: all one-reaction programs with ordered sides <= 2 and
    delayed sides <= 1 under all 16 declaration lists; random: up to 3 reactions, every law type,
    sides <= 4) is built through the public API; update arrays, delayed update arrays and the
    derivative at a rational probe state are compared BY SPECIES NAME with the spec's exact values.
"""
import json
import time

from .. import common, pool
from ..rat import f, close
from ..build import build, sname

PROP = "C03"


def impl_check(job):
    import numpy as np
    from bioscrape.simulator import ModelCSimInterface, py_simulate_model
    out = []
    for rec in job["recs"]:
        prog, ns = rec["prog"], rec["ns"]
        r = {"ok": True}
        try:
            if rec["init"] == "unspecified":
                m, _ = build(prog, x0=rec["x"], ns=ns, initialize=False, via_ctor=job["via_ctor"])
                try:
                    m.py_initialize()
                    r = {"ok": False, "what": "unset-param-initialised", "detail": "py_initialize accepted a model with a parameter without value"}
                except ValueError:
                    try:
                        py_simulate_model(np.linspace(0, 1, 3), Model=m)
                        r = {"ok": False, "what": "unset-param-simulated", "detail": "py_simulate_model returned for a model with a parameter without value"}
                    except ValueError:
                        pass
                out.append(r)
                continue
            m, _ = build(prog, x0=rec["x"], ns=ns, via_ctor=job["via_ctor"])
            s2i = m.get_species2index()
            U, D = m.py_get_update_array(), m.py_get_delay_update_array()
            nr = len(prog["rx"])
            if U.shape != (ns, nr) or D.shape != (ns, nr):
                out.append({"ok": False, "what": "shape", "detail": "update array shape %r for %d species, %d reactions" % (U.shape, ns, nr)})
                continue
            for s in range(1, ns + 1):
                row = s2i[sname(s)]
                for k in range(nr):
                    if U[row, k] != rec["stoich"][s - 1][k]:
                        r = {"ok": False, "what": "immediate-stoichiometry", "detail": "species %s reaction %d: %r != %r" % (sname(s), k, U[row, k], rec["stoich"][s - 1][k])}
                    if D[row, k] != rec["dstoich"][s - 1][k]:
                        r = {"ok": False, "what": "delayed-stoichiometry", "detail": "species %s reaction %d: %r != %r" % (sname(s), k, D[row, k], rec["dstoich"][s - 1][k])}
            if r["ok"]:
                order_names = [sname(s) for s in rec["order"]]
                r["order_drift"] = m.get_species_list() != order_names
                itf = ModelCSimInterface(m)
                itf.py_prep_deterministic_simulation()
                x = np.zeros(ns)
                for s in range(1, ns + 1):
                    x[s2i[sname(s)]] = f(rec["x"][s - 1])
                # the output array is the caller's: the reported derivative does not depend on what it held before
                dx = np.full(ns, 7.25)
                itf.py_calculate_deterministic_derivative(x, dx, 0.0)
                for s in range(1, ns + 1):
                    if not close(float(dx[s2i[sname(s)]]), f(rec["deriv"][s - 1])):
                        r = {"ok": False, "what": "derivative", "detail": "d%s/dt = %r, rate equations give %r" % (sname(s), float(dx[s2i[sname(s)]]), f(rec["deriv"][s - 1]))}
        except BaseException as e:  # noqa
            r = {"ok": False, "what": "exception", "detail": repr(e)[:300]}
        out.append(r)
    return {"out": out}


def run(tier):
    t0 = time.time()
    v = common.Verdict(PROP)
    base = {"NS": "3", "MaxRx": "1", "MaxSide": "2", "MaxDSide": "1", "Mode": '"exh"'}
    cfg = common.make_cfg("crngen_exh", spec="Spec", constants=base, invariants=["Refinement", "UnsetBlocks", "RejectedAttemptsLeaveNoTrace", "Emit"])
    r1 = common.run_tlc("CrnGen", cfg, allow_violation=True, keep_stdout=False)
    if r1.violated:
        v.violation("spec:" + r1.violated, "TLC refuted %s on Crn.tla" % r1.violated, {"tlc_tail": r1.stdout[-3000:]})
    recs = list(r1.records)
    states, trans = r1.distinct, r1.generated
    sims = [("3", "3", "4", "2", 3000 if tier == "quick" else 40000), ("4", "3", "3", "2", 1500 if tier == "quick" else 20000)]
    nsim = 0
    for k, (ns, mr, ms, md, n) in enumerate(sims):
        cfg = common.make_cfg("crngen_sim%d" % k, spec="Spec",
                              constants={"NS": ns, "MaxRx": mr, "MaxSide": ms, "MaxDSide": md, "Mode": '"sim"'},
                              invariants=["Refinement", "UnsetBlocks", "RejectedAttemptsLeaveNoTrace", "Emit"])
        r = common.run_tlc("CrnGen", cfg, workers=1, simulate=n, depth=8, tlc_seed=common.seed() * 7 + k, deadlock=False, keep_stdout=False)
        recs += r.records
        nsim += len(r.records)
        states += r.distinct
        trans += r.generated
    jobs = [{"recs": ch, "via_ctor": (i % 2 == 0)} for i, ch in enumerate(pool.chunks(recs, 500))]
    results = pool.run_jobs("c03", "impl_check", jobs)
    ok = drift = unset = 0
    for job, res in zip(jobs, results):
        if "harness_exception" in res:
            raise common.MachineryError("C03 harness failed: %s\n%s" % (res["harness_exception"], res.get("tb", "")))
        if "crash" in res:
            v.violation("crash", "worker died with status %s" % res["crash"], {"first_rec": job["recs"][0]})
            continue
        for rec, got in zip(job["recs"], res["out"]):
            if rec["init"] == "unspecified":
                unset += 1
            if got["ok"]:
                ok += 1
                drift += 1 if got.get("order_drift") else 0
            else:
                ltypes = "+".join(sorted({rx["law"]["type"] for rx in rec["prog"]["rx"]}))
                v.violation("%s:%s" % (got["what"], ltypes), got["detail"], {"rec": rec, "via_ctor": job["via_ctor"], "got": got})
    rc = v.finish()
    cov = {"states": states, "transitions": trans, "traces_validated_against_impl": ok,
           "samples": [recs[len(recs) // 2]["prog"]], "exhaustive": True,
           "programs_exhaustive": len(r1.records), "programs_random": nsim, "programs_with_unset_parameter": unset,
           "species_order_drift": drift, "checker_cmd": r1.cmd}
    common.write_evidence(PROP, tier, cov, time.time() - t0, len(v.alarms) + sum(v.known_hit.values()),
                          assumptions=["probe states are exact rationals; derivative compared to 1e-9 relative",
                                       "general-expression rates enter through C02; here every built-in law type"])
    return rc


def replay(path):
    case = json.load(open(path))["case"]
    res = pool.run_jobs("c03", "impl_check", [{"recs": [case["rec"]], "via_ctor": case["via_ctor"]}], nworkers=1)[0]
    print(json.dumps(res, indent=1))
    if not res["out"][0]["ok"]:
        print("VIOLATION property=%s replay=%s" % (PROP, path))
        return 1
    return 0
