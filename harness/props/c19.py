"""C19 - division conserves molecules and volume; lineage records are consistent.

(M) spec/Splitter.tla: the three volume splitters as input-driven transitions; TLC checks, exhaustively
    over classes x volume modes x per-species modes x noise x mother states x draws: conservation of
    binomial / perfect species, copying of duplicated ones, volume conservation (or duplication), a
    perfect split within one molecule of the exact share, and the BINOMIAL LAW by counting (over the
    full uniform grid the number of draw vectors with k successes is C(n,k) c^k (D-c)^(n-k)).
(G) every emitted partition is replayed on the real PerfectBinomialVolumeSplitter,
    GeneralVolumeSplitter and LineageVolumeSplitter through the scripted uniform stream: daughters'
    states and volumes exact, draw consumption exact.
(T) real py_SimulateCellLineage / py_SimulateSingleCell runs with real seeds on lineage models
    (reactions that run out, growth rules, time / volume / delta-V division rules, per-species
    modes) are projected (schnitz time axes, rows, volumes, parent / daughter indices) and validated
    by spec/TraceLineage.tla: links mutual, daughters start at the mother's last time from a
    partition of her last row, volumes split, every reported row has positive volume, completeness.
"""
import json
import os
import time
from fractions import Fraction

from .. import common, pool
from ..rat import f

PROP = "C19"


def impl_split(job):
    import numpy as np
    from bioscrape.types import Model
    from bioscrape.simulator import PerfectBinomialVolumeSplitter, GeneralVolumeSplitter, VolumeCellState
    from bioscrape.lineage import LineageVolumeSplitter
    import bioscrape.random as brandom
    out = []
    for n_rec, rec in enumerate(job["recs"]):
        res = {"ok": True}
        try:
            ns = len(rec["n"])
            names = ["S%d" % (i + 1) for i in range(ns)]
            m = Model(species=names, initial_condition_dict={s: 0 for s in names})
            reconf = n_rec % 2 == 1       # Splitter.Prev: configured before with other modes, then re-configured
            p = f(rec["p"])
            draws = []
            for kind, val in rec["draws"]:
                draws.append(f(val) if kind == "u" else (p / 2.0 if kind == "lo" else (1.0 + p) / 2.0))
            parent = VolumeCellState(time=1.5, state=np.array([float(x) for x in rec["n"]]), volume=float(f(rec["V"])))
            if rec["cls"] == "pb":
                sp = PerfectBinomialVolumeSplitter()
            elif rec["cls"] == "general":
                sp = GeneralVolumeSplitter()
                opts = {"perfect": [names[i] for i in range(ns) if rec["modes"][i] == "perfect"],
                        "duplicate": [names[i] for i in range(ns) if rec["modes"][i] == "duplicate"]}
                if reconf:
                    sp.py_set_partitioning({"perfect": [names[i] for i in range(ns) if rec["prev"][i] == "perfect"],
                                            "duplicate": [names[i] for i in range(ns) if rec["prev"][i] == "duplicate"]}, m)
                    sp.py_set_partition_noise(0.5)
                    opts = {k: v for k, v in opts.items() if v}      # a mode no species has is not mentioned at all
                sp.py_set_partitioning(opts, m)
                sp.py_set_partition_noise(f(rec["noise"]))
            else:
                opts = {names[i]: rec["modes"][i] for i in range(ns)}
                opts["volume"] = rec["vmode"]
                sp = LineageVolumeSplitter(m, options=opts, partition_noise=f(rec["noise"]))
            brandom.py_verif_script(draws + [0.5] * 3)
            d, e = sp.py_partition(parent)
            used, _, under = brandom.py_verif_script_status()
            brandom.py_verif_script(None)
            gd, ge = [float(x) for x in d.py_get_state()], [float(x) for x in e.py_get_state()]
            vd, ve = float(d.py_get_volume()), float(e.py_get_volume())
            want_d, want_e = [float(x) for x in rec["d1"]], [float(x) for x in rec["d2"]]
            # property level first: conservation
            n = [float(x) for x in rec["n"]]
            modes = ["binomial"] * ns if rec["cls"] == "pb" else rec["modes"]
            cons = all((gd[i] == n[i] and ge[i] == n[i]) if modes[i] == "duplicate" else (gd[i] + ge[i] == n[i] and gd[i] >= 0 and ge[i] >= 0)
                       for i in range(ns))
            dupv = rec["cls"] == "lineage" and rec["vmode"] == "duplicate"
            V = f(rec["V"])
            vcons = (abs(vd - V) < 1e-12 and abs(ve - V) < 1e-12) if dupv else (abs(vd + ve - V) < 1e-12 and vd > 0 and ve > 0)
            if not cons:
                res = {"ok": False, "what": "conservation" + (":reconfigured" if reconf and rec["cls"] == "general" else ""), "detail": "mother %r -> %r + %r with modes %r" % (n, gd, ge, modes)}
            elif not vcons:
                res = {"ok": False, "what": "volume", "detail": "mother volume %r -> %r + %r (volume mode %s)" % (V, vd, ve, rec["vmode"])}
            elif gd != want_d or ge != want_e:
                res = {"ok": False, "what": "partition", "detail": "daughters %r / %r, expected %r / %r (p = %s)" % (gd, ge, want_d, want_e, rec["p"])}
            elif abs(vd - f(rec["v1"])) > 1e-12 or abs(ve - f(rec["v2"])) > 1e-12:
                res = {"ok": False, "what": "volume-fraction", "detail": "volumes %r / %r, expected %r / %r" % (vd, ve, f(rec["v1"]), f(rec["v2"]))}
            elif used != len(draws):
                res = {"ok": False, "what": "draws", "detail": "consumed %d draws, expected %d" % (used, len(draws))}
            elif abs(d.py_get_time() - 1.5) > 0 or abs(e.py_get_time() - 1.5) > 0:
                res = {"ok": False, "what": "time", "detail": "daughters do not start at the mother's time"}
        except BaseException as ex:  # noqa
            try:
                brandom.py_verif_script(None)
            except Exception:
                pass
            res = {"ok": False, "what": "exception", "detail": repr(ex)[:300]}
        out.append(res)
    return {"out": out}


# ---------------------------------------------------------------------------------------- lineages (T)
REACTIONS = [
    [(["S1"], [], "massaction", {"k": 1.0})],                                                  # runs out
    [(["S1"], ["S2"], "massaction", {"k": 0.7}), (["S2"], [], "massaction", {"k": 0.5})],      # runs out
    [([], ["S1"], "massaction", {"k": 2.0}), (["S1"], [], "massaction", {"k": 0.5})],          # birth-death
    [(["S1", "S1"], ["S2"], "massaction", {"k": 0.3}), (["S2"], ["S1", "S1"], "massaction", {"k": 0.2})],
    [],                                                                                         # no reactions at all
]
DIVS = [("deltaV", {"threshold": 1.0}), ("time", {"threshold": 1.5}), ("volume", {"threshold": 2.0})]
MODESETS = [["binomial", "binomial", "binomial"], ["binomial", "duplicate", "perfect"], ["perfect", "binomial", "duplicate"],
            ["duplicate", "perfect", "binomial"]]
VMODES = ["perfect", "binomial", "duplicate"]


def _q(x):
    fr = Fraction(float(x))
    if fr.denominator > 2 ** 20 or abs(fr.numerator) > 2 ** 30:
        return None
    return [fr.numerator, fr.denominator]


def impl_lineage(job):
    import warnings
    import numpy as np
    from bioscrape.lineage import LineageModel, LineageVolumeSplitter, LineageVolumeCellState, py_SimulateCellLineage
    import bioscrape.random as brandom
    warnings.simplefilter("ignore")
    out = []
    for it in job["items"]:
        res = {"id": it["id"]}
        try:
            names = ["S1", "S2", "S3"]
            M = LineageModel(species=names, reactions=[tuple(r) for r in REACTIONS[it["rx"]]],
                             initial_condition_dict={"S1": it["x0"][0], "S2": it["x0"][1], "S3": it["x0"][2]})
            opts = {names[i]: it["modes"][i] for i in range(3)}
            opts["volume"] = it["vmode"]
            sp = LineageVolumeSplitter(M, options=opts, partition_noise=0.0)
            M.create_volume_rule("linear", {"growth_rate": 0.5})
            if it.get("cause") == "event":
                # the cell divides through a division EVENT that carries the splitter of the record; the model also has a
                # division rule (never reached) whose splitter treats every species and the volume the other way round
                oa = {names[i]: ("binomial" if it["modes"][i] == "duplicate" else "duplicate") for i in range(3)}
                oa["volume"] = "perfect" if it["vmode"] == "duplicate" else "duplicate"
                spa = LineageVolumeSplitter(M, options=oa, partition_noise=0.0)
                M.create_division_rule("volume", {"threshold": 1.0e6}, spa)
                M.create_division_event("division", {}, "massaction", {"k": 0.5, "species": ""}, sp)
            elif it.get("cause") == "staged":
                # staged construction: a model that already has a (never reached) division rule with the opposite splitter is
                # initialised, THEN receives the division rule and splitter of the record, and is initialised again
                oa = {names[i]: ("binomial" if it["modes"][i] == "duplicate" else "duplicate") for i in range(3)}
                oa["volume"] = "perfect" if it["vmode"] == "duplicate" else "duplicate"
                M.create_division_rule("volume", {"threshold": 1.0e6}, LineageVolumeSplitter(M, options=oa, partition_noise=0.0))
                M.py_initialize()
                M.create_division_rule(it["div"][0], dict(it["div"][1]), sp)
            else:
                M.create_division_rule(it["div"][0], dict(it["div"][1]), sp)
            if it.get("death"):
                M.create_death_rule(it["death"][0], dict(it["death"][1]))
            M.py_initialize()
            dt = 0.25
            tp = np.arange(it["nt"]) * dt
            brandom.py_seed_random(it["seed"])
            cs = LineageVolumeCellState(v0=1.0, t0=0.0, state=np.array([float(v) for v in it["x0"]]))
            lin = py_SimulateCellLineage(tp, initial_cell_states=[cs], Model=M, safe=it["safe"])
            objs = [lin.py_get_schnitz(i) for i in range(lin.py_size())]

            def idx(o):
                if o is None:
                    return 0
                for k, x in enumerate(objs):
                    if x is o:
                        return k + 1
                return -1
            sch = []
            bad = None
            for s in objs:
                t, v, x = s.py_get_time(), s.py_get_volume(), s.py_get_data()
                ti = [float(a) / dt for a in t]
                if any(abs(a - round(a)) > 1e-9 for a in ti):
                    bad = "time axis off the grid: %r" % (list(t),)
                if any(not float(a).is_integer() for row in x for a in row):
                    bad = "non-integer counts"
                vq = [_q(a) for a in v]
                if any(a is None for a in vq):
                    bad = "volume not dyadic: %r" % (list(v),)
                d = s.py_get_daughters()
                sch.append({"par": idx(s.py_get_parent()), "d1": idx(d[0]), "d2": idx(d[1]), "t": [int(round(a)) for a in ti],
                            "rows": [[int(a) for a in row] for row in x], "v": vq})
            res.update({"sch": sch, "bad": bad, "cells": len(sch)})
        except BaseException as ex:  # noqa
            res["exc"] = repr(ex)[:300]
        out.append(res)
    return {"out": out}


def validate_lineages(lins):
    path = os.path.join(common.tmpdir(), "lineages_%s.json" % lins[0]["id"])
    with open(path, "w") as fh:
        json.dump(lins, fh, indent=0)
    cfg = common.make_cfg("tracelineage_%s" % lins[0]["id"], spec="Spec")
    r = common.run_tlc("TraceLineage", cfg, workers=1, env_extra={"TRACE_FILE": path}, keep_stdout=False, timeout=1800)
    return {rec["tid"]: rec for rec in r.records}, r


def run(tier):
    import concurrent.futures as cf
    t0 = time.time()
    seed = common.seed()
    v = common.Verdict(PROP)
    # ---- (M) + (G): splitters
    cfg = common.make_cfg("splitter_exh", spec="Spec", constants={"NS": "2", "MaxN": "2", "Mode": '"exh"'},
                          invariants=["Conservation", "VolumeConservation", "PerfectClose", "BinomialLaw", "Emit"])
    r1 = common.run_tlc("Splitter", cfg, workers=8, allow_violation=True, keep_stdout=False)
    cfg = common.make_cfg("splitter_sim", spec="Spec", constants={"NS": "3", "MaxN": "5", "Mode": '"sim"'},
                          invariants=["Conservation", "VolumeConservation", "PerfectClose", "Emit"])
    r2 = common.run_tlc_many("Splitter", cfg, 4, 2000 if tier == "quick" else 40000, 6, seed, allow_violation=True)
    for r in (r1, r2):
        if r.violated:
            v.violation("spec:" + r.violated, "TLC refuted %s on Splitter.tla" % r.violated, {"tlc_tail": r.stdout[-3000:]})
    recs = r1.records + r2.records
    jobs = [{"recs": ch} for ch in pool.chunks(recs, 1500)]
    results = pool.run_jobs("c19", "impl_split", jobs)
    ok = 0
    for job, res in zip(jobs, results):
        if "harness_exception" in res:
            raise common.MachineryError("C19 harness failed: %s\n%s" % (res["harness_exception"], res.get("tb", "")))
        for i, rec in enumerate(job["recs"]):
            got = {"ok": False, "what": "crash", "detail": "worker died: %s" % res["crash"]} if "crash" in res else res["out"][i]
            if got["ok"]:
                ok += 1
            else:
                v.violation("splitter:%s:%s" % (got["what"], rec["cls"]), got["detail"], {"rec": rec, "got": got})
    # ---- (T): lineages
    items = []
    nl = 240 if tier == "quick" else 4000
    for i in range(nl):
        div = DIVS[(i // 5) % 3]
        vmode = VMODES[(i // 7) % 3]
        if div[0] == "volume" and vmode == "duplicate":
            vmode = "perfect"      # a duplicated volume is already above a volume threshold: bioscrape refuses ("dividing too fast")
        death = [None, None, ("species", {"specie": "S1", "threshold": 0.5, "comp": "<"}),
                 ("species", {"specie": "S1", "threshold": 5.5, "comp": ">"})][(i // 2) % 4]
        items.append({"id": i + 1, "death": death, "cause": "event" if i % 3 == 2 else ("staged" if i % 4 == 1 else "rule"), "rx": i % len(REACTIONS), "div": div, "modes": MODESETS[(i // 3) % 4],
                      "vmode": vmode, "x0": [(3 * i + seed) % 7, (5 * i) % 4, (i // 2) % 3], "nt": 21 + 4 * (i % 3),
                      "seed": seed * 104729 + i + 1, "safe": bool(i % 2)})
    tres = pool.run_jobs("c19", "impl_lineage", [{"items": ch} for ch in pool.chunks(items, 20)])
    byid = {it["id"]: it for it in items}
    lins = []
    for res in tres:
        if "out" not in res:
            v.violation("lineage:crash", "lineage worker died: %r" % (res.get("crash"),), {})
            continue
        for o in res["out"]:
            it = byid[o["id"]]
            if "exc" in o:
                v.violation("lineage:exception:div=%s" % it["div"][0], o["exc"], {"item": it})
            elif o["bad"]:
                v.violation("lineage:projection:%s" % o["bad"].split(":")[0], o["bad"], {"item": it})
            else:
                lins.append({"id": o["id"], "ns": 3, "modes": it["modes"], "vmode": it["vmode"], "nt": it["nt"], "may_die": bool(it.get("death")), "sch": o["sch"]})
    verdicts = {}
    tstates = 0
    with cf.ThreadPoolExecutor(max_workers=6) as ex:
        futs = [ex.submit(validate_lineages, ch) for ch in pool.chunks(lins, 60)]
        for fu in futs:
            vd, r = fu.result()
            verdicts.update(vd)
            tstates += r.distinct
    accepted = ncells = ndiv = 0
    for L in lins:
        vd = verdicts.get(L["id"])
        if vd is None:
            raise common.MachineryError("no verdict for lineage %s" % L["id"])
        ncells += vd["cells"]
        ndiv += vd["divisions"]
        if vd["verdict"] == "accepted":
            accepted += 1
        else:
            it = byid[L["id"]]
            exhausted = "runs-out" if it["rx"] in (0, 1, 4) else "sustained"
            if it.get("cause") in ("event", "staged"):
                exhausted += ":division-event" if it["cause"] == "event" else ":staged-construction"
            v.violation("lineage:%s:%s" % (vd["clause"], exhausted), "lineage rejected: clause %s (%d cells, %d divisions)" % (vd["clause"], vd["cells"], vd["divisions"]),
                        {"item": it, "lineage": L, "verdict": vd})
    rc = v.finish()
    s = r2.records[2] if len(r2.records) > 2 else (recs[0] if recs else {})
    cov = {"states": r1.distinct + r2.generated + tstates, "transitions": r1.generated + r2.generated + tstates,
           "traces_validated_against_impl": ok + accepted, "samples": [s], "exhaustive": True,
           "partitions_replayed": len(recs), "partitions_exact": ok, "lineages_recorded": len(lins), "lineages_accepted": accepted,
           "lineages_dividing_by_event": sum(1 for L in lins if byid[L["id"]].get("cause") == "event"), "cells_in_lineages": ncells, "divisions_in_lineages": ndiv, "checker_cmd": r1.cmd + " ; tlc TraceLineage"}
    common.write_evidence(PROP, tier, cov, time.time() - t0, len(v.alarms) + sum(v.known_hit.values()),
                          assumptions=["Binomial(n, p) is decided by exact counting over the uniform grid (spec) plus exact replay of the per-molecule Bernoulli draws (code); A-RNG for the stream itself",
                                       "lineage runs use partition noise 0 and a linear growth rule with dyadic increments so that reported volumes are exact rationals",
                                       "half of the lineage runs have a species death rule (completeness is demanded only where no cell can die); a third of the lineage runs divide through a division event whose splitter differs from that of a (never reached) division rule of the same model; death events, volume events and custom splitter functions are not generated"])
    return rc


def replay(path):
    case = json.load(open(path))["case"]
    if "rec" in case:
        res = pool.run_jobs("c19", "impl_split", [{"recs": [case["rec"]]}], nworkers=1)[0]
        print(json.dumps(res, indent=1))
        bad = not res["out"][0]["ok"]
    else:
        it = case["item"]
        o = pool.run_jobs("c19", "impl_lineage", [{"items": [it]}], nworkers=1)[0]["out"][0]
        if "exc" in o or o.get("bad"):
            print(json.dumps(o)[:1500])
            bad = True
        else:
            L = {"id": o["id"], "ns": 3, "modes": it["modes"], "vmode": it["vmode"], "nt": it["nt"], "may_die": bool(it.get("death")), "sch": o["sch"]}
            vd, _ = validate_lineages([L])
            print(json.dumps(vd, indent=1))
            bad = any(x["verdict"] != "accepted" for x in vd.values())
    if bad:
        print("VIOLATION property=%s replay=%s" % (PROP, path))
        return 1
    return 0
