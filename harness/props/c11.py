"""C11 - volume-aware simulation scales rates with volume and tracks growth and division.

(M) spec/VolumeSsa.tla: the volume loop (volume step / skip / fire) with volume-scaled stochastic
    rates from RateLaws (so "bimolecular k/V, zero-order k*V, Hill on s/V" are consequences of C01's
    closed forms, not re-stated), volume V0*G^n; invariants: one volume step per elapsed dt, the
    reported volume within one growth step of the growth law, monotone, the result ends at the
    first grid time at which the division model reports division (and no earlier one did), lattice.
(G) behaviours (constant volumes 1/4..4, growth with doubling per dt, time-threshold and
    state-dependent division with scripted normal draws, programs with and without reactions,
    every law type) are replayed through the scripted stream into VolumeSSASimulator and
    py_simulate_model(volume=...): rows, volume trace, truncation and divided flag exact.
"""
import json
import math
import time

from .. import common, pool
from ..rat import f, close
from ..build import build

PROP = "C11"
LN2 = 0.69314718056      # the constant bioscrape uses for ln 2


def impl_replay(job):
    import numpy as np
    from bioscrape.types import Volume, StochasticTimeThresholdVolume, StateDependentVolume
    from bioscrape.simulator import ModelCSimInterface, SafeModelCSimInterface, VolumeSSASimulator, py_simulate_model
    import bioscrape.random as brandom
    out = []
    for rec in job["recs"]:
        res = {"ok": True}
        try:
            nt, dt = rec["nt"], f(rec["dt"])
            vd = rec.get("vd", 1)
            vdt = dt / vd                  # the simulator's own time step (volume steps): vd per grid step
            tp = np.array([i * dt for i in range(nt)])
            if (rec.get("nt", 0) + len(rec.get("steps", []))) % 3 == 2:
                tp = np.repeat(tp, 2)[::2]      # the same grid as a non-contiguous view
            vm = rec["vm"]
            V0 = f(rec["V0"])
            m, _ = build(rec["prog"], x0=[[v, 1] for v in rec["x0"]], ns=rec["ns"], via_ctor=job["via"] == 1, initialize=False)
            if vm["kind"] == "state":
                m.create_parameter("gr", LN2 / vdt)
            m.py_initialize()
            s2i = m.get_species2index()
            cols = [s2i["S%d" % (i + 1)] for i in range(rec["ns"])]
            init_draws = []
            if vm["kind"] == "const":
                vol = Volume()
                vol.py_set_volume(V0)
            else:
                rho = f(vm["rho"])
                init_draws = [math.exp(-rho * rho / 2.0), 0.0 if vm["sg"] == 1 else 0.5]
                if vm["kind"] == "time":
                    vol = StochasticTimeThresholdVolume(vdt, V0 * 2 ** vm["m"], f(vm["noise"]))
                else:
                    vol = StateDependentVolume()
                    vol.setup(f(vm["avg"]), f(vm["noise"]), "gr", m)
            draws = []
            for st in rec["steps"]:
                if f(st["e"]) != 0.0:
                    draws.append(math.exp(-f(st["e"])))
                if st["a"] == "fire":
                    draws.append(f(st["u"]))
            brandom.py_verif_script(init_draws + draws + [0.5] * 4)
            if vm["kind"] != "const":
                vol.py_initialize(m.get_species_array().astype(float), m.get_parameter_values().astype(float), 0.0, V0)
            if job["via"] == 2 and vd == 1:
                arg = vol if (vm["kind"] != "const" or len(rec["steps"]) % 2) else V0
                r = py_simulate_model(tp, Model=m, stochastic=True, safe=rec["safe"], volume=arg, return_dataframe=False)
            else:
                itf = SafeModelCSimInterface(m) if rec["safe"] else ModelCSimInterface(m)
                itf.py_set_dt(vdt)
                r = VolumeSSASimulator().py_volume_simulate(itf, vol, tp)
            used, _, under = brandom.py_verif_script_status()
            brandom.py_verif_script(None)
            got = r.py_get_result()
            rows = [[float(got[i, c]) for c in cols] for i in range(got.shape[0])]
            vols = [float(v) for v in r.py_get_volume()]
            tps = [float(t) for t in r.py_get_timepoints()]
            want = [[float(v) for v in row] for row in rec["rows"]]
            G = rec["G"]
            wantv = [V0 * G ** k for k in rec["vols"]]
            nexp = len(want)
            # ---- property level first
            prop_bad = None
            if any(not (v > 0) for v in vols):
                prop_bad = "non-positive volume %r" % (vols,)
            elif any(vols[i + 1] < vols[i] * (1 - 1e-12) for i in range(len(vols) - 1)):
                prop_bad = "volume decreases %r" % (vols,)
            elif G == 2 and any(not (V0 * 2.0 ** (vd * (i - 1)) * (1 - 1e-6) <= v <= V0 * 2.0 ** (vd * (i + 1)) * (1 + 1e-6)) for i, v in enumerate(vols)):
                prop_bad = "volume not within one growth step of the growth law: log2(V/V0) = %r" % ([round(math.log2(v / V0), 3) for v in vols],)
            elif G == 1 and any(not close(v, V0, 1e-12) for v in vols):
                prop_bad = "constant volume changed: %r" % (vols,)
            if prop_bad:
                res = {"ok": False, "what": "volume-law", "detail": prop_bad}
            elif len(rows) != nexp or bool(r.py_cell_divided()) != rec["divided"]:
                res = {"ok": False, "what": "division", "detail": "%d rows, divided=%r; expected %d rows, divided=%r (division model %s)" % (
                    len(rows), bool(r.py_cell_divided()), nexp, rec["divided"], vm["kind"])}
            elif tps != [float(t) for t in tp[:nexp]] or len(vols) != nexp:
                res = {"ok": False, "what": "time-axis", "detail": "time axis %r / %d volumes for %d rows" % (tps, len(vols), nexp)}
            elif rows != want:
                k = next((i for i in range(nexp) if rows[i] != want[i]), -1)
                res = {"ok": False, "what": "rows", "detail": "row %d: got %r expected %r (V0=%s, G=%d)" % (k, rows[k], want[k], V0, G)}
            elif used != len(init_draws) + len(draws):
                res = {"ok": False, "what": "draws", "detail": "consumed %d draws, the behaviour has %d" % (used, len(init_draws) + len(draws))}
            elif not all(close(a, b, 1e-9) for a, b in zip(vols, wantv)):
                res = {"ok": True, "drift": "volume trace %r differs from the design's %r but is within one step" % (vols, wantv)}
            if res["ok"] and vm["kind"] == "time" and job["via"] != 2 and vd == 1:
                # the SAME volume object, re-initialised, on a grid twice as fine (a continued / repeated experiment):
                # the reported volume must again be positive, non-decreasing and within one step of V0 * exp(g t)
                dt2 = dt / 2.0
                tp2 = np.array([i * dt2 for i in range(nt)])
                brandom.py_seed_random(12345 + len(rec["steps"]))
                vol.py_set_volume(V0)
                vol.py_initialize(m.get_species_array().astype(float), m.get_parameter_values().astype(float), 0.0, V0)
                itf2 = SafeModelCSimInterface(m) if rec["safe"] else ModelCSimInterface(m)
                itf2.py_set_dt(dt2)
                r2 = VolumeSSASimulator().py_volume_simulate(itf2, vol, tp2)
                v2 = [float(x) for x in r2.py_get_volume()]
                g = LN2 / dt
                law = [V0 * math.exp(g * t) for t in tp2[:len(v2)]]
                step = math.exp(g * dt2)
                if any(not (x > 0) for x in v2) or any(v2[i + 1] < v2[i] * (1 - 1e-12) for i in range(len(v2) - 1)) or \
                        any(not (l / step * (1 - 1e-9) <= x <= l * step * (1 + 1e-9)) for x, l in zip(v2, law)):
                    res = {"ok": False, "what": "volume-law-reused-object", "detail": "second run with the same volume object on grid step %r: volumes %r, growth law %r" % (dt2, v2, law)}
        except BaseException as e:  # noqa
            try:
                brandom.py_verif_script(None)
            except Exception:
                pass
            res = {"ok": False, "what": "exception", "detail": repr(e)[:300]}
        out.append(res)
    return {"out": out}


def vssa_cfg(name, ns, maxrx, maxside, nt):
    return common.make_cfg(name, spec="Spec", constants={"NS": str(ns), "MaxRx": str(maxrx), "MaxSide": str(maxside), "NT": str(nt)},
                           invariants=["GrowthWithinOneStep", "Monotone", "OneStepPerDt", "DivisionEndsResult", "NotDividedMeansFull", "Lattice", "Emit"])


def run(tier):
    t0 = time.time()
    seed = common.seed()
    v = common.Verdict(PROP)
    n = 2400 if tier == "quick" else 40000
    g1 = common.run_tlc_many("VolumeSsa", vssa_cfg("vssa_a", 2, 3, 2, 6), 8, n, 140, seed, allow_violation=True)
    g2 = common.run_tlc_many("VolumeSsa", vssa_cfg("vssa_b", 3, 2, 3, 8), 8, n // 2, 160, seed + 31, allow_violation=True)
    for g in (g1, g2):
        if g.violated:
            v.violation("spec:" + g.violated, "TLC refuted %s on VolumeSsa.tla" % g.violated, {"tlc_tail": g.stdout[-3000:]})
    allrecs = g1.records + g2.records
    recs = [r for r in allrecs if not r["divtie"]]
    jobs = [{"recs": ch, "via": i % 3} for i, ch in enumerate(pool.chunks(recs, 60))]
    results = pool.run_jobs("c11", "impl_replay", jobs)
    ok = drift = 0
    kinds = {"const": 0, "time": 0, "state": 0}
    ndiv = nfire = nvstep = 0
    for job, res in zip(jobs, results):
        if "harness_exception" in res:
            raise common.MachineryError("C11 harness failed: %s\n%s" % (res["harness_exception"], res.get("tb", "")))
        for i, rec in enumerate(job["recs"]):
            got = {"ok": False, "what": "crash", "detail": "worker died: %s" % res["crash"]} if "crash" in res else res["out"][i]
            kinds[rec["vm"]["kind"]] += 1
            ndiv += 1 if rec["divided"] else 0
            nfire += sum(1 for s in rec["steps"] if s["a"] == "fire")
            nvstep += sum(1 for s in rec["steps"] if s["a"] == "vstep")
            if got["ok"]:
                ok += 1
                drift += 1 if got.get("drift") else 0
            else:
                ltypes = "+".join(sorted({rx["law"]["type"] for rx in rec["prog"]["rx"]})) or "no-reactions"
                v.violation("replay:%s:%s:volume=%s" % (got["what"], ltypes, rec["vm"]["kind"]), got["detail"], {"rec": rec, "via": job["via"], "got": got})
    rc = v.finish()
    s = recs[3] if len(recs) > 3 else {}
    cov = {"states": g1.generated + g2.generated, "transitions": g1.generated + g2.generated, "traces_validated_against_impl": ok,
           "samples": [{"prog": s.get("prog"), "V0": s.get("V0"), "vm": s.get("vm"), "steps": s.get("steps", [])[:8], "rows": s.get("rows"), "vols": s.get("vols"), "divided": s.get("divided")}],
           "behaviours_replayed": len(recs), "behaviours_exact": ok, "volume_models": kinds, "behaviours_ending_in_division": ndiv,
           "fire_events": nfire, "volume_steps": nvstep, "skipped_threshold_ties": len(allrecs) - len(recs), "design_level_drift": drift,
           "checker_cmd": g1.cmd}
    common.write_evidence(PROP, tier, cov, time.time() - t0, len(v.alarms) + sum(v.known_hit.values()),
                          assumptions=["(a) as C05: A-RNG and A-Gillespie; the volume-scaled rates are RateLaws.StoVol (closed forms of C01)",
                                       "(b) growth is exercised with doubling per dt (cell-cycle time = dt), so volumes are V0*2^n and rates stay exact; bioscrape's ln 2 constant differs from ln 2 by 1e-13, far below the margins",
                                       "division thresholds exactly on a grid time / on a reachable volume are not replayed"])
    return rc


def replay(path):
    case = json.load(open(path))["case"]
    res = pool.run_jobs("c11", "impl_replay", [{"recs": [case["rec"]], "via": case.get("via", 0)}], nworkers=1)[0]
    print(json.dumps(res, indent=1))
    if not res["out"][0]["ok"]:
        print("VIOLATION property=%s replay=%s" % (PROP, path))
        return 1
    return 0
