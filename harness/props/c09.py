"""C09 - rules hold on every reported row and fire on their schedule.

(M) spec/RuleSsa.tla: the direct-method loop with rules applied in declaration order at the top of
    every iteration (repeat / start / time T / dt by rule_step), rates computed from the rule-updated
    species and parameters; invariants: every reported row satisfies every repeated assignment (R1),
    a time rule has not run before its scheduled grid time (R2), a dt rule has run exactly once per
    recorded row (R3; ode rules advance by rate*dt per step, R4, is the same counter).
(G) behaviours (1..2 reactions with named rate parameters, 1..3 rules of every kind and frequency,
    chains in declaration order) replayed through the scripted stream into py_simulate_model
    (stochastic, plain/safe) and SSASimulator: rows exact (so rule order, schedule, dt count and
    "rates from rule-updated values" are all bound).
(P) property-level checks on the other modes with real seeds (deterministic, volume, delay): every
    reported row satisfies the repeated assignments; a dt counter rule advances by exactly one per
    reported row from the second row on; a time rule leaves earlier rows untouched.
"""
import json
import math
import time

from .. import common, pool
from ..rat import f
from ..build import build, sname

PROP = "C09"


def rhs_str(rl, scale=1.0):
    terms = []
    if rl["c0"] or not any(rl["c"]):
        terms.append(repr(float(rl["c0"]) * scale) if scale != 1.0 else str(rl["c0"]))
    for i, c in enumerate(rl["c"]):
        if c:
            terms.append("%s*%s" % (repr(c * scale) if scale != 1.0 else c, sname(i + 1)))
    return " + ".join(terms)


def render_rule(rl, dt, tpT, kscale=1):
    freq = {"repeat": "repeat", "start": "start", "dt": "dt"}.get(rl["freq"]) or repr(tpT)
    if rl["kind"] == "ode":
        return ("ode", {"equation": "(%s)/%r" % (rhs_str(rl), dt), "target": sname(rl["tgt"])}, "dt")
    if rl["kind"] == "param":
        return ("assignment", {"equation": "k_r%d = %s" % (rl["tgt"] - 1, rhs_str(rl, float(kscale)))}, freq)
    if rl["kind"] == "additive" and any(rl["c"]):
        return ("additive", {"equation": "%s = %s" % (sname(rl["tgt"]), " + ".join(sname(i + 1) for i, c in enumerate(rl["c"]) if c))}, freq)
    return ("assignment", {"equation": "%s = %s" % (sname(rl["tgt"]), rhs_str(rl))}, freq)


def rhs_val(rl, row):
    return rl["c0"] + sum(c * v for c, v in zip(rl["c"], row))


def later_interferes(rules, j):
    rl = rules[j]
    for r2 in rules[j + 1:]:
        if r2["kind"] != "param" and (r2["tgt"] == rl["tgt"] or rl["c"][r2["tgt"] - 1] != 0):
            return True
    return False


def property_checks(rec, rows, mode):
    """(R1)/(R2)/(R3) on reported rows, independent of the exact path. Returns (what, detail) or None."""
    rules = rec["rules"]
    nt = len(rows)
    for j, rl in enumerate(rules):
        if rl["freq"] == "repeat" and rl["kind"] in ("assign", "additive") and not later_interferes(rules, j):
            for i, row in enumerate(rows):
                if abs(row[rl["tgt"] - 1] - rhs_val(rl, row)) > 1e-9 * (1 + abs(rhs_val(rl, row))):
                    return "repeat-rule-violated:%s" % mode, "row %d: %s = %r but the rule gives %r" % (i, sname(rl["tgt"]), row[rl["tgt"] - 1], rhs_val(rl, row))
    # a pure dt counter: rule j is the only writer of its target, reads only itself with coefficient 1, no reaction touches it
    touched = {s for rx in rec["prog"]["rx"] for s in rx["re"] + rx["pr"]}
    for j, rl in enumerate(rules):
        others = [r2 for k, r2 in enumerate(rules) if k != j and r2["kind"] != "param" and r2["tgt"] == rl["tgt"]]
        if rl["freq"] == "dt" and rl["kind"] in ("assign", "ode") and not others and rl["tgt"] not in touched and mode != "deterministic":
            c_self = rl["c"][rl["tgt"] - 1]
            only_self = all(c == 0 for i, c in enumerate(rl["c"]) if i != rl["tgt"] - 1)
            # (in a lineage single cell an ode rule integrates with the interface's own dt, which the lineage entry
            #  points do not tie to the time grid: there only assignment counters are judged)
            if only_self and rl["c0"] > 0 and ((rl["kind"] == "assign" and c_self == 1) or (rl["kind"] == "ode" and c_self == 0 and mode != "lineage")):
                col = [row[rl["tgt"] - 1] for row in rows]
                for i in range(1, nt - 1):
                    if abs((col[i + 1] - col[i]) - rl["c0"]) > 1e-9:
                        return "dt-rule-count:%s" % mode, "counter %s advances by %r between rows %d and %d, one application is %r (column %r)" % (
                            sname(rl["tgt"]), col[i + 1] - col[i], i, i + 1, rl["c0"], col)
    return None


def impl_replay(job):
    import numpy as np
    from bioscrape.types import Volume
    from bioscrape.simulator import (ModelCSimInterface, SafeModelCSimInterface, SSASimulator, VolumeSSASimulator, DelaySSASimulator,
                                     ArrayDelayQueue, py_simulate_model)
    import bioscrape.random as brandom
    out = []
    for n_rec, rec in enumerate(job["recs"]):
        res = {"ok": True}
        try:
            # change of the time unit (every second behaviour without an ode rule): the behaviour of RuleSsa.tla is
            # invariant under  t -> t/5, k -> 5k  (waiting times are E/Lambda); the real grid is then 0.1, 0.2, 0.05
            # apart and the scheduled rule times are grid times that are NOT dyadic (0.30000000000000004 = 3*0.1)
            tsc = 5 if (n_rec % 2 == 1 and not any(rl["kind"] == "ode" for rl in rec["rules"])) else 1
            if tsc != 1:
                rec = dict(rec, prog=dict(rec["prog"], rx=[dict(rx, law=dict(rx["law"], k=[rx["law"]["k"][0] * tsc, rx["law"]["k"][1]]))
                                                          for rx in rec["prog"]["rx"]]))
            nt, dt = rec["nt"], f(rec["dt"]) / tsc
            tp = np.array([i * dt for i in range(nt)])
            if (rec.get("nt", 0) + len(rec.get("steps", []))) % 3 == 2:
                tp = np.repeat(tp, 2)[::2]      # the same grid as a non-contiguous view
            rules = [render_rule(rl, dt, (rl["T"] - 1) * dt, tsc) for rl in rec["rules"]]

            def fresh():
                m, _ = build(rec["prog"], x0=[[v, 1] for v in rec["x0"]], ns=rec["ns"], via_ctor=job["via"] == 1, rules=rules)
                s2i = m.get_species2index()
                return m, [s2i["S%d" % (i + 1)] for i in range(rec["ns"])]
            m, cols = fresh()
            draws = []
            for st in rec["steps"]:
                if st["a"] != "absorb":
                    draws.append(math.exp(-f(st["e"])))
                if st["a"] == "fire":
                    draws.append(f(st["u"]))
            brandom.py_verif_script(draws + [0.5] * 4)
            if job["via"] == 2:
                r = py_simulate_model(tp, Model=m, stochastic=True, safe=rec["safe"], return_dataframe=False)
            else:
                itf = SafeModelCSimInterface(m) if rec["safe"] else ModelCSimInterface(m)
                itf.py_set_dt(dt)
                r = SSASimulator().py_simulate(itf, tp)
            used, _, under = brandom.py_verif_script_status()
            brandom.py_verif_script(None)
            got = r.py_get_result()
            rows = [[float(got[i, c]) for c in cols] for i in range(got.shape[0])]
            want = [[float(v) for v in row] for row in rec["rows"]]
            pc = property_checks(rec, rows, "stochastic")
            if pc:
                res = {"ok": False, "what": pc[0], "detail": pc[1]}
            elif rows != want:
                k = next((i for i in range(min(len(rows), len(want))) if rows[i] != want[i]), -1)
                res = {"ok": False, "what": "rows", "detail": "row %d: got %r expected %r; rules %r" % (k, rows[k] if k >= 0 else None, want[k] if k >= 0 else None, rules)}
            elif used != len(draws):
                res = {"ok": False, "what": "draws", "detail": "consumed %d draws, the behaviour has %d" % (used, len(draws))}
            if res["ok"] and not any(rl["kind"] == "param" for rl in rec["rules"]):
                # the same scripted run once more on the SAME model object: rule objects keep no state between runs
                # (not when a rule assigns a parameter: that assignment legitimately persists in the model)
                brandom.py_verif_script(draws + [0.5] * 4)
                if job["via"] == 2:
                    r = py_simulate_model(tp, Model=m, stochastic=True, safe=rec["safe"], return_dataframe=False)
                else:
                    itf = SafeModelCSimInterface(m) if rec["safe"] else ModelCSimInterface(m)
                    itf.py_set_dt(dt)
                    r = SSASimulator().py_simulate(itf, tp)
                brandom.py_verif_script(None)
                got = r.py_get_result()
                rows_b = [[float(got[i, c]) for c in cols] for i in range(got.shape[0])]
                if rows_b != want:
                    k = next((i for i in range(min(len(rows_b), len(want))) if rows_b[i] != want[i]), -1)
                    res = {"ok": False, "what": "second-run-rows", "detail": "second run of the same model, row %d: got %r expected %r; rules %r" % (k, rows_b[k] if k >= 0 else None, want[k] if k >= 0 else None, rules)}
            # ---- property-level checks in the other modes (real seeds)
            if res["ok"]:
                res = _forked(lambda: extra_modes(rec, fresh, tp, job, rules), 10.0)
        except BaseException as e:  # noqa
            try:
                brandom.py_verif_script(None)
            except Exception:
                pass
            res = {"ok": False, "what": "exception", "detail": repr(e)[:300]}
        out.append(res)
    return {"out": out}


def _forked(fn, timeout):
    """Run fn() in a forked child; a run that does not finish in time has unbounded dynamics (rules can
    create feedback that no syntactic filter excludes) and is skipped, not judged."""
    import os
    import select
    import signal
    r, w = os.pipe()
    pid = os.fork()
    if pid == 0:
        try:
            os.close(r)
            out = json.dumps(fn())
        except BaseException as e:  # noqa
            out = json.dumps({"ok": False, "what": "exception", "detail": repr(e)[:300]})
        os.write(w, out.encode())
        os._exit(0)
    os.close(w)
    ready, _, _ = select.select([r], [], [], timeout)
    if not ready:
        os.kill(pid, signal.SIGKILL)
        os.waitpid(pid, 0)
        os.close(r)
        return {"ok": True, "skipped_unbounded": True}
    data = b""
    while True:
        chunk = os.read(r, 65536)
        if not chunk:
            break
        data += chunk
    os.close(r)
    os.waitpid(pid, 0)
    if not data:
        return {"ok": False, "what": "crash", "detail": "simulation of a rule model killed the interpreter"}
    return json.loads(data.decode())


def extra_modes(rec, fresh, tp, job, rules):
    import numpy as np
    from bioscrape.simulator import py_simulate_model
    import bioscrape.random as brandom
    res = {"ok": True}
    if True:
        if True:
            if True:
                for mode in ("deterministic", "volume", "delay", "lineage"):
                    if mode == "lineage":
                        # a LineageModel with the same reactions and rules, one cell, no growth or division
                        from bioscrape.lineage import LineageModel, py_SimulateSingleCell
                        from ..build import build as _build
                        ml, _ = _build(rec["prog"], x0=[[v, 1] for v in rec["x0"]], ns=rec["ns"], rules=rules, model_cls=LineageModel)
                        brandom.py_seed_random(job["seed"] + 7 * len(rec["steps"]))
                        df = py_SimulateSingleCell(tp, Model=ml, safe=rec["safe"])
                        rows2 = [[float(df["S%d" % (i + 1)].iloc[k]) for i in range(rec["ns"])] for k in range(df.shape[0])]
                        if len(rows2) != len(tp):
                            res = {"ok": False, "what": "lineage-rows", "detail": "%d rows for %d time points" % (len(rows2), len(tp))}
                            break
                        pc = property_checks(rec, rows2, mode)
                        if pc:
                            res = {"ok": False, "what": pc[0], "detail": pc[1] + "; rules %r" % (rules,)}
                            break
                        continue
                    m2, cols2 = fresh()
                    brandom.py_seed_random(job["seed"] + len(rec["steps"]))
                    if mode == "deterministic":
                        if any(rl["kind"] == "ode" or rl["freq"] in ("dt",) for rl in rec["rules"]):
                            continue
                        g2 = py_simulate_model(tp, Model=m2, stochastic=False, return_dataframe=False).py_get_result()
                    elif mode == "volume":
                        g2 = py_simulate_model(tp, Model=m2, stochastic=True, volume=1.0, safe=rec["safe"], return_dataframe=False).py_get_result()
                    else:
                        g2 = py_simulate_model(tp, Model=m2, stochastic=True, delay=True, safe=rec["safe"], return_dataframe=False).py_get_result()
                    if not np.all(np.isfinite(g2)):
                        continue
                    rows2 = [[float(g2[i, c]) for c in cols2] for i in range(g2.shape[0])]
                    pc = property_checks(rec, rows2, mode)
                    if pc:
                        res = {"ok": False, "what": pc[0], "detail": pc[1] + "; rules %r" % (rules,)}
                        break
    return res


def rssa_cfg(name, ns, maxrx, maxside, maxrules, nt):
    return common.make_cfg(name, spec="Spec", constants={"NS": str(ns), "MaxRx": str(maxrx), "MaxSide": str(maxside),
                                                         "MaxRules": str(maxrules), "NT": str(nt)},
                           invariants=["RowsSatisfyRepeat", "DtOncePerStep", "TimeRuleSchedule", "Emit"])


def run(tier):
    t0 = time.time()
    seed = common.seed()
    v = common.Verdict(PROP)
    n = 2400 if tier == "quick" else 40000
    g1 = common.run_tlc_many("RuleSsa", rssa_cfg("rssa_a", 3, 2, 2, 3, 6), 8, n, 140, seed, allow_violation=True)
    g2 = common.run_tlc_many("RuleSsa", rssa_cfg("rssa_b", 2, 0, 1, 2, 6), 4, n // 6, 60, seed + 37, allow_violation=True)
    for g in (g1, g2):
        if g.violated:
            v.violation("spec:" + g.violated, "TLC refuted %s on RuleSsa.tla" % g.violated, {"tlc_tail": g.stdout[-3000:]})
    recs = g1.records + g2.records
    jobs = [{"recs": ch, "via": i % 3, "seed": seed * 1009 + i} for i, ch in enumerate(pool.chunks(recs, 40))]
    results = pool.run_jobs("c09", "impl_replay", jobs)
    ok = 0
    kinds = {}
    freqs = {}
    for job, res in zip(jobs, results):
        if "harness_exception" in res:
            raise common.MachineryError("C09 harness failed: %s\n%s" % (res["harness_exception"], res.get("tb", "")))
        for i, rec in enumerate(job["recs"]):
            got = {"ok": False, "what": "crash", "detail": "worker died: %s" % res["crash"]} if "crash" in res else res["out"][i]
            for rl in rec["rules"]:
                kinds[rl["kind"]] = kinds.get(rl["kind"], 0) + 1
                freqs[rl["freq"]] = freqs.get(rl["freq"], 0) + 1
            if got["ok"]:
                ok += 1
            else:
                sig = "+".join(sorted({"%s/%s" % (rl["kind"], rl["freq"]) for rl in rec["rules"]}))
                key = got["what"] if got["what"].startswith(("repeat-rule", "dt-rule")) else "replay:%s:%s" % (got["what"], sig)
                v.violation(key, got["detail"], {"rec": rec, "via": job["via"], "seed": job["seed"], "got": got})
    rc = v.finish()
    s = recs[3] if len(recs) > 3 else {}
    cov = {"states": g1.generated + g2.generated, "transitions": g1.generated + g2.generated, "traces_validated_against_impl": ok,
           "samples": [{"prog": s.get("prog"), "rules": s.get("rules"), "x0": s.get("x0"), "steps": s.get("steps", [])[:6], "rows": s.get("rows")}],
           "behaviours_replayed": len(recs), "behaviours_exact": ok, "rules_by_kind": kinds, "rules_by_frequency": freqs,
           "reaction_free_models": len(g2.records), "modes_property_checked": ["deterministic", "volume", "delay", "lineage single cell"], "checker_cmd": g1.cmd}
    common.write_evidence(PROP, tier, cov, time.time() - t0, len(v.alarms) + sum(v.known_hit.values()),
                          assumptions=["rule right-hand sides are affine with integer coefficients (general expressions are decided by C02); ode rates are integer multiples of 1/dt",
                                       "how often a rule runs at the initial instant is not part of the claim: start/time rules do not read their own target",
                                       "lineage single cells are run without growth, division or death rules (those are C19's subject)"])
    return rc


def replay(path):
    case = json.load(open(path))["case"]
    res = pool.run_jobs("c09", "impl_replay", [{"recs": [case["rec"]], "via": case.get("via", 0), "seed": case.get("seed", 1)}], nworkers=1)[0]
    print(json.dumps(res, indent=1))
    if not res["out"][0]["ok"]:
        print("VIOLATION property=%s replay=%s" % (PROP, path))
        return 1
    return 0
