"""X01 (not one of the listed properties; coverage of the specification beyond them): operations on recorded
lineages - Lineage.truncate_lineage, Lineage.get_schnitzes_by_generation, Schnitz.get_sub_lineage.

(M) spec/LineageOps.tla: every tree of up to MaxNodes cells, every window (in quarter time units, so that windows
    between two grid points are included), every sub-lineage root.  TLC checks that a truncated lineage is closed and
    mutual as far as both ends were kept, lies in the window, loses nothing inside the window and is the identity
    for a covering window; that generations partition the listing by depth; that a sub-lineage is the set of
    descendants in breadth-first order.  The vacuity probe EmptyCellReachable must be refuted.
(G) every emitted (tree, operation) is rebuilt from real Schnitz / Lineage / ExperimentalLineage objects; the
    operation's result is walked in parallel with the specification's (identity of the link targets, time / data /
    volume rows, listing order), and the original lineage is compared with a snapshot taken before the call.

A mismatch is reported as "CONFORMANCE-DRIFT extra=X01 ..." and exit 1; it is never reported against a listed property.
"""
import json
import os
import time

from .. import common, pool

PROP = "X01"
INVS = ["TruncOK", "GenOK", "SubOK"]


def impl_ops(job):
    import numpy as np
    from bioscrape.types import Schnitz, Lineage, ExperimentalLineage
    out = []
    for rec in job["recs"]:
        res = {"ok": True}
        try:
            nodes = rec["nodes"]
            for cls in ("Lineage", "ExperimentalLineage"):
                S = []
                for i, nd in enumerate(nodes):
                    t = np.arange(nd["lo"], nd["hi"] + 1, dtype=float)
                    S.append(Schnitz(t, np.array([[100.0 * i + x, 7.0 * i - x] for x in t]), 1.0 + 0.5 * i + 0.1 * t))
                for i, nd in enumerate(nodes):
                    if nd["parent"]:
                        S[i].py_set_parent(S[nd["parent"] - 1])
                    if nd["d1"]:
                        S[i].py_set_daughters(S[nd["d1"] - 1], S[nd["d2"] - 1])
                lin = Lineage() if cls == "Lineage" else ExperimentalLineage({"A": 0, "B": 1})
                for s in S:
                    lin.py_add_schnitz(s)

                def snap():
                    return [(id(s.py_get_parent()), id(s.py_get_daughters()[0]), id(s.py_get_daughters()[1]),
                             s.py_get_time().tolist(), s.py_get_data().tolist(), s.py_get_volume().tolist()) for s in S]

                def idx(x):
                    return 0 if x is None else 1 + next(i for i, s in enumerate(S) if s is x)

                before = snap()
                what = rec["what"]
                if what == "truncate":
                    new = lin.truncate_lineage(rec["s4"] / 4.0, rec["e4"] / 4.0)
                    want = [i for i, c in enumerate(rec["trunc"]) if c["kept"]]
                    if type(new).__name__ != cls:
                        res = {"ok": False, "what": "truncate:class", "detail": "%s.truncate_lineage returns a %s" % (cls, type(new).__name__)}
                        break
                    if new.py_size() != len(want):
                        res = {"ok": False, "what": "truncate:size", "detail": "window [%g, %g]: %d cells, the specification keeps %d" % (
                            rec["s4"] / 4.0, rec["e4"] / 4.0, new.py_size(), len(want))}
                        break
                    N = [new.py_get_schnitz(j) for j in range(new.py_size())]
                    pos = {i: j for j, i in enumerate(want)}     # original index -> position in the new listing

                    def nidx(x):
                        if x is None:
                            return 0
                        for j, s in enumerate(N):
                            if s is x:
                                return want[j] + 1
                        return -1      # a link that leaves the new lineage
                    for j, i in enumerate(want):
                        c = rec["trunc"][i]
                        s = N[j]
                        if any(s is o for o in S):
                            res = {"ok": False, "what": "truncate:shared-object", "detail": "cell %d of the result is the original object" % (i + 1)}
                            break
                        links = (nidx(s.py_get_parent()), nidx(s.py_get_daughters()[0]), nidx(s.py_get_daughters()[1]))
                        if links != (c["parent"], c["d1"], c["d2"]):
                            res = {"ok": False, "what": "truncate:links", "detail": "cell %d: (parent, d1, d2) = %r, the specification says %r" % (
                                i + 1, links, (c["parent"], c["d1"], c["d2"]))}
                            break
                        tt = [float(x) for x in c["times"]]
                        if s.py_get_time().tolist() != tt:
                            res = {"ok": False, "what": "truncate:times", "detail": "cell %d: times %r, the specification says %r" % (i + 1, s.py_get_time().tolist(), tt)}
                            break
                        if s.py_get_data().tolist() != [[100.0 * i + x, 7.0 * i - x] for x in tt] or \
                                not np.allclose(s.py_get_volume(), [1.0 + 0.5 * i + 0.1 * x for x in tt], rtol=0, atol=1e-12) or \
                                len(s.py_get_volume()) != len(tt):
                            res = {"ok": False, "what": "truncate:rows", "detail": "cell %d: data / volume rows are not the rows of the kept times" % (i + 1)}
                            break
                    if not res["ok"]:
                        break
                    if cls == "ExperimentalLineage" and new.py_get_species_index("B") != 1:
                        res = {"ok": False, "what": "truncate:species-indices", "detail": "the truncated experimental lineage lost its species indices"}
                        break
                    gl, gS, gidx = new, N, (lambda x: want[next(j for j, s in enumerate(N) if s is x)] + 1)
                else:
                    gl, gS, gidx = lin, S, idx
                # generations (of the truncated lineage as well)
                gens = [[gidx(x) for x in level] for level in gl.get_schnitzes_by_generation()]
                while gens and not gens[-1]:
                    gens.pop()
                if gens != [list(g) for g in rec["gens"]]:
                    res = {"ok": False, "what": "generations" + (":after-truncate" if what == "truncate" else ""),
                           "detail": "generations %r, the specification says %r" % (gens, rec["gens"])}
                    break
                if what == "sublineage":
                    sub = S[rec["k"] - 1].get_sub_lineage() if cls == "Lineage" else S[rec["k"] - 1].get_sub_lineage({"A": 0, "B": 1})
                    got = [idx(sub.py_get_schnitz(j)) for j in range(sub.py_size())]
                    if type(sub).__name__ != cls:
                        res = {"ok": False, "what": "sublineage:class", "detail": "asked for %s, got %s" % (cls, type(sub).__name__)}
                        break
                    if got != list(rec["sub"]):
                        res = {"ok": False, "what": "sublineage:order", "detail": "sub-lineage of cell %d lists %r, the specification says %r" % (rec["k"], got, rec["sub"])}
                        break
                if snap() != before:
                    res = {"ok": False, "what": what + ":original-changed", "detail": "the operation changed the original lineage"}
                    break
        except Exception as e:
            res = {"ok": False, "what": "exception:" + type(e).__name__, "detail": str(e)[:300]}
        out.append(res)
    return {"out": out}


def run(tier):
    t0 = time.time()
    seed = common.seed()
    quick = tier == "quick"
    nw = max(2, min(12, (os.cpu_count() or 4) - 2))
    cs = {"MaxNodes": "5" if quick else "7", "MaxLen": "2", "MaxT": "4" if quick else "5"}
    cfg = common.make_cfg("lineage_ops", spec="Spec", constants=cs, invariants=INVS + ["Emit"])
    r = common.run_tlc("LineageOps", cfg, workers=nw, allow_violation=True, keep_stdout=False)
    bad = []
    if r.violated:
        bad.append(("spec:" + r.violated, "TLC refuted %s on LineageOps.tla" % r.violated))
    vcfg = common.make_cfg("lineage_ops_vac", spec="Spec", constants={"MaxNodes": "3", "MaxLen": "2", "MaxT": "3"}, invariants=["EmptyCellReachable"])
    rv = common.run_tlc("LineageOps", vcfg, workers=1, allow_violation=True, keep_stdout=False)
    if not rv.violated:
        bad.append(("spec:vacuous:empty-cell", "no kept cell without time points is reachable: the window grid is too coarse"))
    recs = r.records
    jobs = [{"recs": ch} for ch in pool.chunks(recs, 200)]
    results = pool.run_jobs("x01", "impl_ops", jobs, nworkers=nw)
    ok = 0
    by = {}
    for job, res in zip(jobs, results):
        if "harness_exception" in res:
            raise common.MachineryError("X01 harness failed: %s\n%s" % (res["harness_exception"], res.get("tb", "")))
        for k, rec in enumerate(job["recs"]):
            got = {"ok": False, "what": "crash", "detail": "worker died: %s" % res["crash"]} if "crash" in res else res["out"][k]
            if got["ok"]:
                ok += 1
            else:
                by.setdefault(got["what"], []).append((got["detail"], rec))
    for k, cases in sorted(by.items()):
        bad.append((k, "%d cases, first: %s; tree %s op %s" % (len(cases), cases[0][0], json.dumps(cases[0][1]["nodes"]),
                                                              json.dumps({x: cases[0][1][x] for x in ("what", "s4", "e4", "k")}))))
    by_op = {}
    for rec in recs:
        by_op[rec["what"]] = by_op.get(rec["what"], 0) + 1
    cov = {"states": r.distinct, "transitions": r.generated, "operations_replayed": len(recs), "operations_in_agreement": ok,
           "by_operation": by_op, "classes": ["Lineage", "ExperimentalLineage"], "constants": cs,
           "empty_kept_cells": sum(1 for rec in recs if rec["what"] == "truncate" and any(c["kept"] and not c["times"] for c in rec["trunc"])),
           "checker_cmd": r.cmd}
    evdir = os.environ.get("VERIF_EVIDENCE_DIR", os.path.join(common.VERIF, "evidence_extra"))
    os.makedirs(evdir, exist_ok=True)
    with open(os.path.join(evdir, "X01.json"), "w") as fh:
        json.dump({"extra": PROP, "tier": tier, "seed": seed, "coverage": cov, "wall_s": round(time.time() - t0, 1), "drift": len(bad)}, fh, indent=1)
    print("[X01] states=%d operations=%d agreeing=%d %s" % (r.distinct, len(recs), ok, json.dumps(by_op)))
    for k, what in bad:
        print("CONFORMANCE-DRIFT extra=X01 key=%s: %s" % (k, what[:600]))
    return 1 if bad else 0
