"""C06 - every stochastic trajectory is a feasible reaction path.

(M) Ssa.tla in "chem" mode: exhaustive over all small networks (ordered sides, delayed parts,
    plain/safe) and all reachable chemical states: lattice membership with history counters,
    non-negativity of guarded mass-action networks and of every network in safe mode,
    non-negative propensities, Absorbing and SafeEnabled as action properties.
(T) the REAL simulators (plain, safe, volume, delay) run with real seeds on TLC-generated programs;
    the guarded event log (one event per loop iteration) is validated by spec/TraceSsa.tla, which
    re-uses the specification's operators and evaluates every clause at every step; one verdict per
    trace, a rejection names the failing clause and event.
"""
import json
import os
import time

from .. import common, pool
from ..rat import f
from ..build import build
from . import c05

PROP = "C06"
KINDS = ["ssa", "ssa", "volume", "delay"]
VOLS = [[1, 2], [3, 2], [2, 1]]


def impl_trace(job):
    import numpy as np
    from bioscrape.types import Volume
    from bioscrape.simulator import (ModelCSimInterface, SafeModelCSimInterface, SSASimulator, VolumeSSASimulator,
                                     DelaySSASimulator, ArrayDelayQueue, py_verif_trace)
    import bioscrape.random as brandom
    out = []
    for t in job["items"]:
        rec, kind, seed = t["rec"], t["kind"], t["seed"]
        res = {"id": t["id"], "kind": kind}
        try:
            m, _ = build(rec["prog"], x0=[[v, 1] for v in rec["x0"]], ns=rec["ns"])
            s2i = m.get_species2index()
            cols = [s2i["S%d" % (i + 1)] for i in range(rec["ns"])]
            itf = SafeModelCSimInterface(m) if rec["safe"] else ModelCSimInterface(m)
            tp = np.array([f(x) for x in rec["tp"]])
            dt = float(tp[1] - tp[0])
            itf.py_set_dt(dt)
            if t["id"] % 2 == 1:
                # history: the same model and interface were simulated before in ANOTHER mode (not traced, not judged); a
                # simulation leaves nothing behind in the model - every trajectory of the traced run is judged as usual
                brandom.py_seed_random(seed + 1)
                warm = {"ssa": "volume", "volume": "delay", "delay": "volume"}[kind]
                if warm == "delay" and any(rx["dre"] for rx in rec["prog"]["rx"]):
                    warm = "ssa"
                if warm == "volume":
                    v0 = Volume()
                    v0.py_set_volume(f(t["V"]))
                    VolumeSSASimulator().py_volume_simulate(itf, v0, tp)
                elif warm == "delay":
                    DelaySSASimulator().py_delay_simulate(itf, ArrayDelayQueue.setup_queue(len(rec["prog"]["rx"]), len(tp), dt), tp)
                else:
                    SSASimulator().py_simulate(itf, tp)
            brandom.py_seed_random(seed)
            py_verif_trace(True)
            pending = None
            if kind == "ssa":
                r = SSASimulator().py_simulate(itf, tp)
            elif kind == "volume":
                v = Volume()
                v.py_set_volume(f(t["V"]))
                r = VolumeSSASimulator().py_volume_simulate(itf, v, tp)
            else:
                q = ArrayDelayQueue.setup_queue(len(rec["prog"]["rx"]), len(tp), dt)
                r = DelaySSASimulator().py_delay_simulate(itf, q, tp)
                fq = r.py_get_delay_queue()
                pending = [0.0] * len(rec["prog"]["rx"])
                for _ in range(len(tp)):
                    a = np.zeros(len(pending))
                    fq.py_get_next_reactions(a)
                    fq.py_advance_time()
                    pending = [p + float(x) for p, x in zip(pending, a)]
            log = py_verif_trace(False)
            rows = r.py_get_result()
            bad_int = None
            ev = []
            for e in log:
                tag, k = e[0], e[1]
                st = [float(e[9][c]) for c in cols]
                if any(not x.is_integer() for x in st):
                    bad_int = st
                item = {"k": {"vstep": "vstep"}.get(k, k), "r": int(e[4]) + 1 if e[4] >= 0 else 0, "i0": int(e[2]), "i1": int(e[3]),
                        "x": [int(x) for x in st], "z": [1 if p == 0 else 0 for p in e[8]], "dq": 0,
                        "q": [0] * len(rec["prog"]["rx"])}
                if tag == "delay" and k == "fire":
                    item["dq"] = 1 if e[11] > 0 else 0
                if tag == "delay" and k == "queue":
                    item["q"] = [int(x) for x in e[10]]
                ev.append(item)
            rr = [[float(rows[i, c]) for c in cols] for i in range(rows.shape[0])]
            if bad_int is None and any(not x.is_integer() for row in rr for x in row):
                bad_int = "row"
            res.update({"ev": ev, "rows": [[int(x) for x in row] for row in rr], "non_integer": bad_int,
                        "pending": [int(p) for p in pending] if pending is not None else [0] * len(rec["prog"]["rx"]),
                        "nfire": sum(1 for e in ev if e["k"] == "fire")})
        except BaseException as e:  # noqa
            try:
                py_verif_trace(False)
            except Exception:
                pass
            res["exc"] = repr(e)[:300]
        out.append(res)
    return {"out": out}


def impl_rows(job):
    """Hook-free runs: only the reported rows of real seeded simulations (plain / safe / volume)."""
    import numpy as np
    from bioscrape.types import Volume
    from bioscrape.simulator import ModelCSimInterface, SafeModelCSimInterface, SSASimulator, VolumeSSASimulator
    import bioscrape.random as brandom
    out = []
    for t in job["items"]:
        rec = t["rec"]
        res = {"id": t["id"]}
        try:
            m, _ = build(rec["prog"], x0=[[v, 1] for v in rec["x0"]], ns=rec["ns"])
            s2i = m.get_species2index()
            cols = [s2i["S%d" % (i + 1)] for i in range(rec["ns"])]
            itf = SafeModelCSimInterface(m) if rec["safe"] else ModelCSimInterface(m)
            tp = np.array([f(x) for x in rec["tp"]])
            itf.py_set_dt(float(tp[1] - tp[0]))
            brandom.py_seed_random(t["seed"])
            if t["vol"]:
                v = Volume()
                v.py_set_volume(f(t["V"]))
                rows = VolumeSSASimulator().py_volume_simulate(itf, v, tp).py_get_result()
            else:
                rows = SSASimulator().py_simulate(itf, tp).py_get_result()
            rr = [[float(rows[i, c]) for c in cols] for i in range(rows.shape[0])]
            res["non_integer"] = any(not x.is_integer() for row in rr for x in row)
            res["rows"] = [[int(x) for x in row] for row in rr]
        except BaseException as e:  # noqa
            res["exc"] = repr(e)[:300]
        out.append(res)
    return {"out": out}


def closed(prog):
    """every reaction has reactants and does not increase the total count: finite reachable set"""
    for rx in prog["rx"]:
        if rx["law"]["type"] != "massaction" or len(rx["re"]) == 0:
            return False
        if len(rx["pr"]) + len(rx["dpr"]) > len(rx["re"]) + len(rx["dre"]):
            return False
    return True


def validate_rows(traces, ns):
    tag = "%d_%d_%s" % (ns, len(traces), traces[0]["id"])
    path = os.path.join(common.tmpdir(), "rows_ns%s.json" % tag)
    with open(path, "w") as fh:
        json.dump(traces, fh, indent=0)
    cfg = common.make_cfg("tracerows_" + tag, spec="Spec", constants={"NS": str(ns)})
    r = common.run_tlc("TraceRows", cfg, workers=1, env_extra={"TRACE_FILE": path}, keep_stdout=False, timeout=3000)
    return {rec["tid"]: rec for rec in r.records}, r


def chem_runs(tier):
    base = {"NS": "2", "NT": "3", "Mode": '"chem"'}
    runs = [("chem_1rx", dict(base, MaxRx="1", MaxSide="2", MaxCount="5"))]
    if tier == "thorough":
        runs.append(("chem_2rx", dict(base, MaxRx="2", MaxSide="1", MaxCount="4")))
        runs.append(("chem_1rx3", dict(base, NS="3", MaxRx="1", MaxSide="2", MaxCount="3")))
    return runs


CHEM_INV = ["Lattice", "NonNegMassAction", "NonNegSafe", "PropsNonNeg"]
CHEM_PROP = ["Absorbing", "SafeEnabled"]


def validate(traces, ns):
    """Run TraceSsa on one batch (all traces share NS); returns verdict records by id."""
    tag = "%d_%d_%s" % (ns, len(traces), traces[0]["id"])
    path = os.path.join(common.tmpdir(), "trace_ns%s.json" % tag)
    with open(path, "w") as fh:
        json.dump(traces, fh, indent=0)  # gson chokes on lines longer than 32 kB
    cfg = common.make_cfg("tracessa_" + tag, spec="Spec", constants={"NS": str(ns)})
    r = common.run_tlc("TraceSsa", cfg, workers=1, env_extra={"TRACE_FILE": path}, keep_stdout=False, timeout=3000)
    return {rec["tid"]: rec for rec in r.records}, r


def run(tier):
    import concurrent.futures as cf
    t0 = time.time()
    seed = common.seed()
    v = common.Verdict(PROP)
    states = trans = 0
    mc = []
    for name, consts in chem_runs(tier):
        cfg = common.make_cfg("ssa_" + name, spec="Spec", constants=consts, invariants=CHEM_INV, properties=CHEM_PROP,
                              constraints=["Bounded"])
        r = common.run_tlc("Ssa", cfg, allow_violation=True, timeout=3000)
        if r.violated:
            v.violation("spec:" + r.violated, "TLC refuted %s on Ssa.tla (%s)" % (r.violated, name), {"tlc_tail": r.stdout[-3000:]})
        states += r.distinct
        trans += r.generated
        mc.append({"config": name, "distinct": r.distinct, "generated": r.generated})
    # programs for the real runs: TLC-built (Ssa.tla, sim mode)
    n = 1200 if tier == "quick" else 8000
    g1 = common.run_tlc_many("Ssa", c05.ssa_cfg("c06_sim_a", 2, 3, 2, 6), 6, n, 90, seed + 3, allow_violation=True)
    g2 = common.run_tlc_many("Ssa", c05.ssa_cfg("c06_sim_b", 3, 3, 3, 5), 6, n // 2, 90, seed + 4, allow_violation=True)
    g3 = common.run_tlc_many("Ssa", c05.ssa_cfg("c06_sim_c", 3, 6, 2, 5), 6, n // 2, 90, seed + 5, allow_violation=True)
    # (TraceSsa / TraceRows take the first reported row for the initial condition: grids that start at the initial time)
    recs = [r for r in g1.records + g2.records + g3.records
            if len({round(f(r["tp"][i + 1]) - f(r["tp"][i]), 12) for i in range(len(r["tp"]) - 1)}) == 1 and f(r["tp"][0]) == 0.0]
    items = []
    for i, rec in enumerate(recs):
        for k in range(2 if tier == "quick" else 4):
            kind = KINDS[(i + k) % 4]
            # the delay simulator consumes delayed reactants at delivery time, when nothing guards their
            # supply: such programs may legitimately go negative there, so they are not run in delay mode
            if kind == "delay" and any(rx["dre"] for rx in rec["prog"]["rx"]):
                kind = "ssa"
            items.append({"id": len(items) + 1, "rec": rec, "kind": kind, "seed": seed * 100003 + 17 * i + k + 1,
                          "V": VOLS[(i + k) % 3]})
    jobs = [{"items": ch} for ch in pool.chunks(items, 40)]
    results = pool.run_jobs("c06", "impl_trace", jobs)
    traces = {}
    byid = {it["id"]: it for it in items}
    nfire = 0
    skipped_unbounded = 0
    for job, res in zip(jobs, results):
        if "harness_exception" in res:
            raise common.MachineryError("C06 harness failed: %s\n%s" % (res["harness_exception"], res.get("tb", "")))
        if "crash" in res:
            kinds = sorted({it["kind"] for it in job["items"]})
            v.violation("crash:%s" % "+".join(kinds), "simulator worker died: %s" % res["crash"], {"items": job["items"][:3]})
            continue
        for o in res["out"]:
            it = byid[o["id"]]
            if "exc" in o:
                v.violation("exception:%s" % o["kind"], o["exc"], {"item": it})
                continue
            if o["non_integer"] is not None:
                v.violation("non-integer:%s" % o["kind"], "integer initial counts produced a non-integer state %r" % (o["non_integer"],), {"item": it})
                continue
            # the quantifier is over networks with bounded dynamics: an exploding run (autocatalysis) is
            # out of scope, and its numbers would not fit TLC's 32-bit integers anyway
            if len(o["ev"]) > 600 or any(abs(c) > 150 for e in o["ev"] for c in e["x"]):
                skipped_unbounded += 1
                continue
            nfire += o["nfire"]
            rec = it["rec"]
            traces.setdefault(rec["ns"], []).append({"id": o["id"], "prog": rec["prog"], "safe": rec["safe"], "x0": rec["x0"],
                                                     "kind": {"ssa": "ssa"}.get(o["kind"], o["kind"]), "V": it["V"],
                                                     "ev": o["ev"], "rows": o["rows"], "pending": o["pending"]})
    verdicts = {}
    tstates = 0
    with cf.ThreadPoolExecutor(max_workers=8) as ex:
        futs = []
        for ns, trs in traces.items():
            for ch in pool.chunks(trs, 150):
                futs.append(ex.submit(validate, ch, ns))
        for fu in futs:
            vd, r = fu.result()
            verdicts.update(vd)
            tstates += r.distinct
    accepted = 0
    clauses = {}
    for ns, trs in traces.items():
        for tr in trs:
            vd = verdicts.get(tr["id"])
            if vd is None:
                raise common.MachineryError("no verdict for trace %s" % tr["id"])
            if vd["verdict"] == "accepted":
                accepted += 1
            else:
                it = byid[tr["id"]]
                clauses[vd["clause"]] = clauses.get(vd["clause"], 0) + 1
                v.violation("%s:%s:safe=%s" % (vd["clause"], tr["kind"], tr["safe"]),
                            "trace rejected at event %d of %d: clause %s" % (vd["at"], vd["events"], vd["clause"]),
                            {"item": it, "trace": tr, "verdict": vd})
    # ---- rows-only validation without any hook, on closed networks (complete: a missing path is a violation)
    citems = []
    for i, rec in enumerate(r for r in recs if closed(r["prog"]) and sum(r["x0"]) <= 12):
        for k in range(2):
            citems.append({"id": len(citems) + 1, "rec": rec, "seed": seed * 7907 + 13 * i + k + 1, "vol": bool((i + k) % 3 == 0), "V": VOLS[(i + k) % 3]})
    citems = citems[: (400 if tier == "quick" else 6000)]
    rres = pool.run_jobs("c06", "impl_rows", [{"items": ch} for ch in pool.chunks(citems, 40)])
    cby = {it["id"]: it for it in citems}
    rtr = {}
    for res in rres:
        if "out" not in res:
            v.violation("crash:rows-only", "simulator worker died: %r" % (res.get("crash"),), {})
            continue
        for o in res["out"]:
            it = cby[o["id"]]
            if "exc" in o:
                v.violation("exception:rows-only", o["exc"], {"rows_item": it})
            elif o["non_integer"]:
                v.violation("non-integer:rows-only", "integer initial counts produced non-integer rows", {"rows_item": it})
            else:
                rec = it["rec"]
                rtr.setdefault(rec["ns"], []).append({"id": o["id"], "prog": rec["prog"], "safe": rec["safe"], "x0": rec["x0"],
                                                      "vol": it["vol"], "V": it["V"], "rows": o["rows"]})
    rows_ok = 0
    with cf.ThreadPoolExecutor(max_workers=8) as ex:
        futs = [ex.submit(validate_rows, ch, ns) for ns, trs in rtr.items() for ch in pool.chunks(trs, 60)]
        rverd = {}
        for fu in futs:
            vd, r = fu.result()
            rverd.update(vd)
            tstates += r.distinct
    for ns, trs in rtr.items():
        for tr in trs:
            vd = rverd.get(tr["id"])
            if vd is None:
                raise common.MachineryError("no verdict for rows-only trace %s" % tr["id"])
            if vd["verdict"] == "accepted":
                rows_ok += 1
            else:
                v.violation("rows-only:%s:safe=%s:vol=%s" % (vd["clause"], tr["safe"], tr["vol"]),
                            "no sequence of enabled firings explains rows %d -> %d" % (vd["at"], vd["at"] + 1) if vd["clause"] == "no-feasible-path" else vd["clause"],
                            {"rows_item": cby[tr["id"]], "trace": tr, "verdict": vd})
    rc = v.finish()
    ntr = sum(len(t) for t in traces.values())
    some = next(iter(traces.values()))[0] if traces else {}
    cov = {"states": states + tstates, "transitions": trans + tstates, "traces_validated_against_impl": accepted + rows_ok, "rows_only_traces_on_closed_networks": len(citems), "rows_only_accepted": rows_ok,
           "samples": [{"prog": some.get("prog"), "kind": some.get("kind"), "x0": some.get("x0"), "events": some.get("ev", [])[:6]}],
           "exhaustive_chemistry": mc, "traces_recorded": ntr, "runs_skipped_unbounded_dynamics": skipped_unbounded, "fire_events_validated": nfire,
           "kinds": {k: sum(1 for t in traces.values() for tr in t if tr["kind"] == k) for k in ("ssa", "volume", "delay")},
           "rejected_by_clause": clauses, "checker_cmd": "tlc Ssa (chem mode) ; tlc TraceSsa (TRACE_FILE=<batch>)"}
    common.write_evidence(PROP, tier, cov, time.time() - t0, len(v.alarms) + sum(v.known_hit.values()),
                          assumptions=["'full complement of reactants' is read as net consumption (immediate + delayed), as the safe interface's requirement table does",
                                       "non-negativity is claimed for safe mode and for mass-action networks without delayed reactants (a delayed reactant is consumed on top of what the rate law guards)",
                                       "floating-point event times are not validated here (their order relative to the grid is, through i0/i1); exact-time logic is covered by the scripted replay of C05"])
    return rc


def replay(path):
    case = json.load(open(path))["case"]
    if "rows_item" in case:
        it = case["rows_item"]
        o = pool.run_jobs("c06", "impl_rows", [{"items": [it]}], nworkers=1)[0]["out"][0]
        if "exc" in o or o.get("non_integer"):
            print(json.dumps(o)[:1500])
            print("VIOLATION property=%s replay=%s" % (PROP, path))
            return 1
        rec = it["rec"]
        vd, _ = validate_rows([{"id": o["id"], "prog": rec["prog"], "safe": rec["safe"], "x0": rec["x0"], "vol": it["vol"], "V": it["V"], "rows": o["rows"]}], rec["ns"])
        print(json.dumps(vd, indent=1))
        if any(x["verdict"] != "accepted" for x in vd.values()):
            print("VIOLATION property=%s replay=%s" % (PROP, path))
            return 1
        return 0
    it = case["item"]
    res = pool.run_jobs("c06", "impl_trace", [{"items": [it]}], nworkers=1)[0]
    o = res["out"][0]
    if "exc" in o or o.get("non_integer") is not None:
        print(json.dumps(o)[:2000])
        print("VIOLATION property=%s replay=%s" % (PROP, path))
        return 1
    rec = it["rec"]
    tr = {"id": o["id"], "prog": rec["prog"], "safe": rec["safe"], "x0": rec["x0"], "kind": o["kind"], "V": it["V"],
          "ev": o["ev"], "rows": o["rows"], "pending": o["pending"]}
    vd, _ = validate([tr], rec["ns"])
    print(json.dumps(vd, indent=1))
    if any(x["verdict"] != "accepted" for x in vd.values()):
        print("VIOLATION property=%s replay=%s" % (PROP, path))
        return 1
    return 0
