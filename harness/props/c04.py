"""C04 - deterministic simulation solves the model's rate equations.

(M) spec/Ode.tla: five closed-form solution families (F5: F2 with a replicating first species, growing solutions on
    long-gap grids that need more than the integrator's first step budget; F1 rates depending on t only -> polynomials; F2
    first-order feed-forward networks with pairwise distinct exit rates -> sums of exponentials by forward
    substitution; F3 second-order decay with equal amounts -> rational functions; F4 production at rate
    k exp(-c t)), delayed reactants/products counted as if the delay were zero.  TLC checks the CERTIFICATE
    of every generated member: x(0) = x0 and the residual x'(t) - S rate(x(t), t), evaluated through the
    rate definitions of RateLaws / Expr, vanishes identically (coefficient-wise / at degree+1 sample times for
    polynomials and rational functions, exponent-wise for exponential sums), plus conservation laws.
(G) spec/OdeGen.tla emits models (disjoint unions of 1..2 family members, uniform and non-uniform rational
    time grids starting at 0) with the exact solution rows; py_simulate_model(stochastic=False) and
    DeterministicSimulator.py_simulate(...).py_get_result() must start at the initial condition and agree at
    every requested time with |impl - spec| <= 2e-5 (1 + |spec|).
"""
import json
import os
import time

from .. import common, pool
from ..rat import f
from . import c02

PROP = "C04"
RTOL = 2e-5
DELAYS = [("fixed", {"delay": 1.5}), ("gaussian", {"mean": 2.0, "std": 0.5}), ("gamma", {"k": 2.0, "theta": 0.5})]


def _nw():
    return max(2, int(os.environ.get("VERIF_WORKERS", common.NCPU)))


def sname(n, i):
    return "b%ds%d" % (n, i)


def build_model(rec, variant):
    from bioscrape.types import Model
    species, ic, rxs, params = [], {}, [], []
    for n, b in enumerate(rec["blocks"]):
        for i in range(1, b["ns"] + 1):
            species.append(sname(n, i))
            ic[sname(n, i)] = f(b["x0"][i - 1])
        for r, rx in enumerate(b["rx"]):
            nm = lambda lst: [sname(n, s) for s in lst]   # noqa
            named = (r + variant) % 2 == 0

            def val(key, q):
                if named:
                    pn = "%s_b%dr%d" % (key, n, r)
                    params.append((pn, f(q)))
                    return pn
                return f(q)
            kind = rx["kind"]
            if kind == "massaction":
                pd = {"k": val("k", rx["k"])}
            elif kind == "general":
                pd = {"rate": c02.render(rx["e"], {"sp": [], "par": []}, c02.STYLES[(r + variant) % 3], False)}
            else:
                pd = {"k": val("k", rx["k"]), "K": val("K", rx["K"]), "n": val("n", rx["n"]), "s1": sname(n, rx["s1"])}
            if rx["dre"] or rx["dpr"]:
                dt, dp = DELAYS[(r + n + variant) % 3]
                rxs.append((nm(rx["re"]), nm(rx["pr"]), kind, pd, dt, nm(rx["dre"]), nm(rx["dpr"]), dict(dp)))
            else:
                rxs.append((nm(rx["re"]), nm(rx["pr"]), kind, pd))
    order = species if variant % 2 == 0 else list(reversed(species))
    m = Model(species=order, reactions=rxs, parameters=params, initial_condition_dict=ic)
    return m, species


def impl_sim(job):
    import warnings
    import numpy as np
    from bioscrape.simulator import py_simulate_model, ModelCSimInterface, DeterministicSimulator
    warnings.simplefilter("ignore")
    out = []
    for rec in job["recs"]:
        r = {}
        try:
            tp = np.array([f(t) for t in rec["times"]], dtype=float)
            m, species = build_model(rec, rec["variant"])
            df = py_simulate_model(tp, Model=m, stochastic=False)
            r["model"] = {"time": [float(x) for x in df["time"].values], "cols": {s: [float(x) for x in df[s].values] for s in species}}
            m2, _ = build_model(rec, rec["variant"])
            itf = ModelCSimInterface(m2)
            itf.py_prep_deterministic_simulation()
            if rec["uniform"]:
                itf.py_set_dt(float(tp[1] - tp[0]))
            # another model is prepared (and, for every other record, simulated) in between: the trajectory must be that
            # of the interface handed to py_simulate, not of whatever was prepared last (module-level solver state)
            from bioscrape.types import Model as _Model
            decoy = _Model(species=["S1", "S2", "S3", "Q"][: max(2, len(species))], reactions=[(["S1"], ["S2"], "massaction", {"k": 7.5}), ([], ["S1"], "massaction", {"k": 3.25})],
                           initial_condition_dict={"S1": 9.0, "S2": 1.0})
            ditf = ModelCSimInterface(decoy)
            ditf.py_prep_deterministic_simulation()
            if rec["variant"] % 2 == 1:
                py_simulate_model(np.linspace(0, 1, 4), Model=decoy, stochastic=False)
            res = DeterministicSimulator().py_simulate(itf, tp)
            arr = np.array(res.py_get_result(), dtype=float)
            s2i = m2.get_species2index()
            r["simulator"] = {"time": [float(x) for x in res.py_get_timepoints()], "shape": list(arr.shape),
                              "cols": {s: [float(x) for x in arr[:, s2i[s]]] for s in species}}
            # the SAME interface object once more, through the entry point (which prepares it again) and through the
            # simulator: an interface carries nothing over from one deterministic simulation to the next
            res2 = py_simulate_model(tp, Interface=itf, stochastic=False, return_dataframe=False)
            res3 = DeterministicSimulator().py_simulate(itf, tp)
            for tag, rr in (("interface-again", res2), ("simulator-again", res3)):
                arr2 = np.array(rr.py_get_result(), dtype=float)
                r[tag] = {"time": [float(x) for x in rr.py_get_timepoints()], "shape": list(arr2.shape),
                          "cols": {s: [float(x) for x in arr2[:, s2i[s]]] for s in species}}
        except Exception as e:  # noqa
            import traceback
            r["exc"] = "%s: %s" % (type(e).__name__, str(e)[:200])
            r["tb"] = traceback.format_exc()[-600:]
        out.append(r)
    return {"out": out}


def expected(rec):
    """species name -> list of floats (one per time), from the spec's exact rows"""
    exp = {}
    for ti, row in enumerate(rec["rows"]):
        for n, blk in enumerate(row):
            for i, svv in enumerate(blk):
                exp.setdefault(sname(n, i + 1), []).append(c02.sv_float(svv)[0])
    return exp


def has_delay(b):
    return any(rx["dre"] or rx["dpr"] for rx in b["rx"])


def judge(rec, got):
    bad = []
    stats = {"rows": 0, "max_rel": 0.0}
    fams = "+".join(b["fam"] for b in rec["blocks"])
    if "exc" in got:
        return [("exception:%s" % got["exc"].split(":")[0], "deterministic simulation raised %s" % got["exc"])], stats
    exp = expected(rec)
    times = [f(t) for t in rec["times"]]
    for path in ("model", "simulator", "interface-again", "simulator-again"):
        g = got[path]
        if len(g["time"]) != len(times) or any(abs(a - b) > 1e-12 for a, b in zip(g["time"], times)):
            bad.append(("time-axis:%s" % path, "time axis %s instead of %s" % (g["time"], times)))
            continue
        for n, b in enumerate(rec["blocks"]):
            worst = None
            for i in range(1, b["ns"] + 1):
                s = sname(n, i)
                col = g["cols"][s]
                if abs(col[0] - f(b["x0"][i - 1])) > 1e-12:
                    bad.append(("first-row:%s" % path, "first row of %s is %r, initial condition %r" % (s, col[0], f(b["x0"][i - 1]))))
                for ti, (a, e) in enumerate(zip(col, exp[s])):
                    stats["rows"] += 1
                    rel = abs(a - e) / (1 + abs(e)) if a == a else float("inf")
                    stats["max_rel"] = max(stats["max_rel"], rel)
                    if not rel <= RTOL and (worst is None or rel > worst[0]):
                        worst = (rel, s, times[ti], a, e)
            if worst:
                tag = b["fam"] + (":" + b["var"] if b["var"] else "") + (":delayed" if has_delay(b) else "")
                bad.append(("trajectory:%s:%s" % (tag, path),
                            "%s(t=%s) = %r, exact solution %r (relative deviation %.2g > %.0e); model %s, block %s" % (
                                worst[1], worst[2], worst[3], worst[4], worst[0], RTOL, fams, json.dumps(b["rx"])[:300])))
    return bad, stats


def run(tier):
    t0 = time.time()
    v = common.Verdict(PROP)
    seed = common.seed()
    quick = tier == "quick"
    cfg = common.make_cfg("odegen", spec="Spec", constants={"MaxBlocks": "2"}, invariants=["Certificates", "GridOk", "Emit"])
    ntr = 900 if quick else 8000
    nproc = max(2, min(8, _nw() - 2))
    rg = common.run_tlc_many("OdeGen", cfg, nproc, ntr, 8, seed, allow_violation=True)
    if rg.violated:
        v.violation("spec:" + rg.violated, "TLC refuted %s on Ode/OdeGen: a closed form is not a solution of its rate equations" % rg.violated,
                    {"tlc_tail": rg.stdout[-3000:]})
    t_tlc = time.time() - t0
    recs = rg.records
    for i, rec in enumerate(recs):
        rec["variant"] = (i + seed) % 4
    jobs = [{"recs": ch} for ch in pool.chunks(recs, 10)]
    results = pool.run_jobs("c04", "impl_sim", jobs, nworkers=_nw())
    failing = {}
    rows = 0
    max_rel = 0.0
    ok = 0
    fam_count, delayed_blocks, nonuniform = {}, 0, 0
    for job, res in zip(jobs, results):
        if "harness_exception" in res:
            raise common.MachineryError("C04 harness failed: %s\n%s" % (res["harness_exception"], res.get("tb", "")))
        if "crash" in res:
            v.violation("crash", "worker died with status %s in the deterministic simulation" % res["crash"], {"recs": job["recs"][:2]})
            continue
        for rec, got in zip(job["recs"], res["out"]):
            bad, st = judge(rec, got)
            rows += st["rows"]
            max_rel = max(max_rel, st["max_rel"])
            ok += 0 if bad else 1
            nonuniform += 0 if rec["uniform"] else 1
            for b in rec["blocks"]:
                fam_count[b["fam"]] = fam_count.get(b["fam"], 0) + 1
                delayed_blocks += 1 if has_delay(b) else 0
            size = sum(len(b["rx"]) * 10 + b["ns"] for b in rec["blocks"]) + len(rec["times"])
            for key, text in bad:
                cur = failing.setdefault(key, {"n": 0, "size": 10 ** 9})
                cur["n"] += 1
                if size < cur["size"]:
                    cur.update(size=size, text=text, rec=rec, got=got)
    for key, fl in sorted(failing.items()):
        v.violation(key, "%s [%d models; smallest shown]" % (fl["text"], fl["n"]), {"rec": fl["rec"], "got": fl["got"]})
    rc = v.finish()
    smp = recs[len(recs) // 2] if recs else None
    cov = {"states": rg.distinct, "transitions": rg.generated, "traces_validated_against_impl": len(recs),
           "samples": [{"blocks": [{"fam": b["fam"], "var": b["var"], "x0": b["x0"], "rx": [{k: rx[k] for k in ("re", "pr", "dre", "dpr", "kind", "k")} for rx in b["rx"]]}
                                   for b in smp["blocks"]], "times": smp["times"], "last_row": smp["rows"][-1]}] if smp else [{}],
           "exhaustive": False, "models": len(recs), "models_in_agreement": ok, "family_members": fam_count,
           "blocks_with_delayed_parts": delayed_blocks, "non_uniform_grids": nonuniform, "rows_compared": rows,
           "max_relative_deviation": max_rel, "tolerance": RTOL, "paths": ["py_simulate_model(stochastic=False)", "DeterministicSimulator.py_simulate"],
           "certificates_checked_states": rg.distinct, "tlc_wall_s": round(t_tlc, 1), "checker_cmd": rg.cmd}
    common.write_evidence(PROP, tier, cov, time.time() - t0, len(v.alarms) + sum(v.known_hit.values()),
                          assumptions=["A-ODE: only the five closed-form families (F5: growing first-order networks on long-gap grids) (and disjoint unions of two members) are decided; Hill laws enter with a constant regulator, state-dependent general rates through C01/C02/C03",
                                       "tolerance 2e-5 (1 + |x|): the integrator runs at rtol = atol = 1.49e-8",
                                       "exp(q) atoms of the exact rows are evaluated with one math.exp each"])
    return rc


def replay(path):
    case = json.load(open(path))["case"]
    if "rec" not in case:
        print(json.dumps(case, indent=1)[:3000])
        return 1
    res = pool.run_jobs("c04", "impl_sim", [{"recs": [case["rec"]]}], nworkers=1)[0]
    bad, st = judge(case["rec"], res["out"][0])
    print(json.dumps({"failing": bad, "stats": st}, indent=1))
    if bad:
        print("VIOLATION property=%s replay=%s" % (PROP, path))
        return 1
    return 0
