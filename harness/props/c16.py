"""C16 - built-in priors are the log-densities they are named after.

(M) spec/Priors.tla (+SymVal, PriorProbe): support and exact log-density of the seven families in a
    canonical symbolic form (logs decomposed over primes); TLC checks density identities that pin
    the normalising constants on every single-prior grid point.
(G) every single component (family x parameters x value inside / near / on the boundary / outside /
    negative x positive-flag) and random vectors of 1..4 components are evaluated with the real
    PIDInterface.check_prior; Rejected <=> non-finite, otherwise the value must equal the exact sum;
    rejected vectors are also pushed through InferenceSetup.cost_function (must be -inf).
"""
import json
import math
import time

from .. import common, pool
from ..rat import f, close, symval

PROP = "C16"


def _prior_entry(c):
    pr = c["pr"]
    fam = pr["fam"]
    if fam in ("exponential",):
        e = [fam, f(pr["p1"])]
    else:
        e = [fam, f(pr["p1"]), f(pr["p2"])]
    if c["positive"]:
        e.append("positive")
    return e


_CACHE = {}


def _model():
    if "m" not in _CACHE:
        from bioscrape.types import Model
        _CACHE["m"] = Model(species=["y"], parameters={"p0": 1.0, "p1": 1.0, "p2": 1.0, "p3": 1.0},
                            rules=[("assignment", {"equation": "y = p0*t + p1 + 0*p2 + 0*p3"})],
                            initial_condition_dict={"y": 0})
    return _CACHE["m"]


def impl_eval(job):
    import warnings
    import numpy as np
    import pandas as pd
    from bioscrape.pid_interfaces import PIDInterface
    from bioscrape.inference_setup import InferenceSetup
    warnings.simplefilter("ignore")
    np.seterr(all="ignore")
    out = []
    m = _model()
    for n_rec, rec in enumerate(job["recs"]):
        vec = rec["vec"]
        names = ["p%d" % i for i in range(len(vec))]
        prior = {n: _prior_entry(c) for n, c in zip(names, vec)}
        vals = {n: f(c["x"]) for n, c in zip(names, vec)}
        prior_pid = prior
        if n_rec % 2 == 1:
            # the log-prior of a vector is a SUM over parameters (Priors.tla): the order in which the prior dictionary and
            # the sampled values are written is immaterial, and so is a prior for a parameter that is not estimated
            prior = {n: prior[n] for n in reversed(names)}
            prior_pid = dict([("p3" if len(names) < 4 else "p2", ["uniform", 0.0, 1.0])] + list(prior.items())) if len(names) < 4 else prior
            vals = {n: vals[n] for n in (names[1:] + names[:1])}
        try:
            pid = PIDInterface(names, m, prior_pid)
            lp = pid.check_prior(dict(vals))
            r = {"lp": None if lp is None else float(lp)}
        except BaseException as e:  # noqa
            r = {"exc": repr(e)[:200]}
        if rec.get("via_cost"):
            try:
                df = pd.DataFrame({"t": [0.0, 1.0, 2.0], "y": [1.0, 2.0, 3.0]})
                IS = InferenceSetup(Model=m, params_to_estimate=names, prior=prior, exp_data=[df], measurements=["y"],
                                    time_column="t", nwalkers=10, nsteps=2, initial_conditions={"y": 0.0},
                                    sim_type="deterministic")
                c = IS.cost_function(np.array([vals[n] for n in names]))
                r["cost"] = float(c)
            except BaseException as e:  # noqa
                r["cost_exc"] = repr(e)[:300]
        out.append(r)
    return {"out": out}


def judge(rec, got):
    fams = "+".join(sorted({c["pr"]["fam"] for c in rec["vec"]})) if len(rec["vec"]) > 1 else rec["vec"][0]["pr"]["fam"]
    if "exc" in got:
        return "violation", "%s:exception" % fams, "check_prior raised %s" % got["exc"]
    lp = got["lp"]
    finite = lp is not None and math.isfinite(lp)
    if rec["outcome"] == "rejected":
        if finite:
            c = [c for c in rec["vec"] if True]
            bad = [c for c in rec["vec"]]
            which = _which_rejects(rec)
            return "violation", "%s:accepted-outside-support:%s" % (which["pr"]["fam"], _region(which)), \
                "log-prior %r is finite although %s = %s is outside the support of %s%s" % (
                    lp, "x", which["x"], which["pr"], " (positive flag)" if which["positive"] else "")
        if "cost" in got and got["cost"] != -math.inf:
            return "violation", "cost-not-minus-inf", "cost_function returned %r for a rejected vector" % got["cost"]
        if "cost_exc" in got:
            return "machinery", None, got["cost_exc"]
        return "ok", None, None
    if rec["outcome"] == "open":
        return "ok", None, None
    want = sum(symval([[t[1], [[t[0][0], t[0][1]]] if t[0][0] != "one" else []] for t in comp]) for comp in rec["lp"])
    if not finite:
        return "violation", "%s:rejected-inside-support" % fams, "log-prior %r is not finite inside the support; exact value %r" % (lp, want)
    if not close(lp, want, rtol=1e-9, atol=1e-9):
        return "violation", "%s:wrong-density" % fams, "log-prior %r, exact log-density %r" % (lp, want)
    return "ok", None, None


def _rejects(c):
    from fractions import Fraction
    x = Fraction(*c["x"])
    p1, p2 = Fraction(*c["pr"]["p1"]), Fraction(*c["pr"]["p2"])
    fam = c["pr"]["fam"]
    if c["positive"] and x < 0:
        return True
    if fam in ("uniform", "log-uniform"):
        return not (p1 <= x <= p2)
    if fam == "exponential":
        return x < 0
    if fam in ("gamma", "log-gaussian"):
        return x <= 0
    if fam == "beta":
        return not (0 < x < 1)
    return False


def _which_rejects(rec):
    for c, r in zip(rec["vec"], rec.get("rej", [])):
        if r:
            return c
    return rec["vec"][0]


def _region(c):
    from fractions import Fraction
    x = Fraction(*c["x"])
    if x < 0:
        return "negative" + ("+positive-flag" if c["positive"] and c["pr"]["fam"] in ("gaussian", "uniform") else "")
    return "above" if c["pr"]["fam"] in ("beta", "uniform", "log-uniform") and x >= 1 else "below-or-at-zero"


def run(tier):
    t0 = time.time()
    v = common.Verdict(PROP)
    cfg1 = common.make_cfg("priors_single", spec="Spec", constants={"MaxLen": "1", "Mode": '"single"'},
                           invariants=["Identities", "Emit"])
    r1 = common.run_tlc("PriorProbe", cfg1, allow_violation=True, keep_stdout=False)
    if r1.violated:
        v.violation("spec:" + r1.violated, "TLC refuted %s on Priors.tla" % r1.violated, {"tlc_tail": r1.stdout[-3000:]})
    nvec = 4000 if tier == "quick" else 60000
    cfg2 = common.make_cfg("priors_vec", spec="Spec", constants={"MaxLen": "4", "Mode": '"vector"'}, invariants=["Emit"])
    r2 = common.run_tlc("PriorProbe", cfg2, workers=1, simulate=nvec, depth=8, tlc_seed=common.seed(), deadlock=False, keep_stdout=False)
    recs = r1.records + r2.records
    # rejected vectors also go through the cost function (a sample: InferenceSetup construction is slow)
    k = 0
    for rec in recs:
        if rec["outcome"] == "rejected":
            k += 1
            if k % (40 if tier == "quick" else 10) == 0:
                rec["via_cost"] = True
    jobs = [{"recs": ch} for ch in pool.chunks(recs, 200)]
    results = pool.run_jobs("c16", "impl_eval", jobs)
    ok = 0
    outcomes = {"rejected": 0, "open": 0, "value": 0}
    via_cost = 0
    for job, res in zip(jobs, results):
        if "harness_exception" in res or "crash" in res:
            raise common.MachineryError("C16 harness failed: %r" % (res,))
        for rec, got in zip(job["recs"], res["out"]):
            outcomes[rec["outcome"]] += 1
            verdict, key, what = judge(rec, got)
            if verdict == "machinery":
                raise common.MachineryError("cost_function path failed: " + what)
            if "cost" in got:
                via_cost += 1
            if verdict == "ok":
                ok += 1
            else:
                v.violation(key, what, {"rec": rec, "got": got})
    rc = v.finish()
    cov = {"states": r1.distinct + r2.distinct, "transitions": r1.generated + r2.generated,
           "traces_validated_against_impl": len(recs), "samples": [recs[17], r2.records[3] if r2.records else None],
           "exhaustive": True, "single_components": len(r1.records), "random_vectors": len(r2.records),
           "expected_outcomes": outcomes, "rejected_vectors_through_cost_function": via_cost,
           "checker_cmd": r1.cmd + " ; " + r2.cmd}
    common.write_evidence(PROP, tier, cov, time.time() - t0, len(v.alarms) + sum(v.known_hit.values()),
                          assumptions=["gamma and beta shapes are positive integers (rational normalising constants)",
                                       "gaussian values stay within 12 standard deviations (no underflow of the density)",
                                       "boundary points with density 0 or an open/closed convention (gamma at 0, beta at 0 and 1, log-gaussian at 0) are generated but not judged"])
    return rc


def replay(path):
    case = json.load(open(path))["case"]
    res = pool.run_jobs("c16", "impl_eval", [{"recs": [case["rec"]]}], nworkers=1)[0]
    verdict, key, what = judge(case["rec"], res["out"][0])
    print(json.dumps({"got": res["out"][0], "verdict": verdict, "what": what}, indent=1))
    if verdict == "violation":
        print("VIOLATION property=%s replay=%s" % (PROP, path))
        return 1
    return 0
