"""./check selftest - demonstrates that the bindings are not vacuous (not part of any property's verdict).

(i)  trace validation: a recorded execution of the real SSA is accepted by TraceSsa.tla; the same trace with
     one corrupted field (the fired reaction, a state component, a reported row, a dropped event, a cleared
     zero-propensity flag) must be rejected, each with the expected clause.
(ii) replay: a spec behaviour of Ssa.tla whose expected row is corrupted must be reported by the replay.
"""
import copy
import json

from .. import common, pool
from . import c05, c06

PROP = "selftest"


def run(tier):
    seed = common.seed()
    g = common.run_tlc_many("Ssa", c05.ssa_cfg("selftest_sim", 2, 2, 2, 6), 2, 120, 90, seed + 99, allow_violation=True)
    recs = [r for r in g.records if len({(r["tp"][i + 1][0] * r["tp"][i][1] - r["tp"][i][0] * r["tp"][i + 1][1]) for i in range(len(r["tp"]) - 1)}) >= 1][:40]
    items = [{"id": i + 1, "rec": r, "kind": "ssa", "seed": 1000 + i, "V": [1, 1]} for i, r in enumerate(recs)
             if len({round(c06.f(r["tp"][k + 1]) - c06.f(r["tp"][k]), 12) for k in range(len(r["tp"]) - 1)}) == 1]
    out = pool.run_jobs("c06", "impl_trace", [{"items": items}], nworkers=1)[0]["out"]
    base = None
    for o, it in zip(out, items):
        if "exc" not in o and o["non_integer"] is None and o["nfire"] >= 3 and len(o["ev"]) < 200:
            rec = it["rec"]
            base = {"id": 1, "prog": rec["prog"], "safe": rec["safe"], "x0": rec["x0"], "kind": "ssa", "V": [1, 1],
                    "ev": o["ev"], "rows": o["rows"], "pending": o["pending"]}
            ns = rec["ns"]
            break
    if base is None:
        raise common.MachineryError("selftest found no suitable trace")
    fi = next(i for i, e in enumerate(base["ev"]) if e["k"] == "fire")
    variants = {"original": (base, "accepted")}
    t = copy.deepcopy(base); t["ev"][fi]["x"][0] += 1; variants["state component +1"] = (t, "rejected")
    t = copy.deepcopy(base); del t["ev"][fi]; variants["dropped fire event"] = (t, "rejected")
    t = copy.deepcopy(base); t["rows"][-1][0] += 1; variants["corrupted last row"] = (t, "rejected")
    t = copy.deepcopy(base); t["ev"][fi]["z"] = [1] * len(t["ev"][fi]["z"]); variants["all propensities flagged zero"] = (t, "rejected")
    t = copy.deepcopy(base); t["ev"][fi]["i0"] += 1; variants["row index gap"] = (t, "rejected")
    bad = 0
    for k, (name, (tr, want)) in enumerate(variants.items()):
        tr = dict(tr, id=k + 1)
        vd, _ = c06.validate([tr], ns)
        got = vd[k + 1]
        okk = got["verdict"] == want
        bad += 0 if okk else 1
        print("selftest trace  %-32s -> %s (%s)%s" % (name, got["verdict"], got["clause"], "" if okk else "   UNEXPECTED"))
    # (ii) corrupted expectation in a replay
    rec = copy.deepcopy(recs[0])
    rec["rows"][-1][0] += 1
    res = pool.run_jobs("c05", "impl_replay", [{"recs": [recs[0], rec], "convs": [0], "via": 0}], nworkers=1)[0]["out"]
    ok2 = res[0]["ok"] and not res[1]["ok"]
    print("selftest replay original -> %s ; corrupted expectation -> %s%s" % (res[0]["ok"], res[1]["ok"], "" if ok2 else "   UNEXPECTED"))
    if bad or not ok2:
        raise common.MachineryError("selftest failed: a corrupted trace/expectation was not rejected")
    return 0


def replay(path):
    return 0
