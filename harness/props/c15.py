"""C15 - the inference cost is the stated posterior on correctly aligned data.

(M) spec/Inference.tla (+InferenceGen, Priors, SymVal, Rat).  Property level: data tensor by column NAME and
    ROW, cost(theta) = logprior(theta) - (SUM_{n,t,m} |D - sim_n(t)[m]|^p)^(1/p) with sim_n from trajectory n's
    own initial condition under defaults (+) theta (+) condition_n; a function of theta alone.  Design level:
    Evaluate(theta) as the code's writes into the SHARED parameter array, one action each (PriorCheck,
    ResetDefaults, SetTheta, per trajectory SetInit, SetCondition, Simulate, Accumulate).  TLC explores every
    scenario of a small menu and the COMPLETE evaluation graph (any number of evaluations in any order):
      design "fixed"                  refines the property level; value is a function of theta alone; -inf
                                      exactly outside the support; permutation invariance; ODE certificate
      design "leak" / "reshape"       (bioscrape as pinned) must be REFUTED - the counterexamples are the
                                      condition leak and the (species x time) reshape; a run that is not
                                      refuted means the spec lost its teeth (machinery failure)
      design "noreset" (thorough)     negative control for "unchanged by earlier evaluations"
(G) -simulate: one random scenario per behaviour (1..4 trajectories, 1..3 measured species in any order, p in
    1..3, per-trajectory initial/parameter conditions with different key sets, dict/list/None forms, uniform /
    non-uniform / shifted rational grids, rational data, theta sequences with repeats, permuted measurement
    list, permuted trajectories).  Each object is built with the real InferenceSetup; LL_data and every
    cost_function(theta_i) are compared with the spec (rtol 1e-6: the linear solutions are integrated to ~1e-9).
    Stochastic cost: exact on reaction-free models; fixed-seed invariance under column permutation otherwise.
    The record carries the prediction of every design, so a deviation that coincides with a pinned-tree design
    is reported under that design's finding key; anything else is a cost-mismatch alarm.
Expected values come from TLC.  Python renders the scenario, calls bioscrape and compares; it adds the exact
per-trajectory partial sums emitted by the spec as Fractions (a common numerator for p = 3 and four
trajectories does not fit TLC's 32-bit integers) and takes the p-th root / the logarithm atoms in floats.
"""
import json
import math
import os
import re
import time
from fractions import Fraction

from .. import common, pool
from ..rat import f, close, symval

PROP = "C15"
KEY_RESHAPE = "data-alignment:reshape-species-x-time:measured>1"
KEY_LEAK = "condition-leak:missing-key-after-set"
KEY_SINGLE = "single-frame:rows-counted-as-trajectories"
KEY_NT = "stochastic:timepoints-misread:N=T"
OBSERVATION_KEYS = (KEY_SINGLE, KEY_NT)
RTOL = 1e-6
ATOL = 1e-7
NW = min(6, common.NCPU)


# --------------------------------------------------------------------------- rendering (worker side)

def _dict(d):
    return {k: f(v) for k, v in d.items()} if isinstance(d, dict) else {}   # TLC prints the empty function as []


def _prior_entry(c):
    pr = c["pr"]
    e = [pr["fam"], f(pr["p1"])] if pr["fam"] == "exponential" else [pr["fam"], f(pr["p1"]), f(pr["p2"])]
    if c["positive"]:
        e.append("positive")
    return e


def _model(sc):
    from bioscrape.types import Model
    rx = []
    if sc["kind"] == "prod":        # family F1: X' = theta1 + b, Y' = theta2*c, Z' = 0
        rx = [([], ["X"], "massaction", {"k": "theta1"}), ([], ["X"], "massaction", {"k": "b"}),
              ([], ["Y"], "general", {"rate": "theta2*c"})]
    return Model(species=list(sc["sporder"]), parameters=_dict(sc["defaults"]), reactions=rx,
                 initial_condition_dict=_dict(sc["sp0"]))


def _setup(sc, sim_type, nsim, flip):
    import pandas as pd
    from bioscrape.inference_setup import InferenceSetup
    frames = []
    for tr in sc["trajs"]:
        names = sorted(tr["frame"].keys(), reverse=flip)
        order = names + [sc["timecol"]] if flip else [sc["timecol"]] + names     # column order is irrelevant by name
        data = {sc["timecol"]: [f(t) for t in tr["grid"]]}
        for s in names:
            data[s] = [f(x) for x in tr["frame"][s]]
        frames.append(pd.DataFrame({k: data[k] for k in order}))
    x0s = [_dict(tr["x0"]) for tr in sc["trajs"]]
    cds = [_dict(tr["cond"]) for tr in sc["trajs"]]
    ic = x0s[0] if sc["icform"] == "dict" else x0s
    pcs = None if sc["pcform"] == "none" else (cds[0] if sc["pcform"] == "dict" else cds)
    exp = frames[0] if sc["frameform"] == "single" else frames
    prior = {n: _prior_entry(c) for n, c in zip(sc["est"], sc["prior"])}
    m = _model(sc)
    IS = InferenceSetup(Model=m, params_to_estimate=list(sc["est"]), prior=prior, exp_data=exp,
                        measurements=list(sc["meas"]), time_column=sc["timecol"], initial_conditions=ic,
                        parameter_conditions=pcs, norm_order=sc["p"], sim_type=sim_type, nwalkers=4, nsteps=2,
                        N_simulations=nsim)
    return IS, m


def _exc(e):
    return {"exc": [type(e).__name__, str(e)[:240]]}


def _run_obj(obj, plan, flip):
    import numpy as np
    import bioscrape.random as brandom
    sc = obj["sc"]
    res = {}
    thetas = [np.array([f(x) for x in ev["th"]]) for ev in obj["evals"]]
    # deterministic cost
    try:
        IS, m = _setup(sc, "deterministic", 1, flip)
    except BaseException as e:  # noqa
        res["ctor"] = _exc(e)
    else:
        res["LL"] = np.asarray(IS.LL_data, dtype=float).tolist()
        res["cost"], res["P"] = [], []
        for th in thetas:
            try:
                res["cost"].append(float(IS.cost_function(th)))
            except BaseException as e:  # noqa
                res["cost"].append(_exc(e))
            res["P"].append({k: float(x) for k, x in m.get_parameter_dictionary().items()})
    # stochastic cost
    if sc["kind"] == "free":        # reaction-free: the stochastic simulation is exact
        st = {}
        try:
            IS, m = _setup(sc, "stochastic", 1, flip)
            st["LL"] = np.asarray(IS.LL_data, dtype=float).tolist()
            st["cost"] = []
            for th in thetas:
                try:
                    st["cost"].append(float(IS.cost_function(th)))
                except BaseException as e:  # noqa
                    st["cost"].append(_exc(e))
        except BaseException as e:  # noqa
            st["ctor"] = _exc(e)
        res["st_exact"] = st
    else:                            # fixed seed: the same draws for every object of the record
        st = {}
        try:
            IS, m = _setup(sc, "stochastic", plan["nsim"], flip)
            st["LL"] = np.asarray(IS.LL_data, dtype=float).tolist()
            st["cost"] = []
            for ev, th in zip(obj["evals"], thetas):
                if ev["prop"]["outcome"] != "value" or min(th) < 0:      # negative rates have no stochastic meaning
                    st["cost"].append(None)
                    continue
                brandom.py_seed_random(int(plan["seed"]))
                np.random.seed(int(plan["seed"]) % (2 ** 31))
                try:
                    st["cost"].append(float(IS.cost_function(th)))
                except BaseException as e:  # noqa
                    st["cost"].append(_exc(e))
        except BaseException as e:  # noqa
            st["ctor"] = _exc(e)
        res["st_seed"] = st
    return res


def impl_eval(job):
    import warnings
    import numpy as np
    warnings.simplefilter("ignore")
    np.seterr(all="ignore")
    out = []
    for rec in job["recs"]:
        flip = rec["plan"]["seed"] % 2 == 1
        only = rec.get("only")
        out.append([_run_obj(o, rec["plan"], flip) if (only is None or i == only) else None
                    for i, o in enumerate(rec["objs"])])
    return {"out": out}


# --------------------------------------------------------------------------- judging (parent side)

def _tensor(t):
    return [[[f(x) for x in row] for row in tr] for tr in t]


def _logprior(ev):
    # per-component exact log-densities (SymVal); their sum is taken here, see PriorProbe.Emit
    return sum(symval([[t[1], [[t[0][0], t[0][1]]] if t[0][0] != "one" else []] for t in comp]) for comp in ev["lp"])


def _cost_from(ev, parts, p):
    S = sum((Fraction(int(a), int(b)) for a, b in parts), Fraction(0))      # exact total of the spec's partial sums
    return _logprior(ev) - float(S) ** (1.0 / p)


def _ok(c, want):
    return isinstance(c, float) and math.isfinite(c) and close(c, want, rtol=RTOL, atol=ATOL)


def _klass(sc):
    return "kind=%s:p=%d:%s" % (sc["kind"], sc["p"], "multi-trajectory" if sc["N"] > 1 else "single-trajectory")


def _judge_costs(sc, evals, costs, tag, stats, reshaped=False):
    """costs of one object against the property level; returns [(key, what)].  A deviation is attributed to the
    reshape design only if the object's LL_data IS the reshaped tensor (reshaped=True), to the leak design only if
    the value is the leak design's prediction; a coincidence cannot hide another defect behind a known key."""
    viol = []
    # "a function of theta alone": equal theta, equal value (whatever the value should be)
    hist_bad = set()
    seen = {}
    for i, (ev, c) in enumerate(zip(evals, costs)):
        k = json.dumps(ev["th"])
        if isinstance(c, float) and k in seen and isinstance(costs[seen[k]], float):
            c0 = costs[seen[k]]
            same = (c == c0) or (math.isfinite(c) and math.isfinite(c0) and close(c, c0, rtol=RTOL, atol=ATOL))
            if not same:
                hist_bad.add(i)
                viol.append(("%shistory:same-theta-different-cost" % tag,
                             "evaluation %d and %d of the same object are at theta=%s but returned %r and %r"
                             % (seen[k] + 1, i + 1, [f(x) for x in ev["th"]], c0, c)))
        seen.setdefault(k, i)
    for i, (ev, c) in enumerate(zip(evals, costs)):
        stats["evaluations"] += 1
        ths = [f(x) for x in ev["th"]]
        if isinstance(c, dict):
            viol.append(("%scost:exception:%s" % (tag, c["exc"][0]), "cost_function(%s) raised %s: %s" % (ths, c["exc"][0], c["exc"][1])))
            continue
        if ev["prop"]["outcome"] == "rejected":
            stats["rejected"] += 1
            if c != -math.inf:
                fams = "+".join(sorted({pc["pr"]["fam"] for pc in sc["prior"]}))
                viol.append(("%sprior:cost-not-minus-inf:%s" % (tag, fams), "theta=%s is outside the prior support but the cost is %r" % (ths, c)))
            continue
        want = _cost_from(ev, ev["prop"]["parts"], sc["p"])
        if _ok(c, want):
            stats["values_ok"] += 1
            continue
        if i in hist_bad:
            continue
        alt = {d: _cost_from(ev, ev["des"][d]["parts"], sc["p"]) for d in ("leak", "reshape", "code")
               if d in ev["des"] and (reshaped or d == "leak")}
        what = "theta=%s: cost %r, stated posterior %r" % (ths, c, want)
        if "leak" in alt and _ok(c, alt["leak"]):
            viol.append((KEY_LEAK, what + " (= the value with the conditions of earlier trajectories left in the parameter array)"))
        elif "reshape" in alt and _ok(c, alt["reshape"]):
            viol.append((KEY_RESHAPE, what + " (= the value on the (species x time) array re-read as (time x species))"))
        elif "code" in alt and _ok(c, alt["code"]):
            viol.append((KEY_LEAK, what + " (= reshaped data and leaked conditions)"))
            viol.append((KEY_RESHAPE, what + " (= reshaped data and leaked conditions)"))
        else:
            viol.append(("%scost-mismatch:%s" % (tag, _klass(sc)), what + " (no design of the spec explains it: %s)" % {k: round(x, 6) for k, x in alt.items()}))
    return viol


def _judge_data(sc, obj, LL, tag):
    want = _tensor(obj["Dprop"])
    if LL == want:
        return []
    if LL == _tensor(obj["Dcode"]):
        return [(KEY_RESHAPE, "%sLL_data for measurements %s is the list of columns re-read row-major: %s, by name and row it is %s" % (tag, sc["meas"], LL, want))]
    return [("%sdata-alignment:other:measured=%d" % (tag, len(sc["meas"])), "LL_data %s, by column name and row it is %s" % (LL, want))]


def _ctor_key(sc, exc, tag):
    typ, msg = exc["exc"]
    if sc["frameform"] == "single" and typ == "ValueError" and "number of trajectories" in msg \
            and (sc["icform"] == "list" or sc["pcform"] == "list"):
        return KEY_SINGLE, "exp_data=<one DataFrame of %d rows> with a one-element condition list: %s" % (sc["T"], msg)
    if tag and sc["N"] == sc["T"] and sc["N"] > 1:
        return KEY_NT, "stochastic cost with N = T = %d trajectories/time points: %s: %s" % (sc["N"], typ, msg)
    return "%sexception:%s" % (tag or "constructor:", typ), "%s: %s" % (typ, msg)


def judge_obj(rec, vi, got, stats):
    obj = rec["objs"][vi]
    sc = obj["sc"]
    viol = []
    data_ok = False
    if "ctor" in got:
        viol.append(_ctor_key(sc, got["ctor"], ""))
    else:
        dv = _judge_data(sc, obj, got["LL"], "")
        data_ok = not dv
        viol += dv
        viol += _judge_costs(sc, obj["evals"], got["cost"], "", stats, reshaped=any(k == KEY_RESHAPE for k, _ in dv))
        for ev, P in zip(obj["evals"], got["P"]):           # design conformance: the array an evaluation leaves behind
            m = [d for d in ("leak", "fixed") if d in ev["des"] and all(close(P.get(k), f(x), 1e-12, 0) for k, x in ev["des"][d]["P"].items())]
            stats["array_after"]["+".join(m) or "neither"] += 1
    st = got.get("st_exact")
    if st is not None:
        stats["stochastic_exact_objects"] += 1
        if "ctor" in st:
            viol.append(_ctor_key(sc, st["ctor"], "stochastic:"))
        else:
            dv = _judge_data(sc, obj, st["LL"], "stochastic:")
            viol += dv
            nt = sc["N"] == sc["T"] and sc["N"] > 1
            costs = st["cost"]
            if nt and any(isinstance(c, dict) for c in costs):
                c = [c for c in costs if isinstance(c, dict)][0]
                viol.append((KEY_NT, "stochastic cost with N = T = %d trajectories/time points: %s: %s" % (sc["N"], c["exc"][0], c["exc"][1])))
            else:
                viol += _judge_costs(sc, obj["evals"], costs, "stochastic:", stats, reshaped=any(k == KEY_RESHAPE for k, _ in dv))
    return viol, data_ok


def judge_seeded(rec, results, stats):
    """fixed seed: an object that differs from the first one only in the order of the measured species must return
    the same stochastic cost (the draws are consumed identically)."""
    viol = []
    base = results[0].get("st_seed") if results and results[0] else None
    if base is None or "ctor" in base:
        if base is not None:
            viol.append(_ctor_key(rec["objs"][0]["sc"], base["ctor"], "stochastic:"))
        return viol
    b_ok = base["LL"] == _tensor(rec["objs"][0]["Dprop"])
    for vi in range(1, len(rec["objs"])):
        var = rec["plan"]["variants"][vi]
        st = results[vi].get("st_seed") if results[vi] else None
        if st is None or var["pn"] != sorted(var["pn"]):
            continue                      # permuted trajectories receive different draws: no claim
        if "ctor" in st:
            viol.append(_ctor_key(rec["objs"][vi]["sc"], st["ctor"], "stochastic:"))
            continue
        if not (b_ok and st["LL"] == _tensor(rec["objs"][vi]["Dprop"])):
            stats["seeded_skipped_misaligned"] += 1      # already reported under the data-alignment key
            continue
        for i, (c0, c1) in enumerate(zip(base["cost"], st["cost"])):
            if c0 is None or c1 is None:
                continue
            stats["seeded_pairs"] += 1
            if isinstance(c0, dict) or isinstance(c1, dict):
                e = c0 if isinstance(c0, dict) else c1
                key = KEY_NT if rec["sc"]["N"] == rec["sc"]["T"] and rec["sc"]["N"] > 1 else "stochastic:cost:exception:%s" % e["exc"][0]
                viol.append((key, "stochastic cost raised %s: %s" % tuple(e["exc"])))
            elif not close(c1, c0, rtol=1e-9, atol=1e-9):
                viol.append(("stochastic:seeded-cost-changes-with-measurement-order",
                             "seed %d, N_simulations %d, theta %s: cost %r for measurements %s but %r for %s"
                             % (rec["plan"]["seed"], rec["plan"]["nsim"], [f(x) for x in rec["objs"][0]["evals"][i]["th"]],
                                c0, rec["objs"][0]["sc"]["meas"], c1, rec["objs"][vi]["sc"]["meas"])))
    return viol


# --------------------------------------------------------------------------- TLC

INV_FIXED = ["Refines", "DataAligned", "FunctionOfTheta", "MinusInf", "OdeCertificate", "PermInvariantAll"]
INV_GEN = ["RefinesFixed", "DataAlignedFixed", "FunctionOfTheta", "MinusInf", "OdeCertificate", "PermInvariantPlan", "NoOpen", "Emit"]


def _exh(design, invariants, mode="exh"):
    cfg = common.make_cfg("inference_%s_%s" % (mode, design), spec="Spec",
                          constants={"Mode": '"%s"' % mode, "MaxN": "2", "Designs": '{"%s"}' % design},
                          invariants=invariants)
    return common.run_tlc("InferenceGen", cfg, workers=NW, allow_violation=True, keep_stdout=True)


def _counterexample(stdout):
    """the conditions / measurements of the last state of a TLC error trace (for the log and the evidence)"""
    last = stdout.rsplit("\nState ", 1)[-1]
    m = re.search(r"/\\ cur = (.*?)(?:\n/\\ |\Z)", last, re.S)
    cur = m.group(1) if m else last
    return {"cond": re.findall(r"cond \|-> (.*?),\n", cur), "meas": re.findall(r"meas \|-> (<<.*?>>)", cur)[:1],
            "theta": re.findall(r"/\\ th = (.*)", last)[:1]}


def model_check(tier, v):
    info = {}
    ra = _exh("fixed", INV_FIXED)
    if ra.violated:
        v.violation("spec:" + ra.violated, "TLC refuted %s for the design 'fixed' of Inference.tla" % ra.violated, {"tlc_tail": ra.stdout[-3000:]})
    runs = [ra]
    for design, inv, what in (("leak", "Refines", "condition leak"), ("reshape", "DataAligned", "(species x time) reshape")):
        r = _exh(design, [inv])
        runs.append(r)
        if r.violated != inv:
            raise common.MachineryError("vacuity: TLC did not refute %s for the design '%s' (%s) - the spec no longer "
                                        "distinguishes the pinned code from the property" % (inv, design, what))
        info[design + "_refuted"] = {"invariant": inv, "counterexample": _counterexample(r.stdout)}
        print("[C15] TLC refutes %s for design '%s' (bioscrape as pinned: %s); counterexample %s"
              % (inv, design, what, json.dumps(info[design + "_refuted"]["counterexample"])))
    if tier == "thorough":
        r = _exh("noreset", ["FunctionOfTheta"])
        runs.append(r)
        if r.violated != "FunctionOfTheta":
            raise common.MachineryError("vacuity: FunctionOfTheta is not refuted when ResetDefaults is dropped")
        info["noreset_refuted"] = {"invariant": "FunctionOfTheta"}
        # the leaky design is still a function of theta alone (its defect is the ORDER dependence, not the history)
        # and three trajectories (lean menu: every triple of condition key sets) behave like two
        for design, invs, mode in (("leak", ["FunctionOfTheta", "MinusInf"], "exh"), ("fixed", INV_FIXED, "exh3")):
            r = _exh(design, invs, mode)
            runs.append(r)
            if r.violated:
                v.violation("spec:" + r.violated, "TLC refuted %s for the design '%s' (%s)" % (r.violated, design, mode), {"tlc_tail": r.stdout[-3000:]})
            r.stdout = ""
        r = _exh("leak", ["Refines"], "exh3")
        runs.append(r)
        if r.violated != "Refines":
            raise common.MachineryError("vacuity: the leak is not refuted on three trajectories")
    ra.stdout = ""
    return runs, info


def generate(tier):
    nsc = int(os.environ.get("VERIF_C15_SCENARIOS", "360" if tier == "quick" else "6000"))
    cfg = common.make_cfg("inference_gen", spec="Spec",
                          constants={"Mode": '"sim"', "MaxN": "4", "Designs": '{"fixed", "leak", "reshape", "code"}'},
                          invariants=INV_GEN)
    return common.run_tlc_many("InferenceGen", cfg, nproc=NW, simulate=nsc, depth=600, base_seed=common.seed(), allow_violation=True)


# --------------------------------------------------------------------------- run / replay

def _new_stats():
    from collections import Counter
    s = Counter()
    s["array_after"] = Counter()
    return s


def _leak_sensitive(sc):
    seen = set()
    for tr in sc["trajs"]:
        ks = set(_keys(tr["cond"]))
        if seen - ks:
            return True
        seen |= ks
    return False


def _keys(d):
    return list(d.keys()) if isinstance(d, dict) else []


def run(tier):
    from collections import Counter
    t0 = time.time()
    v = common.Verdict(PROP)
    runs, info = model_check(tier, v)
    g = generate(tier)
    if g.violated:
        v.violation("spec:" + g.violated, "TLC refuted %s on a generated scenario of InferenceGen.tla" % g.violated, {"tlc_tail": g.stdout[-3000:]})
    recs = g.records
    if len(recs) < 20:
        raise common.MachineryError("InferenceGen produced only %d scenarios" % len(recs))
    jobs = [{"recs": ch} for ch in pool.chunks(recs, 8)]
    results = pool.run_jobs("c15", "impl_eval", jobs, nworkers=NW)
    stats = _new_stats()
    dist = {k: Counter() for k in ("trajectories", "measured", "p", "kind", "forms", "priors", "T")}
    nobj = nok = 0
    observations = Counter()
    for job, res in zip(jobs, results):
        if "harness_exception" in res:
            raise common.MachineryError("C15 harness failed: %s\n%s" % (res["harness_exception"], res.get("tb", "")))
        if "crash" in res:
            for rec in job["recs"]:
                v.violation("crash:inference", "worker died (%s) while evaluating a batch of scenarios" % res["crash"], {"rec": rec, "vi": None})
            continue
        for rec, got in zip(job["recs"], res["out"]):
            sc = rec["sc"]
            dist["trajectories"][sc["N"]] += 1
            dist["measured"][len(sc["meas"])] += 1
            dist["p"][sc["p"]] += 1
            dist["kind"][sc["kind"]] += 1
            dist["T"][sc["T"]] += 1
            dist["forms"]["ic=%s,pc=%s,frames=%s" % (sc["icform"], sc["pcform"], sc["frameform"])] += 1
            for pc in sc["prior"]:
                dist["priors"][pc["pr"]["fam"]] += 1
            stats["leak_sensitive_scenarios"] += int(_leak_sensitive(sc) and sc["kind"] == "prod")
            stats["permuted_measurement_objects"] += sum(1 for x in rec["plan"]["variants"] if x["pm"] != sorted(x["pm"]))
            stats["permuted_trajectory_objects"] += sum(1 for x in rec["plan"]["variants"] if x["pn"] != sorted(x["pn"]))
            for vi in range(len(rec["objs"])):
                nobj += 1
                viol, _ = judge_obj(rec, vi, got[vi], stats)
                # an explicit exception for an argument form (one un-listed DataFrame with list conditions;
                # the stochastic cost with N = T) returns no value at all: C15 speaks about the value that
                # is returned, so these are recorded as observations, not judged
                obs = [kw for kw in viol if kw[0] in OBSERVATION_KEYS]
                viol = [kw for kw in viol if kw[0] not in OBSERVATION_KEYS]
                for key, _ in _dedup(obs):
                    observations[key] += 1
                if not viol:
                    nok += 1
                for key, what in _dedup(viol):
                    v.violation(key, what, {"rec": rec, "vi": vi})
            for key, what in _dedup(judge_seeded(rec, got, stats)):
                if key in OBSERVATION_KEYS:
                    observations[key] += 1
                    continue
                v.violation(key, what, {"rec": rec, "vi": None})
    rc = v.finish()
    aa = dict(stats.pop("array_after"))
    sample = recs[0]
    cov = {"states": sum(r.distinct for r in runs) + g.generated, "transitions": sum(r.generated for r in runs) + g.generated,
           "traces_validated_against_impl": nobj,
           "samples": [{"scenario": sample["sc"], "plan": sample["plan"],
                        "first_object_evaluations": [{"theta": e["th"], "property": e["prop"], "logprior_terms": e["lp"]} for e in sample["objs"][0]["evals"]]}],
           "exhaustive": True,
           "exhaustive_part": "all scenarios of the small menu (N <= 2%s) x the complete evaluation graph (unbounded histories): %d distinct states"
                              % ("" if tier == "quick" else "; N = 3 on a lean menu", runs[0].distinct),
           "spec_designs": info, "scenarios": len(recs), "objects_replayed": nobj, "objects_conforming": nok,
           "distribution": {k: {str(a): b for a, b in sorted(c.items(), key=lambda x: str(x[0]))} for k, c in dist.items()},
           "counts": {k: int(x) for k, x in stats.items()}, "observations_not_judged": dict(observations), "array_left_by_an_evaluation_matches_design": aa,
           "checker_cmd": runs[0].cmd + " ; " + g.cmd}
    common.write_evidence(PROP, tier, cov, time.time() - t0, len(v.alarms) + sum(v.known_hit.values()),
                          assumptions=["models of family F1 only (rates theta1 + b, theta2*c, reaction-free species): the solution is linear in t and exact; the ODE integrator is trusted to 1e-6 on them (C04 covers the integrator)",
                                       "all trajectories of a scenario have the same number of time points, at least two (the API requires equal lengths; a single time point makes odeint fail)",
                                       "the stochastic cost is compared exactly only on reaction-free models with N_simulations = 1; with reactions only fixed-seed invariance under the order of the measured species is claimed (permuted trajectories consume different draws)",
                                       "evaluation points on an open boundary of a prior (gamma/log-gaussian at 0, beta at 0 and 1) are not generated",
                                       "every object gets a fresh Model: cost_function leaves theta and the last conditions in the user's Model object, which a second InferenceSetup on the same Model would inherit as defaults (reported, not judged)"])
    print("[C15] scenarios=%d objects=%d conforming=%d evaluations=%d leak-sensitive=%d" % (len(recs), nobj, nok, stats["evaluations"], stats["leak_sensitive_scenarios"]))
    return rc


def _dedup(viol):
    seen, out = set(), []
    for key, what in viol:
        if key not in seen:
            seen.add(key)
            out.append((key, what))
    return out


def replay(path):
    blob = json.load(open(path))
    case = blob["case"]
    if "rec" not in case:
        print(json.dumps(case, indent=1)[:4000])
        return 1
    rec = case["rec"]
    res = pool.run_jobs("c15", "impl_eval", [{"recs": [rec]}], nworkers=1)[0]
    if "out" not in res:
        print(json.dumps(res, indent=1))
        print("VIOLATION property=%s replay=%s" % (PROP, path))
        return 1
    got = res["out"][0]
    stats = _new_stats()
    viol = []
    for vi in range(len(rec["objs"])):
        if case.get("vi") in (None, vi):
            viol += judge_obj(rec, vi, got[vi], stats)[0]
    viol += judge_seeded(rec, got, stats)
    hit = [x for x in _dedup(viol) if x[0] == blob["key"]] or _dedup(viol)
    print(json.dumps({"key": blob["key"], "violations": hit[:6]}, indent=1))
    if any(k == blob["key"] for k, _ in viol):
        print("VIOLATION property=%s replay=%s" % (PROP, path))
        return 1
    return 0
