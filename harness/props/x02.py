"""X02 (not one of the listed properties; coverage of the specification beyond them): the summary statistics of a
simulation result - SSAResult.py_empirical_distribution, py_first_moment, py_second_moment, py_standard_deviation,
py_correlations.

(M) spec/ResultStats.tla: every table of T rows x NSp species with counts 0..MaxC, every closed window in half time
    units that holds at least one row, every ordered selection of one or two species (repetition allowed).  TLC checks
    the statistics' own laws (distribution sums to one, mean = mean of the marginal, variance >= 0 and zero exactly
    for a constant column, Cauchy-Schwarz, symmetry); the vacuity probe InnerWindowReachable must be refuted.
(G) every emitted query is asked of a real SSAResult (species by index, and by name through a Model whose species
    order is the reverse of the table's columns); empirical distribution, moments, standard deviations and
    correlations are compared with the specification's exact rationals.

A mismatch is reported as "CONFORMANCE-DRIFT extra=X02 ..." and exit 1; it is never reported against a listed property.
"""
import json
import os
import time

from .. import common, pool

PROP = "X02"
INVS = ["DistTotal", "MarginalMean", "VarNonNeg", "VarZeroIffConstant", "CauchySchwarz", "Symmetric", "SelfCov"]


def impl_stats(job):
    import math
    import numpy as np
    from bioscrape.simulator import SSAResult
    from bioscrape.types import Model
    out = []
    for rec in job["recs"]:
        res = {"ok": True}
        try:
            tab = np.array(rec["table"], dtype=float)
            T, S = tab.shape
            n = rec["n"]
            names = ["S%d" % (i + 1) for i in range(S)]
            # by name: the model lists the species in the opposite order, the result table follows the model
            m = Model(species=list(reversed(names)), initialize_model=False)
            s2i = m.get_species2index()
            tab_m = np.zeros_like(tab)
            for i, nm in enumerate(names):
                tab_m[:, s2i[nm]] = tab[:, i]
            sel0 = [s - 1 for s in rec["sel"]]
            start, final = rec["s2"] / 2.0, rec["e2"] / 2.0
            for how in ("index", "name"):
                r = SSAResult(np.arange(T, dtype=float), (tab if how == "index" else tab_m).copy())
                sel = sel0 if how == "index" else [names[i] for i in sel0]
                kw = {} if how == "index" else {"Model": m}
                before = np.array(r.py_get_result()).copy()

                def bad(what, detail):
                    return {"ok": False, "what": "%s:%s" % (what, how), "detail": detail}
                # None for a bound that coincides with the ends of the grid every second time
                st = None if (rec["s2"] == 0 and rec["n"] % 2 == 0) else start
                fi = None if (rec["e2"] == 2 * (T - 1) and rec["n"] % 2 == 1) else final
                mean = r.py_first_moment(start_time=st, final_time=fi, species=sel, **kw)
                want = [rec["sum1"][i] / n for i in sel0]
                if not np.allclose(mean, want, rtol=1e-12, atol=1e-12):
                    res = bad("mean", "first moment %r, rows %r give %r" % (list(mean), rec["rows"], want))
                    break
                m2 = r.py_second_moment(start_time=st, final_time=fi, species1=sel, species2=sel, **kw)
                want = [[rec["sum2"][a][b] / n for b in sel0] for a in sel0]
                if not np.allclose(m2, want, rtol=1e-12, atol=1e-12):
                    res = bad("second-moment", "second moments %r, rows %r give %r" % (np.array(m2).tolist(), rec["rows"], want))
                    break
                sd = r.py_standard_deviation(start_time=st, final_time=fi, species=sel, **kw)
                want = [math.sqrt(rec["varnum"][i]) / n for i in sel0]
                if not np.allclose(sd, want, rtol=1e-9, atol=1e-12):
                    res = bad("standard-deviation", "standard deviations %r, rows %r give %r" % (list(sd), rec["rows"], want))
                    break
                if all(rec["varnum"][i] > 0 for i in sel0):
                    co = r.py_correlations(start_time=st, final_time=fi, species1=sel, species2=sel, **kw)
                    want = [[rec["covnum"][a][b] / math.sqrt(rec["varnum"][a] * rec["varnum"][b]) for b in sel0] for a in sel0]
                    if not np.allclose(co, want, rtol=1e-9, atol=1e-12):
                        res = bad("correlation", "correlations %r, rows %r give %r" % (np.array(co).tolist(), rec["rows"], want))
                        break
                try:
                    dist = np.array(r.py_empirical_distribution(start_time=st, final_time=fi, species=sel, **kw))
                except ValueError as e:
                    if "Buffer dtype mismatch" not in str(e):
                        raise
                    # observation (see DESIGN 15.1): on a platform whose numpy default integer is 64 bit the method's
                    # own index arrays (np.int_ assigned to int32 buffers) make every call fail before anything is computed
                    res["dist_unavailable"] = str(e)[:120]
                    continue
                if dist.ndim != len(sel0):
                    res = bad("distribution:shape", "distribution over %d species has shape %r" % (len(sel0), dist.shape))
                    break
                want = {tuple(v): c / n for v, c in rec["dist"]}
                if any(any(v[k] >= dist.shape[k] for k in range(len(v))) for v in want):
                    res = bad("distribution:shape", "shape %r does not hold the observed tuples %r" % (dist.shape, sorted(want)))
                    break
                for idx in np.ndindex(*dist.shape):
                    if abs(dist[idx] - want.get(tuple(idx), 0.0)) > 1e-12:
                        res = bad("distribution", "P%r = %r, rows %r give %r" % (idx, float(dist[idx]), rec["rows"], want.get(tuple(idx), 0.0)))
                        break
                if not res["ok"]:
                    break
                if not np.array_equal(np.array(r.py_get_result()), before):
                    res = bad("result-changed", "asking for statistics changed the result table")
                    break
        except Exception as e:
            res = {"ok": False, "what": "exception:" + type(e).__name__, "detail": str(e)[:300]}
        out.append(res)
    return {"out": out}


def run(tier):
    t0 = time.time()
    seed = common.seed()
    quick = tier == "quick"
    nw = max(2, min(12, (os.cpu_count() or 4) - 2))
    cs = {"T": "3" if quick else "4", "NSp": "2", "MaxC": "2"}
    cfg = common.make_cfg("result_stats", spec="Spec", constants=cs, invariants=INVS + ["Emit"])
    r = common.run_tlc("ResultStats", cfg, workers=nw, allow_violation=True, keep_stdout=False, deadlock=False)
    bad = []
    if r.violated:
        bad.append(("spec:" + r.violated, "TLC refuted %s on ResultStats.tla" % r.violated))
    vcfg = common.make_cfg("result_stats_vac", spec="Spec", constants={"T": "3", "NSp": "1", "MaxC": "1"}, invariants=["InnerWindowReachable"])
    rv = common.run_tlc("ResultStats", vcfg, workers=1, allow_violation=True, keep_stdout=False, deadlock=False)
    if not rv.violated:
        bad.append(("spec:vacuous:inner-window", "no query leaves out rows on both sides"))
    recs = r.records
    jobs = [{"recs": ch} for ch in pool.chunks(recs, 400)]
    results = pool.run_jobs("x02", "impl_stats", jobs, nworkers=nw)
    ok = nodist = 0
    by = {}
    for job, res in zip(jobs, results):
        if "harness_exception" in res:
            raise common.MachineryError("X02 harness failed: %s\n%s" % (res["harness_exception"], res.get("tb", "")))
        for k, rec in enumerate(job["recs"]):
            got = {"ok": False, "what": "crash", "detail": "worker died: %s" % res["crash"]} if "crash" in res else res["out"][k]
            if got["ok"]:
                ok += 1
                nodist += 1 if got.get("dist_unavailable") else 0
            else:
                by.setdefault(got["what"], []).append((got["detail"], rec))
    for k, cases in sorted(by.items()):
        bad.append((k, "%d cases, first: %s; table %s window [%s/2, %s/2] species %s" % (
            len(cases), cases[0][0], json.dumps(cases[0][1]["table"]), cases[0][1]["s2"], cases[0][1]["e2"], cases[0][1]["sel"])))
    cov = {"states": r.distinct, "transitions": r.generated, "queries_replayed": len(recs), "queries_in_agreement": ok, "queries_whose_distribution_call_raised_dtype_mismatch": nodist,
           "access": ["index", "name through a Model with the reverse species order"], "constants": cs,
           "inner_windows": sum(1 for rec in recs if 0 not in rec["rows"] and (len(rec["table"]) - 1) not in rec["rows"]),
           "checker_cmd": r.cmd}
    evdir = os.environ.get("VERIF_EVIDENCE_DIR", os.path.join(common.VERIF, "evidence_extra"))
    os.makedirs(evdir, exist_ok=True)
    with open(os.path.join(evdir, "X02.json"), "w") as fh:
        json.dump({"extra": PROP, "tier": tier, "seed": seed, "coverage": cov, "wall_s": round(time.time() - t0, 1), "drift": len(bad)}, fh, indent=1)
    print("[X02] states=%d queries=%d agreeing=%d" % (r.distinct, len(recs), ok))
    if nodist:
        print("OBSERVATION extra=X02: py_empirical_distribution raised 'Buffer dtype mismatch' on %d of %d queries (moments compared, distribution not)" % (nodist, len(recs)))
    for k, what in bad:
        print("CONFORMANCE-DRIFT extra=X02 key=%s: %s" % (k, what[:700]))
    return 1 if bad else 0


def replay(path):
    rec = json.load(open(path))
    res = pool.run_jobs("x02", "impl_stats", [{"recs": [rec]}], nworkers=1)[0]
    print(json.dumps(res, indent=1))
    return 0 if res["out"][0]["ok"] else 1
