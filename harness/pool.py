"""Crash-tolerant worker pool: every call into bioscrape runs in a sub-process.

A worker is `python -u -m harness.worker <module> <function>`; it reads one JSON job per line on
stdin and answers one JSON line on stdout.  A worker that dies (segfault, abort) is an observation:
the job it was running gets {"crash": returncode}, and a new worker is started for the rest."""
import json
import os
import queue
import select
import subprocess
import sys
import threading

from . import common


JOB_TIMEOUT = int(os.environ.get("VERIF_JOB_TIMEOUT", "300"))


class _Worker:
    def __init__(self, module, func):
        self.module, self.func = module, func
        self.start()

    def start(self):
        self.p = subprocess.Popen([common.PY, "-u", "-m", "harness.worker", self.module, self.func],
                                  stdin=subprocess.PIPE, stdout=subprocess.PIPE, stderr=subprocess.DEVNULL,
                                  text=True, env=common.impl_env(), cwd=common.VERIF, bufsize=1)

    def call(self, job, timeout=None):
        timeout = timeout or JOB_TIMEOUT
        try:
            self.p.stdin.write(json.dumps(job) + "\n")
            self.p.stdin.flush()
            while True:
                ready, _, _ = select.select([self.p.stdout], [], [], timeout)
                if not ready:
                    # the implementation did not return: an observation (like a crash), not a harness failure
                    self.p.kill()
                    self.p.wait()
                    self.start()
                    return {"crash": "hang (no answer within %ds)" % timeout}
                line = self.p.stdout.readline()
                if line == "":
                    raise BrokenPipeError
                if line.startswith("\x01RES "):
                    return json.loads(line[5:])
        except (BrokenPipeError, OSError):
            rc = self.p.wait()
            self.start()
            return {"crash": rc}

    def close(self):
        try:
            self.p.stdin.close()
            self.p.wait(timeout=10)
        except Exception:
            self.p.kill()


def run_jobs(module, func, jobs, nworkers=None, progress=None):
    """Run func(job) of harness.props.<module> for every job; returns results in order."""
    jobs = list(jobs)
    n = min(nworkers or common.NCPU, max(1, len(jobs)))
    q = queue.Queue()
    for i, j in enumerate(jobs):
        q.put((i, j))
    results = [None] * len(jobs)

    def loop():
        w = _Worker(module, func)
        try:
            while True:
                try:
                    i, j = q.get_nowait()
                except queue.Empty:
                    return
                results[i] = w.call(j)
        finally:
            w.close()

    ts = [threading.Thread(target=loop) for _ in range(n)]
    for t in ts:
        t.start()
    for t in ts:
        t.join()
    return results


def chunks(seq, n):
    seq = list(seq)
    return [seq[i:i + n] for i in range(0, len(seq), n)]
