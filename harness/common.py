"""Shared machinery: build of /repo, TLC runner, evidence, known findings, replay files.

Exit code convention of ./check: 0 = property held on everything explored,
1 = violation (a line "VIOLATION property=<id> replay=<path>" is printed),
2 = machinery failure (TLC error, parse error, ...) - never confused with 1.
"""
import fcntl
import hashlib
import json
import os
import re
import shutil
import subprocess
import sys
import tempfile
import time

VERIF = os.path.dirname(os.path.dirname(os.path.abspath(__file__)))
REPO = os.environ.get("VERIF_REPO", "/repo")
SPEC = os.path.join(VERIF, "spec")
PY = "/venv/bin/python"
GUARD = "BIOSCRAPE_VERIF"
TLA_CP = "/opt/veriftools/tla/tla2tools.jar:/opt/veriftools/tla/CommunityModules-deps.jar"
NCPU = os.cpu_count() or 4


class MachineryError(Exception):
    pass


def seed():
    try:
        return int(os.environ.get("VERIF_SEED", "1"))
    except ValueError:
        return 1


# --------------------------------------------------------------------------- build

def _src_files():
    out = []
    for d in ("bioscrape", "lineage"):
        dd = os.path.join(REPO, d)
        if not os.path.isdir(dd):
            continue
        for f in sorted(os.listdir(dd)):
            if f.endswith((".pyx", ".pxd")):
                out.append(os.path.join(dd, f))
    out.append(os.path.join(REPO, "setup.py"))
    return out


def _hashes():
    h = {}
    for f in _src_files():
        with open(f, "rb") as fh:
            h[os.path.relpath(f, REPO)] = hashlib.sha256(fh.read()).hexdigest()
    return h


def build_repo(verbose=False):
    """Incremental in-place build of the Cython extensions from REPO's working tree.

    A stamp (content hashes of every .pyx/.pxd) lives in REPO/build/.verif_stamp; any file
    whose hash differs from the stamp is touched so that cythonize regenerates it even if
    its mtime went backwards (git checkout).  Serialised by a lock file."""
    bdir = os.path.join(REPO, "build")
    os.makedirs(bdir, exist_ok=True)
    lock = open(os.path.join(bdir, ".verif_lock"), "w")
    fcntl.flock(lock, fcntl.LOCK_EX)
    try:
        stamp_file = os.path.join(bdir, ".verif_stamp")
        try:
            old = json.load(open(stamp_file))
        except Exception:
            old = {}
        new = _hashes()
        sos = [f for f in os.listdir(os.path.join(REPO, "bioscrape")) if f.endswith(".so")]
        need = (old != new) or len(sos) < 5
        if not need:
            return 0.0
        t0 = time.time()
        now = time.time()
        for rel, hv in new.items():
            if old.get(rel) != hv:
                os.utime(os.path.join(REPO, rel), (now, now))
        env = dict(os.environ)
        env.pop(GUARD, None)
        p = subprocess.run([PY, "setup.py", "build_ext", "--inplace", "-j", "8"], cwd=REPO,
                           stdout=subprocess.PIPE, stderr=subprocess.STDOUT, text=True, env=env)
        if p.returncode != 0:
            sys.stderr.write(p.stdout[-4000:])
            raise MachineryError("build of %s failed" % REPO)
        json.dump(new, open(stamp_file, "w"))
        if verbose:
            print("[build] rebuilt extensions in %.1fs" % (time.time() - t0))
        return time.time() - t0
    finally:
        fcntl.flock(lock, fcntl.LOCK_UN)
        lock.close()


def impl_env():
    env = dict(os.environ)
    env[GUARD] = "1"
    env["PYTHONPATH"] = REPO + os.pathsep + VERIF + os.pathsep + env.get("PYTHONPATH", "")
    env["PYTHONHASHSEED"] = "0"
    env["PYTHONWARNINGS"] = "ignore"
    env["OMP_NUM_THREADS"] = "1"
    env["OPENBLAS_NUM_THREADS"] = "1"
    return env


# --------------------------------------------------------------------------- TLC

_RE_STATES = re.compile(r"(\d+) states generated, (\d+) distinct states found, (\d+) states left on queue")
_RE_SIMSTATES = re.compile(r"The number of states generated: (\d+)")
_RE_DEPTH = re.compile(r"The depth of the complete state graph search is (\d+)")


class TlcResult:
    def __init__(self):
        self.ok = False
        self.stdout = ""
        self.generated = 0
        self.distinct = 0
        self.depth = 0
        self.records = []      # JSON objects emitted with PrintT(ToJson(..))
        self.violated = None   # name of violated invariant/property, if any
        self.wall = 0.0
        self.cmd = ""
        self.coverage = {}
        self.duplicates = 0


def run_tlc(module, cfg, workers=None, simulate=None, depth=None, tlc_seed=None, env_extra=None,
            timeout=3600, coverage=False, deadlock=None, java_opts=None, keep_stdout=True,
            allow_violation=False):
    """Run TLC on spec/<module>.tla with spec/<cfg>.  `simulate` = number of behaviours (then
    -simulate num=..).  Records printed by PrintT(ToJson(x)) are collected in .records."""
    res = TlcResult()
    meta = tempfile.mkdtemp(prefix="verif_tlc_")
    nw = workers or NCPU
    # many single-worker TLC processes run side by side: keep each JVM small (GC threads, heap)
    cmd = ["java", "-XX:+UseParallelGC", "-Xss16m", "-XX:ParallelGCThreads=%d" % max(2, min(8, nw)),
           "-Xmx%dg" % (3 if nw <= 2 else 12)]
    if java_opts:
        cmd += java_opts
    cmd += ["-cp", TLA_CP, "tlc2.TLC", "-metadir", meta, "-noGenerateSpecTE",
            "-workers", str(workers or NCPU), "-config", cfg]
    if simulate is not None:
        cmd += ["-simulate", "num=%d" % simulate]
        cmd += ["-depth", str(depth or 100)]
    if tlc_seed is not None:
        cmd += ["-seed", str(tlc_seed)]
    covdir = os.environ.get("VERIF_TLC_COVERAGE")     # bin/coverage_audit: per-action counts of every TLC run
    if coverage or covdir:
        cmd += ["-coverage", "1"]
    if deadlock is False:
        cmd += ["-deadlock"]
    cmd += [module]
    env = dict(os.environ)
    if env_extra:
        env.update({k: str(v) for k, v in env_extra.items()})
    res.cmd = " ".join(cmd[cmd.index("tlc2.TLC"):]).replace(meta, "<tmp>")
    t0 = time.time()
    try:
        p = subprocess.run(cmd, cwd=SPEC, stdout=subprocess.PIPE, stderr=subprocess.STDOUT, text=True,
                           env=env, timeout=timeout)
    except subprocess.TimeoutExpired as e:
        shutil.rmtree(meta, ignore_errors=True)
        raise MachineryError("TLC timed out after %ss on %s/%s" % (timeout, module, cfg))
    finally:
        shutil.rmtree(meta, ignore_errors=True)
    res.wall = time.time() - t0
    out = p.stdout
    if covdir:
        try:
            os.makedirs(covdir, exist_ok=True)
            cov = [l for l in out.splitlines() if l.startswith("<") and " of module " in l]
            with open(os.path.join(covdir, "%s__%s__%d_%d.cov" % (module, os.path.basename(cfg).replace(".cfg", ""),
                                                                   os.getpid(), int(time.time() * 1000) % 10 ** 9)), "w") as f:
                f.write("\n".join(cov) + "\n")
        except OSError:
            pass
    res.stdout = out if keep_stdout else out[-20000:]
    seen = set()
    for line in out.splitlines():
        if line.startswith('"{') or line.startswith('"['):
            if line in seen:
                res.duplicates += 1
                continue
            seen.add(line)
            try:
                res.records.append(json.loads(json.loads(line)))
            except Exception:
                pass
    m = None
    for m in _RE_STATES.finditer(out):
        pass
    if m:
        res.generated, res.distinct = int(m.group(1)), int(m.group(2))
    else:
        m = _RE_SIMSTATES.search(out)
        if m:
            res.generated = res.distinct = int(m.group(1))
    m = _RE_DEPTH.search(out)
    if m:
        res.depth = int(m.group(1))
    mv = re.search(r"Error: Invariant (\S+) is violated", out) or \
        re.search(r"Error: Action property (\S+) is violated", out) or \
        re.search(r"Error: Temporal properties were violated", out)
    if mv:
        res.violated = mv.group(1) if mv.groups() else "temporal"
    finished = ("Model checking completed. No error has been found." in out) or \
               (simulate is not None and p.returncode == 0 and "Error:" not in out)
    # In simulation mode TLC exits 0 after num behaviours without the "completed" banner.
    res.ok = finished and p.returncode == 0
    if not res.ok and not (allow_violation and res.violated):
        tail = "\n".join(out.splitlines()[-40:])
        raise MachineryError("TLC failed on %s/%s (rc=%s):\n%s" % (module, cfg, p.returncode, tail))
    if coverage:
        for m in re.finditer(r"<(\w+) line \d+, col \d+ to line \d+, col \d+ of module (\w+)>: (\d+):(\d+)", out):
            res.coverage[m.group(1)] = (int(m.group(3)), int(m.group(4)))
    return res


def sany_all():
    bad = []
    for f in sorted(os.listdir(SPEC)):
        if f.endswith(".tla"):
            p = subprocess.run(["java", "-cp", TLA_CP, "tla2sany.SANY", f], cwd=SPEC,
                               stdout=subprocess.PIPE, stderr=subprocess.STDOUT, text=True)
            if p.returncode != 0 or "Semantic errors" in p.stdout or "Parse Error" in p.stdout \
                    or "Fatal errors" in p.stdout or "*** Errors" in p.stdout:
                bad.append((f, p.stdout[-1500:]))
    return bad


# --------------------------------------------------------------------------- findings / replay / evidence

def load_findings():
    p = os.path.join(VERIF, "KNOWN_FINDINGS.json")
    if not os.path.exists(p):
        return []
    return json.load(open(p))


class Verdict:
    """Collects violations of one property, splits them into known findings and alarms."""

    def __init__(self, prop):
        self.prop = prop
        self.findings = [f for f in load_findings() if f.get("property") == prop]
        self.known_hit = {}     # key -> count
        self.alarms = []        # (key, replay_path)
        self.drift = []
        self._alarm_keys = {}

    def violation(self, key, what, replay):
        """key: finding key naming the failing input class / call site.  replay: JSON-able."""
        for f in self.findings:
            if f.get("status") == "open" and f.get("key") == key:
                self.known_hit[key] = self.known_hit.get(key, 0) + 1
                return "known"
        if key in self._alarm_keys:
            self._alarm_keys[key] += 1
            return "alarm"
        self._alarm_keys[key] = 1
        rdir = os.environ.get("VERIF_REPLAY_DIR", os.path.join(VERIF, "replays"))
        os.makedirs(rdir, exist_ok=True)
        blob = json.dumps({"property": self.prop, "key": key, "what": what, "seed": seed(), "case": replay},
                          sort_keys=True, default=str)
        name = "%s_%s.json" % (self.prop, hashlib.sha1(blob.encode()).hexdigest()[:12])
        path = os.path.join(rdir, name)
        with open(path, "w") as fh:
            fh.write(blob)
        self.alarms.append((key, path, what))
        return "alarm"

    def finish(self):
        for f in self.findings:
            if f.get("status") == "open" and f["key"] in self.known_hit:
                print("KNOWN-FINDING: property=%s %s: %s (%d cases this run)" %
                      (self.prop, f["key"], f.get("what", ""), self.known_hit[f["key"]]))
        for key, path, what in self.alarms:
            print("VIOLATION property=%s replay=%s" % (self.prop, path))
            print("  key=%s n=%d: %s" % (key, self._alarm_keys[key], what))
        return 1 if self.alarms else 0


def write_evidence(prop, tier, coverage, wall, violations, assumptions=None, level="model_checking"):
    evdir = os.environ.get("VERIF_EVIDENCE_DIR", os.path.join(VERIF, "evidence"))
    os.makedirs(evdir, exist_ok=True)
    ev = {"property_id": prop, "tier": tier, "seed": seed(), "level": level, "coverage": coverage,
          "assumptions": assumptions or [], "wall_s": round(wall, 2), "violations": int(violations)}
    with open(os.path.join(evdir, prop + ".json"), "w") as fh:
        json.dump(ev, fh, indent=1, default=str)
    return ev


# --------------------------------------------------------------------------- cfg generation

_TMP = None


def tmpdir():
    global _TMP
    if _TMP is None:
        import atexit
        _TMP = tempfile.mkdtemp(prefix="verif_run_")
        if not os.environ.get("VERIF_KEEP_TMP"):
            atexit.register(lambda: shutil.rmtree(_TMP, ignore_errors=True))
        else:
            print("[tmp] keeping", _TMP)
    return _TMP


def make_cfg(name, spec=None, init=None, next=None, constants=None, invariants=(), properties=(),
             constraints=(), action_constraints=(), view=None, postcondition=None, deadlock=False):
    """Write a TLC config file into the run's scratch directory and return its path.
    constants: dict name -> literal text ("3", "{1,2}", "TRUE") or ("<-", "OperatorName")."""
    lines = []
    if spec:
        lines.append("SPECIFICATION " + spec)
    if init:
        lines.append("INIT " + init)
    if next:
        lines.append("NEXT " + next)
    if constants:
        lines.append("CONSTANTS")
        for k, v in constants.items():
            if isinstance(v, tuple):
                lines.append("  %s <- %s" % (k, v[1]))
            else:
                lines.append("  %s = %s" % (k, v))
    for c in constraints:
        lines.append("CONSTRAINT " + c)
    for c in action_constraints:
        lines.append("ACTION_CONSTRAINT " + c)
    for i in invariants:
        lines.append("INVARIANT " + i)
    for p in properties:
        lines.append("PROPERTY " + p)
    if view:
        lines.append("VIEW " + view)
    if postcondition:
        lines.append("POSTCONDITION " + postcondition)
    lines.append("CHECK_DEADLOCK " + ("TRUE" if deadlock else "FALSE"))
    path = os.path.join(tmpdir(), name + ".cfg")
    with open(path, "w") as fh:
        fh.write("\n".join(lines) + "\n")
    return path


def run_tlc_many(module, cfg, nproc, simulate, depth, base_seed, **kw):
    """Several single-worker TLC -simulate processes in parallel (different seeds); merged records."""
    import concurrent.futures as cf
    per = max(1, simulate // nproc)
    with cf.ThreadPoolExecutor(max_workers=nproc) as ex:
        futs = [ex.submit(run_tlc, module, cfg, workers=1, simulate=per, depth=depth, tlc_seed=base_seed * 1000 + i,
                          deadlock=False, keep_stdout=False, **kw) for i in range(nproc)]
        rs = [f.result() for f in futs]
    out = TlcResult()
    seen = set()
    for r in rs:
        for rec in r.records:
            k = json.dumps(rec, sort_keys=True)
            if k not in seen:
                seen.add(k)
                out.records.append(rec)
        out.generated += r.generated
        out.distinct += r.distinct
        out.wall = max(out.wall, r.wall)
        out.cmd = r.cmd
        out.violated = out.violated or r.violated
        if r.violated:
            out.stdout = r.stdout
    out.ok = True
    return out
