"""build(program): interpreter of the spec's program records through bioscrape's public API, and
project(model): the abstraction function used by the conformance checks."""
from .rat import f


SNAME_ALT = False      # c14: species 1 is called "S", so that its name is a prefix of every other species name (S, S2, S3)


def sname(i):
    return "S" if (SNAME_ALT and i == 1) else "S%d" % i


def law_dict(law, idx, named, params_out, explicit_species=False, kname=None):
    """propensity type + dictionary for a RateLaws law record; named parameters are collected in params_out.
    kname: another name for the rate constant k (identifiers that look like generated element ids)."""
    def val(key, v):
        if named:
            nm = kname if (kname and key == "k") else "%s_r%d" % (key, idx)
            params_out[nm] = f(v)
            return nm
        return f(v)
    t = law["type"]
    if t == "massaction":
        d = {"k": val("k", law["k"])}
        if explicit_species:
            d["species"] = "*".join(sname(s) for s in law["re"])
        return t, d
    if t == "affine":
        # a 'general' propensity  K + k*s1 - n*d
        return "general", {"rate": "%s + %s*%s - %s*%s" % (val("K", law["K"]), val("k", law["k"]), sname(law["s1"]), val("n", law["n"]), sname(law["d"]))}
    d = {"k": val("k", law["k"]), "K": val("K", law["K"]), "n": val("n", law["n"]), "s1": sname(law["s1"])}
    if t.startswith("proportional"):
        d["d"] = sname(law["d"])
    return t, d


def scale_time(prog, c):
    """the same program in another time unit: t -> t/c, every rate constant -> c * k (Hill K and n are not rates;
    the three coefficients of the affine general law are).  An exact symmetry of the behaviours of Ssa.tla and its
    relatives: waiting times are E/Lambda, selection depends on ratios of propensities only."""
    def mul(q):
        return [q[0] * c, q[1]]
    rxs = []
    for rx in prog["rx"]:
        law = dict(rx["law"])
        law["k"] = mul(law["k"])
        if law["type"] == "affine":
            law["K"], law["n"] = mul(law["K"]), mul(law["n"])
        rxs.append(dict(rx, law=law))
    return dict(prog, rx=rxs)


def delay_args(dl, idx, named, params_out):
    t = dl["type"]
    if t == "none":
        return None, None
    def val(key, v):
        if named:
            nm = "d%s_r%d" % (key, idx)
            params_out[nm] = f(v)
            return nm
        return f(v)
    if t == "fixed":
        return t, {"delay": val("delay", dl["p1"])}
    if t == "gaussian":
        return t, {"mean": val("mean", dl["p1"]), "std": val("std", dl["p2"])}
    if t == "gamma":
        return t, {"k": val("k", dl["p1"]), "theta": val("theta", dl["p2"])}
    raise ValueError(t)


def build(prog, x0=None, via_ctor=False, initialize=True, ns=None, rules=(), model_cls=None):
    """Returns (model, params) for a Crn program record {decl, rx}."""
    from bioscrape.types import Model
    ns = ns or max([0] + [s for rx in prog["rx"] for k in ("re", "pr", "dre", "dpr") for s in rx[k]] + list(prog["decl"]))
    params = {}
    rtuples = []
    for i, rx in enumerate(prog["rx"]):
        ptype, pd = law_dict(rx["law"], i, rx["named"], params, explicit_species=(i % 2 == 1 and rx["law"]["type"] == "massaction" and len(rx["law"]["re"]) > 0))
        if rx.get("unset"):
            params.pop(pd["k"], None)
        dtype, dd = delay_args(rx["delay"], i, rx["named"], params)
        re_, pr_ = [sname(s) for s in rx["re"]], [sname(s) for s in rx["pr"]]
        dre, dpr = [sname(s) for s in rx["dre"]], [sname(s) for s in rx["dpr"]]
        if dtype is None and not dre and not dpr:
            rtuples.append((re_, pr_, ptype, pd))
        else:
            if dtype is None:
                dtype, dd = "fixed", {"delay": 0.0}
            rtuples.append((re_, pr_, ptype, pd, dtype, dre, dpr, dd))
    decl = [sname(s) for s in prog["decl"]]
    # bioscrape requires species that only occur inside a propensity (Hill regulator / proportional
    # species) to be declared before the reaction is created: declare them after the listed ones
    for rx in prog["rx"]:
        if rx["law"]["type"] != "massaction":
            for key in ("s1", "d"):
                if key == "d" and not (rx["law"]["type"].startswith("proportional") or rx["law"]["type"] == "affine"):
                    continue
                if sname(rx["law"][key]) not in decl:
                    decl.append(sname(rx["law"][key]))
    ic = {sname(i + 1): (f(x0[i]) if x0 is not None else 0.0) for i in range(ns)}
    if rules:
        # a name in a rule that is not yet a species is taken for a parameter: declare every species first
        decl = decl + [s for s in ic if s not in decl]
    if model_cls is not None:
        m = model_cls(species=decl, reactions=rtuples, parameters=list(params.items()), rules=list(rules),
                      initial_condition_dict=ic, initialize_model=False)
    elif via_ctor and not any(rx.get("rej") for rx in prog["rx"]):
        m = Model(species=decl, reactions=rtuples, parameters=list(params.items()), rules=list(rules),
                  initial_condition_dict=ic, initialize_model=False)
    else:
        m = Model(species=decl, initialize_model=False)
        for n_rt, rt in enumerate(rtuples):
            if prog["rx"][n_rt].get("rej"):
                # CrnGen "rej": an attempt to add a reaction that the model rejects precedes this reaction
                try:
                    m.create_reaction([], [decl[0]] if decl else [], "hillpositive", {"k": 1.5, "K": 2.0, "n": 2.0, "s1": "species_the_model_does_not_have"})
                    raise AssertionError("the reaction on a species the model does not have was accepted")
                except AssertionError:
                    raise
                except Exception:  # noqa
                    pass
            if len(rt) == 4:
                m.create_reaction(rt[0], rt[1], rt[2], rt[3])
            elif n_rt % 2 == 1:
                # the keyword form of the API: an empty delayed side is simply not given (its default is None)
                kw = {"delay_type": rt[4], "delay_param_dict": rt[7]}
                if rt[5]:
                    kw["delay_reactants"] = rt[5]
                if rt[6]:
                    kw["delay_products"] = rt[6]
                m.create_reaction(rt[0], rt[1], rt[2], rt[3], **kw)
            else:
                m.create_reaction(rt[0], rt[1], rt[2], rt[3], rt[4], rt[5], rt[6], rt[7])
        for k, v in params.items():
            m.create_parameter(k, v)
        for r in rules:
            m.create_rule(*r)
        for s in ic:
            m._add_species(s)
        m.set_species(ic)
    if initialize:
        m.py_initialize()
    return m, params
