"""Worker process: executes harness.props.<module>.<func>(job) for JSON jobs read from stdin.
Answers are written as one line "\\x01RES <json>" so stray prints of the library cannot be confused
with results."""
import importlib
import json
import os
import sys
import traceback
import warnings


def main():
    warnings.simplefilter("ignore")
    try:  # die with the parent: an orphaned worker stuck inside a simulation must not keep a core busy
        import ctypes
        import signal
        ctypes.CDLL("libc.so.6").prctl(1, signal.SIGKILL)
    except Exception:
        pass
    mod = importlib.import_module("harness.props." + sys.argv[1])
    fn = getattr(mod, sys.argv[2])
    out = os.fdopen(os.dup(1), "w")
    # library prints (e.g. "Initializing ODE Rule") go to stderr, never to the result channel
    os.dup2(2, 1)
    for line in sys.stdin:
        if not line.strip():
            continue
        job = json.loads(line)
        try:
            res = fn(job)
        except BaseException as e:  # noqa
            res = {"harness_exception": repr(e), "tb": traceback.format_exc()[-3000:]}
        out.write("\x01RES " + json.dumps(res, default=str) + "\n")
        out.flush()


if __name__ == "__main__":
    main()
