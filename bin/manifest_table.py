NOT_YET = {}
CHECKS["C20"] = dict(
    text="TLC exhaustively checks that the ring-buffer design of the delay queue refines a bag of pending deliveries (exactly-once, nearest slot, in order, copy/partition) for all histories up to the depth bound; every generated history (all short ones, thousands of random long ones) is replayed on the real ArrayDelayQueue with the abstract state compared after every operation.",
    ref="DESIGN.md 5 C20", technique="TLA+ spec (DelayQueue.tla) model-checked with TLC; spec behaviours replayed into the implementation step by step",
    note="Requested times are quarter multiples of power-of-two grid steps (never half-way); partition draws are scripted through the guarded uniform_rv hook; state observed through py_copy + drain.")

CHECKS["C07"] = dict(
    text="TLC enumerates the complete option lattice of the simulation entry point (3000 configurations x 5 model kinds, incl. contradictory arguments) on a pc-level transcription of the dispatch, checks totality/termination/shape invariants, and every configuration is replayed against the real py_simulate_model with the outcome classified (result / explicit rejection by the entry point / internal failure / crash) and the result's rows, time axis, columns, volume trace, divided flag and rule-applied first row compared with the spec.",
    ref="DESIGN.md 5 C07", technique="TLA+ spec (Dispatch.tla) exhaustively enumerated with TLC; every terminal state replayed into py_simulate_model",
    note="An explicit rejection is a ValueError/TypeError/NotImplementedError whose innermost frame is py_simulate_model; property level accepts a correct result or an explicit rejection for any configuration (design-level differences are reported as drift).")

CHECKS["C01"] = dict(
    text="TLC enumerates law x reactant multiset (orders 0..4, repeats) x rational state grid x parameters (incl. fractional Hill exponents on exact perfect powers) x volumes on the closed forms of RateLaws.tla, checks the consistency identities (dimension, unit volume, stochastic<=deterministic, falling-factorial zeros, Hill complement) at every point, and every point is evaluated on the real code in four modes through a bare propensity object, the plain and the safe interface.",
    ref="DESIGN.md 5 C01", technique="TLA+ spec of the closed forms over exact rationals, exhaustively enumerated by TLC; each spec state replayed as an evaluation of the implementation",
    note="Exactly representable points only (rtol 1e-9); the safe path is compared only at states that supply the net-consumed reactants; general propensities are covered by C02.")

CHECKS["C16"] = dict(
    text="Priors.tla states support and exact log-density of the seven families in a canonical symbolic form (rational coefficients over ln p, ln 2pi, lnln, lnsq atoms); TLC checks density identities that pin every normalising constant on all 3810 single-prior grid points and generates random vectors of 1..4 priors with positive-flags; every case is evaluated with the real PIDInterface.check_prior (rejected <=> non-finite, else exact value to 1e-9) and rejected vectors are also pushed through InferenceSetup.cost_function (-inf).",
    ref="DESIGN.md 5 C16", technique="TLA+ spec of supports and symbolic log-densities, identities model-checked by TLC; spec states replayed as evaluations of check_prior / cost_function",
    note="Integer gamma/beta shapes; gaussian within 12 sigma; boundary points with an open/closed convention are generated but not judged; atoms are mapped to floats with one math.log each.")

CHECKS["C03"] = dict(
    text="Crn.tla defines the immediate and delayed stoichiometric matrices twice - by name (products minus reactants with multiplicity) and by the code's index construction (first-mention species order, per-mention update dictionaries, matrix fill) - and TLC checks that the second read through the index map is the first for every program of the bounded family and every declaration list; all programs (exhaustive one-reaction family x 16 declaration lists, random programs with up to 3 reactions, every law and delay type, sides up to 4) are built through the public API and update arrays, delay update arrays and the derivative at rational probe states are compared by species name with the spec's exact values; a referenced-but-unset parameter must make initialisation and simulation fail.",
    ref="DESIGN.md 5 C03", technique="TLA+ spec (Crn.tla, CrnGen.tla) with a name-level and an index-level definition, refinement checked by TLC; generated programs replayed through Model construction",
    note="Derivative compared to 1e-9 at exactly representable states; time-dependent general rates are covered through C02/C04.")
