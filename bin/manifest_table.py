NOT_YET = {}
CHECKS["C20"] = dict(
    text="TLC exhaustively checks that the ring-buffer design of the delay queue refines a bag of pending deliveries (exactly-once, nearest slot, in order, copy/partition) for all histories up to the depth bound; every generated history (all short ones, thousands of random long ones) is replayed on the real ArrayDelayQueue with the abstract state compared after every operation.",
    ref="DESIGN.md 5 C20", technique="TLA+ spec (DelayQueue.tla) model-checked with TLC; spec behaviours replayed into the implementation step by step",
    note="Requested times are quarter multiples of power-of-two grid steps (never half-way); partition draws are scripted through the guarded uniform_rv hook; state observed through py_copy + drain.")
