#!/venv/bin/python
"""Regenerates MANIFEST.json from the table below (single source of truth for the interface)."""
import json, os, subprocess
V = os.path.dirname(os.path.dirname(os.path.abspath(__file__)))
props = [json.loads(l) for l in open(os.path.join(V, "properties.jsonl"))]
CHECKS = {}
exec(open(os.path.join(V, "bin", "manifest_table.py")).read())
for _pid in list(globals().get("PENDING", [])):
    if _pid in CHECKS:
        NOT_YET[_pid] = "check built (spec/Lifecycle*.tla, harness/props/%s.py) but not yet registered: still being stabilised (run time)" % _pid.lower()
        CHECKS.pop(_pid)
hooks_commits = subprocess.run(["git", "-C", "/repo", "log", "--format=%H %s"], capture_output=True, text=True).stdout.splitlines()
hook_shas = [l.split()[0] for l in hooks_commits if "verif hook" in l]
man = {
    "version": 1,
    "setup_cmd": "bin/setup",
    "hooks": {"guard": "BIOSCRAPE_VERIF", "enable": "hooks are always compiled in (add-only code); checks enable them by setting BIOSCRAPE_VERIF=1 in the environment of their worker processes only",
              "baseline_off_cmd": "cd /repo && env -u BIOSCRAPE_VERIF /venv/bin/python -m pytest -ra -q -p no:cacheprovider --timeout=900 --continue-on-collection-errors",
              "source_commits": hook_shas, "add_only": True},
    "engines": [{"name": "tlc", "path": "/opt/veriftools/tla/tla2tools.jar", "serves_properties": sorted(CHECKS), "kind_free_text": "TLC 1.8 explicit-state model checker: exhaustive + -simulate; behaviours emitted as JSON and replayed into bioscrape / traces validated by Trace*.tla"}],
    "checks": [], "not_applicable": [],
    "notes": "All checks: ./check <id> --tier quick|thorough ; exit 0 held / 1 VIOLATION / 2 machinery failure. See DESIGN.md.",
}
for p in props:
    pid = p["id"]
    if pid in CHECKS:
        c = CHECKS[pid]
        man["checks"].append({
            "property_id": pid, "quick_cmd": "./check %s --tier quick" % pid, "thorough_cmd": "./check %s --tier thorough" % pid,
            "evidence_file": "/verif/evidence/%s.json" % pid, "replay_cmd_template": "./check %s --replay {path}" % pid,
            "engine": "tlc", "level_claimed": {"category": "model_checking", "text": c["text"], "design_ref": c["ref"]},
            "level_note": c["note"], "technique": c["technique"]})
    else:
        man["not_applicable"].append({"property_id": pid, "reason": NOT_YET.get(pid, "check not built yet in this round; planned in DESIGN.md section 5")})
json.dump(man, open(os.path.join(V, "MANIFEST.json"), "w"), indent=1)
print("checks:", [c["property_id"] for c in man["checks"]])
